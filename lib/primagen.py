"""primagen — generator of ASN.1 modules and values for the ENUMERATED / BIT STRING layer
(coq/Rt/PrimA.v): the leaves at top level, under IMPLICIT / EXPLICIT tags, as mandatory and
OPTIONAL members of a non-extensible SEQUENCE next to base-algebra leaves, and as the
element type of SEQUENCE OF.  Directed boundary cases first (every representation boundary
of every dimension: root count / additional count of an enumeration, value widths of the OER
long form, SIZE constraint shapes, bit counts at the octet, length-determinant and 16K
fragmentation boundaries), then random ones from the caller's Rng.

A type is a dict:
  {"k": "enum", "root": [(name, value)], "ext": bool, "adds": [(name, value)], "plain": bool, "tag": ...}
      plain = written without numbers (a, b, c): values 0..n-1
  {"k": "bits", "con": None | (lo, hi, ext), "named": None | [(name, position)], "tag": ...}
  a modgen leaf dict (bool / null / int / oct)
  {"k": "pseq", "ms": [(name, type, optional)]}      {"k": "pseqof", "con": ..., "el": ("ref", name)}
A module dict has the shape lib/modbuild.py expects plus m["p"][type name] = {"t": type, "tree": resolved tree,
"pty": model type string}.
Values: ("e", z, name) | ("b", "0101") | modgen leaf value | ("R", [ABSENT | v ...]) | ("M", [v ...]).
"""
from modgen import tagnum, tag_text, con_text, model_str, val_str, resolve, type_text as base_type_text, value as base_value

ABSENT = ("_",)          # an absent OPTIONAL member (None is the NULL value)
ENUM_TAG = tagnum("UNIVERSAL", 10)
BITS_TAG = tagnum("UNIVERSAL", 3)
SEQ_TAG = tagnum("UNIVERSAL", 16)


# ---------------------------------------------------------------- text

def enum_text(t):
    def item(n, v):
        return n if t.get("plain") else "%s(%d)" % (n, v)
    parts = [item(n, v) for n, v in t["root"]]
    if t["ext"]:
        parts.append("...")
        parts += ["%s(%d)" % (n, v) for n, v in t["adds"]]
    return "ENUMERATED { %s }" % ", ".join(parts)


def bits_text(t):
    s = "BIT STRING"
    if t.get("named"):
        s += " { %s }" % ", ".join("%s(%d)" % (n, p) for n, p in t["named"])
    if t.get("con"):
        s += " " + con_text(t["con"], True)
    return s


def type_text(t):
    k = t["k"]
    pre = tag_text(t.get("tag"))
    if k == "enum":
        return pre + enum_text(t)
    if k == "bits":
        return pre + bits_text(t)
    if k == "pseq":
        return pre + "SEQUENCE { %s }" % ", ".join("%s %s%s" % (n, type_text(mt), " OPTIONAL" if o else "") for n, mt, o in t["ms"])
    if k == "pseqof":
        return pre + "SEQUENCE%s OF %s" % (" " + con_text(t["con"], True) if t.get("con") else "", t["el"])
    if k == "pref":
        return pre + t["ref"]
    return base_type_text(t)


# ---------------------------------------------------------------- tagging (X.680 31.2), own leaves

def resolve_elem(t, default, env):
    k = t["k"]
    if k == "pref":
        inner = resolve_elem(env[t["ref"]], default, env)
    elif k == "enum":
        inner = ("E", ENUM_TAG, [v for _, v in t["root"]], t["ext"], [v for _, v in t["adds"]])
    elif k == "bits":
        inner = ("B", BITS_TAG, t.get("con") or (0, None, False), bool(t.get("named")))
    else:
        return ("=", resolve(t, default, {}))
    tag = t.get("tag")
    if tag:
        cls, num, mode = tag
        tg = tagnum(cls, num)
        if mode is None:
            mode = "EXPLICIT" if default == "EXPLICIT" else "IMPLICIT"
        inner = ("G", tg, inner) if mode == "EXPLICIT" else (inner[0], tg) + inner[2:]
    return inner


def resolve_pty(t, default, env):
    k = t["k"]
    if k == "pseq":
        ms = t["ms"]
        auto = default == "AUTOMATIC" and not any(m[1].get("tag") for m in ms)
        out = []
        for i, (n, mt, o) in enumerate(ms):
            if auto:
                mt = dict(mt, tag=("CONTEXT", i, None))
            out.append((o, resolve_elem(mt, default, env)))
        return ("Q", SEQ_TAG, out)
    if k == "pseqof":
        return ("F", SEQ_TAG, t.get("con") or (0, None, False), resolve_elem({"k": "pref", "ref": t["el"]}, default, env))
    return resolve_elem(t, default, env)


def num_s(x):
    return "*" if x is None else str(x)


def con_s(c):
    return "[%s,%s,%d]" % (num_s(c[0]), num_s(c[1]), 1 if c[2] else 0)


def pty_str(tree):
    k = tree[0]
    if k == "E":
        return "E%d(%s;%d;%s)" % (tree[1], ",".join(str(v) for v in tree[2]), 1 if tree[3] else 0, ",".join(str(v) for v in tree[4]))
    if k == "B":
        return "B%d%sn%d" % (tree[1], con_s(tree[2]), 1 if tree[3] else 0)
    if k == "G":
        return "G%d%s" % (tree[1], pty_str(tree[2]))
    if k == "=":
        return "=" + model_str(tree[1])
    if k == "Q":
        return "Q%d{%s}" % (tree[1], "".join(("?" if o else "") + pty_str(e) for o, e in tree[2]))
    if k == "F":
        return "F%d%s%s" % (tree[1], con_s(tree[2]), pty_str(tree[3]))
    raise ValueError(k)


def leaf_of(tree):
    """the E / B leaf under explicit tags, or None for a base member"""
    while tree[0] == "G":
        tree = tree[2]
    return tree if tree[0] in ("E", "B") else None


# ---------------------------------------------------------------- values

def pev_str(v):
    if isinstance(v, tuple) and v and v[0] == "e":
        return "e%d;" % v[1]
    if isinstance(v, tuple) and v and v[0] == "b":
        return "b%s;" % v[1]
    return "=" + val_str(v)


def pval_str(tree, v):
    if tree[0] == "Q":
        out = []
        for (o, _), x in zip(tree[2], v[1]):
            out.append("_" if x == ABSENT else ("!" if o else "") + pev_str(x))
        return "R{%s}" % "".join(out)
    if tree[0] == "F":
        return "M{%s}" % "".join(pev_str(x) for x in v[1])
    return pev_str(v)


def xer_content(t, v, env):
    k = t["k"]
    if k == "pref":
        return xer_content(env[t["ref"]], v, env)
    if k == "enum":
        return "<%s/>" % v[2]
    if k == "bits":
        return v[1]
    if k == "bool":
        return "<true/>" if v else "<false/>"
    if k == "null":
        return ""
    if k == "int":
        return str(v)
    if k == "oct":
        return bytes(v).hex().upper()
    if k == "pseq":
        return "".join("" if x == ABSENT else "<%s>%s</%s>" % (n, xer_content(mt, x, env), n) for (n, mt, o), x in zip(t["ms"], v[1]))
    if k == "pseqof":
        el = env[t["el"]]
        if el["k"] == "enum":
            return "".join("<%s/>" % x[2] for x in v[1])
        return "".join("<%s>%s</%s>" % (t["el"], xer_content(el, x, env), t["el"]) for x in v[1])
    raise ValueError(k)


def xer_text(name, t, v, env):
    return "<%s>%s</%s>" % (name, xer_content(t, v, env), name)


# ---------------------------------------------------------------- directed types

def names(prefix, n):
    return ["%s%d" % (prefix, i) for i in range(n)]


def enum_type(rootvals, ext=False, addvals=(), plain=False, tag=None):
    return {"k": "enum", "root": list(zip(names("r", len(rootvals)), rootvals)), "ext": ext,
            "adds": list(zip(names("x", len(addvals)), addvals)), "plain": plain, "tag": tag}


def bits_type(con=None, named=None, tag=None):
    return {"k": "bits", "con": con, "named": named, "tag": tag}


NAMED = [("first", 0), ("fourth", 3), ("tenth", 9)]

# root counts at the range_bits boundaries (1 value = 0 bits, 2^k | 2^k + 1)
ROOT_COUNTS_QUICK = [1, 2, 3, 4, 5, 8, 9, 16, 17, 128, 129]
ROOT_COUNTS = [1, 2, 3, 4, 5, 8, 9, 16, 17, 32, 33, 64, 65, 128, 129, 256, 257]
# numbers of additional items around the normally-small boundary 63 | 64 (and 255 | 256: one | two octets)
ADD_COUNTS_QUICK = [0, 1, 2, 64, 65]
ADD_COUNTS = [0, 1, 2, 63, 64, 65, 66, 256, 257]
# enumeration values at the OER short/long form and octet-count boundaries
OER_VALUES = [0, 1, 127, 128, 255, 256, 32767, 32768, 65535, 65536, 8388607, 8388608, 2147483647,
              -1, -2, -64, -127, -128, -129, -32768, -32769, -8388608, -8388609, -2147483648]
SIZE_SHAPES = [None, (0, 0, False), (1, 1, False), (7, 7, False), (8, 8, False), (9, 9, False), (16, 16, False), (17, 17, False),
               (24, 24, False), (0, 7, False), (3, 20, False), (1, 16, False), (0, 65535, False), (0, 65536, False), (5, None, False),
               (0, None, False), (3, 20, True), (12, 12, True), (0, 0, True), (2, None, True), (100, 70000, False), (65535, 65535, False)]
# bit counts: octet boundaries, short | long length determinant (127 | 128), OER length 127 | 128 octets incl. the
# initial octet (1008 | 1016 bits), 255 | 256 octets, 16K fragmentation of UPER (in BITS): 16383 | 16384, 32768, 64K, 64K + 16K
BIT_COUNTS_QUICK = [0, 1, 7, 8, 9, 15, 16, 17, 127, 128, 129, 1008, 1009, 1016, 2032, 2040, 16383, 16384, 16385, 32768, 65535, 65536, 65537, 81920]
BIT_COUNTS = BIT_COUNTS_QUICK + [2, 6, 23, 24, 25, 126, 1007, 1015, 1017, 2033, 2041, 16382, 32767, 32769, 49151, 49152, 49153, 65534, 81919, 81921, 98304, 131072, 147456]

TAGS = [("CONTEXT", 5, "IMPLICIT"), ("APPLICATION", 3, "EXPLICIT"), ("CONTEXT", 31, "EXPLICIT"), ("PRIVATE", 128, "IMPLICIT"), ("CONTEXT", 30, None)]


def new_module(name, default):
    return {"name": name, "default": default, "defs": [], "texts": [], "p": {}, "env": {}}


def add_type(m, tn, t):
    m["defs"].append((tn, None))
    m["texts"].append("  %s ::= %s" % (tn, type_text(t)))
    m["env"][tn] = t
    tree = resolve_pty(t, m["default"], m["env"])
    m["p"][tn] = {"t": t, "tree": tree, "pty": pty_str(tree)}


def finish_module(m):
    m["texts"] += ["  PadO ::= OCTET STRING", "  PadB ::= BIT STRING"]
    m["text"] = "%s DEFINITIONS %s TAGS ::= BEGIN\n%s\nEND\n" % (m["name"], m["default"], "\n".join(m["texts"]))
    return m


def spread_values(rng, n, lo=-1000, hi=1000):
    """n distinct values, non-contiguous, some negative"""
    s = set()
    while len(s) < n:
        s.add(rng.range(lo, hi))
    out = sorted(s)
    # written in a non-sorted order
    k = rng.below(n) if n else 0
    return out[k:] + out[:k]


def gen_modules(rng, tier):
    quick = tier == "quick"
    mods = []
    # ---- PE: enumerations
    m = new_module("PE", "IMPLICIT")
    for n in (ROOT_COUNTS_QUICK if quick else ROOT_COUNTS):
        add_type(m, "Rc%d" % n, enum_type(list(range(n)), plain=True))
    add_type(m, "Rx1", enum_type([0], ext=True, plain=True))                       # one root item, extensible: zero index bits
    for k in (ADD_COUNTS_QUICK if quick else ADD_COUNTS):
        add_type(m, "Ad%d" % k, enum_type([3, 1, 2], ext=True, addvals=[10 + 2 * i for i in range(k)]))
    add_type(m, "Neg", enum_type([5, -3, 100], ext=True, addvals=[200, 300]))
    add_type(m, "Oer", enum_type(OER_VALUES))                                      # OER widths, negative values, non-contiguous
    add_type(m, "Wide", enum_type([-4294967297, 4294967296, 0], ext=True, addvals=[1099511627776]))
    add_type(m, "Below", enum_type([5, 10], ext=True, addvals=[7]))               # additional value between the root values
    add_type(m, "Below2", enum_type([20, 30, 40], ext=True, addvals=[1, 2, 35]))
    for i in range(2 if quick else 5):
        nr = rng.range(1, 12)
        vals = spread_values(rng, nr + rng.range(0, 5))
        root, adds = vals[:nr], sorted(vals[nr:])
        ext = bool(adds) or rng.chance(1, 2)
        if adds and (min(adds) < max(root) or min(adds) < 0):
            # keep the random ones inside the domain where asn1c's table is right (additional values above the root) and
            # non-negative (a negative first additional value is rejected: known finding C11-enum-ext-first-negative)
            adds = [max(max(root), -1) + 1 + j * 3 for j in range(len(adds))]
        add_type(m, "Rnd%d" % i, enum_type(root, ext=ext, addvals=adds))
    for i, tg in enumerate(TAGS):
        add_type(m, "Tg%d" % i, enum_type([7, -2, 300], ext=(i % 2 == 0), addvals=[1000] if i % 2 == 0 else [], tag=tg))
    mods.append(finish_module(m))
    # ---- PW: the same enumerations built with -fwide-types (ENUMERATED_t = INTEGER_t; ENUMERATED.c hands over to NativeEnumerated)
    m = new_module("PW", "IMPLICIT")
    m["opts"] = ("-fcompound-names", "-fwide-types")
    add_type(m, "Oer", enum_type(OER_VALUES))
    add_type(m, "Neg", enum_type([5, -3, 100], ext=True, addvals=[200, 300]))
    add_type(m, "Ad65", enum_type([3, 1, 2], ext=True, addvals=[10 + 2 * i for i in range(65)]))
    add_type(m, "LNeg", {"k": "pseqof", "con": None, "el": "Neg"})
    mods.append(finish_module(m))
    # ---- PB: bit strings
    m = new_module("PB", "EXPLICIT")
    for i, c in enumerate(SIZE_SHAPES):
        add_type(m, "Sz%d" % i, bits_type(c))
    for i, c in enumerate([None, (0, 7, False), (4, None, False), (12, 12, False), (3, 20, True), (10, 70000, False), (2, 8, False)]):
        add_type(m, "Nm%d" % i, bits_type(c, named=NAMED))
    for i, tg in enumerate(TAGS):
        add_type(m, "Tg%d" % i, bits_type([None, (3, 20, False), (12, 12, False), (3, 20, True), None][i], named=NAMED if i == 4 else None, tag=tg))
    mods.append(finish_module(m))
    # ---- PS: SEQUENCE members and SEQUENCE OF, one module per tagging default
    for mi, default in enumerate(["AUTOMATIC", "IMPLICIT", "EXPLICIT"] if not quick else ["AUTOMATIC", "EXPLICIT"]):
        m = new_module("PS%d" % mi, default)
        add_type(m, "En", enum_type([5, -3, 100], ext=True, addvals=[200, 300]))
        add_type(m, "Ep", enum_type([0, 1, 2, 3, 4], plain=True))
        add_type(m, "Bf", bits_type((12, 12, False)))
        add_type(m, "Bv", bits_type((3, 20, False)))
        add_type(m, "Bu", bits_type(None))
        add_type(m, "Bn", bits_type((2, 8, False), named=NAMED))
        for tn in ("En", "Ep", "Bf", "Bv", "Bu", "Bn"):
            add_type(m, "L" + tn, {"k": "pseqof", "con": None, "el": tn})
        add_type(m, "LcEn", {"k": "pseqof", "con": (0, 3, False), "el": "En"})
        add_type(m, "LcBv", {"k": "pseqof", "con": (1, 2, True), "el": "Bv"})
        nseq = 3 if quick else 6
        for si in range(nseq):
            ms = []
            nm = rng.range(2, 6) if si else 9           # S0: nine members, five OPTIONAL + more (two preamble octets never: 9 > 8 only with 9 optional)
            for j in range(nm):
                kind = rng.below(5)
                if kind == 0:
                    t = enum_type(spread_values(rng, rng.range(1, 6)), ext=rng.chance(1, 3))
                    if t["ext"] and rng.chance(1, 2):
                        t["adds"] = [("x0", max(max(v for _, v in t["root"]), 0) + 5)]       # not negative: C11-enum-ext-first-negative
                elif kind == 1:
                    t = bits_type(rng.choice(SIZE_SHAPES[:19]), named=NAMED if rng.chance(1, 4) else None)
                elif kind == 2:
                    t = {"k": "pref", "ref": rng.choice(["En", "Ep", "Bf", "Bv", "Bu", "Bn"])}
                else:
                    t = rng.choice([{"k": "bool"}, {"k": "null"}, {"k": "int", "con": rng.choice([None, (0, 7, False), (-5, 5, False), (0, 255, False), (0, 7, True)])},
                                    {"k": "oct", "con": rng.choice([None, (3, 3, False), (0, 4, False)])}])
                t = dict(t)
                if default != "AUTOMATIC" or si == 1:
                    # distinct manual context tags (AUTOMATIC modules: S1 shows that manual tags switch automatic tagging off)
                    t["tag"] = ("CONTEXT", j, rng.choice([None, "IMPLICIT", "EXPLICIT"]))
                    if t["k"] == "enum":
                        # an inline ENUMERATED member under an EXPLICIT tag gets the tag twice (finding
                        # C02-explicit-tag-enum-member, exercised by the directed type Sdbl only)
                        t["tag"] = ("CONTEXT", j, "IMPLICIT")
                ms.append(("m%d" % j, t, rng.chance(1, 2) if si else (j % 2 == 0 or j == 9)))
            add_type(m, "S%d" % si, {"k": "pseq", "ms": ms})
        if default == "EXPLICIT":
            add_type(m, "Sdbl", {"k": "pseq", "ms": [("a", dict(enum_type([1, 2]), tag=("CONTEXT", 0, None)), False), ("b", {"k": "bool", "tag": ("CONTEXT", 1, None)}, False)]})
            m["p"]["Sdbl"]["dbl_tag"] = True
        # a SEQUENCE with nine OPTIONAL members: two preamble octets in OER
        ms = [("o%d" % j, dict([enum_type([1, 2, 3]), bits_type((0, 7, False)), {"k": "bool"}][j % 3],
                               tag=None if default == "AUTOMATIC" else ("CONTEXT", j, "IMPLICIT" if j % 3 == 0 else None)), True) for j in range(9)]
        add_type(m, "Sopt9", {"k": "pseq", "ms": ms})
        mods.append(finish_module(m))
    return mods


# ---------------------------------------------------------------- values

def bit_patterns(n, rng, quick):
    """bit strings of n bits: zeros, ones, only the first, only the last, trailing zeros after a one, random"""
    if n == 0:
        return [""]
    out = ["0" * n, "1" * n, "1" + "0" * (n - 1), "0" * (n - 1) + "1"]
    if n > 2:
        k = rng.range(1, n - 1)
        out.append("".join(rng.choice("01") for _ in range(k)) + "1" + "0" * (n - k - 1))
    out.append("".join(rng.choice("01") for _ in range(n)))
    if n > 3000 and quick:
        out = [out[1], out[-1]]
    elif quick:
        out = [out[1], out[2], out[-2], out[-1]] if n > 2 else out
    seen, res = set(), []
    for o in out:
        if o not in seen:
            seen.add(o)
            res.append(o)
    return res


BIG = 3000


def bits_lengths(con, rng, tier, big=True):
    """lengths worth trying under a SIZE constraint: its bounds and neighbours (outside the root only when extensible),
    plus the global boundary list filtered by the constraint"""
    quick = tier == "quick"
    lo, hi, ext = con or (0, None, False)
    cand = set(BIT_COUNTS_QUICK if quick else BIT_COUNTS)
    cand |= {lo, lo + 1}
    if hi is not None:
        cand |= {hi, max(lo, hi - 1)}
    if ext:
        cand |= {max(0, lo - 1), 0}
        if hi is not None:
            cand |= {hi + 1, hi + 9}
    ok = []
    for n in sorted(cand):
        inroot = n >= lo and (hi is None or n <= hi)
        if (inroot or ext) and (big or n <= BIG or n in (lo, hi)):
            ok.append(n)
    if quick and len(ok) > 9:
        # keep the constraint's own boundaries and a spread of the rest
        keep = {lo, lo + 1, hi, (hi or 0) - 1, (hi or 0) + 1, max(0, lo - 1)}
        rest = [n for n in ok if n not in keep]
        ok = sorted(set([n for n in ok if n in keep] + rest[::max(1, len(rest) // 6)]))
    return ok


def leaf_values(t, rng, tier, env, few=False, big=False):
    while t["k"] == "pref":
        t = env[t["ref"]]
    k = t["k"]
    if k == "enum":
        items = t["root"] + t["adds"]
        if len(items) > 24 or few:
            pick = [t["root"][0], t["root"][-1]] + ([t["adds"][0], t["adds"][-1]] if t["adds"] else [])
            for j in (62, 63, 64, 65, 255, 256):
                if j < len(t["adds"]):
                    pick.append(t["adds"][j])
            pick += [rng.choice(items) for _ in range(2)]
            if few:
                pick = pick[:1] + [rng.choice(items)]
            items = pick
        return [("e", v, n) for n, v in items]
    if k == "bits":
        out = []
        lens = bits_lengths(t.get("con"), rng, tier, big=big and not few)
        if few:
            lens = [lens[0], rng.choice(lens[:8])]
            lens = [n for n in lens if n <= BIG] or [lens[0]]
        for n in lens:
            pats = bit_patterns(n, rng, tier == "quick")
            if few:
                pats = [rng.choice(pats)]
            out += [("b", p) for p in pats]
        return out
    tree = resolve(t, "IMPLICIT", {})
    return [base_value(tree, rng, 1) for _ in range(1 if few else 2)]


def type_values(m, tn, rng, tier):
    t = m["p"][tn]["t"]
    env = m["env"]
    k = t["k"]
    if k == "pseq":
        out = []
        nvals = 4 if tier == "quick" else 12
        for i in range(nvals):
            xs = []
            for n, mt, o in t["ms"]:
                present = (not o) or (i == 1) or (i > 1 and rng.chance(1, 2))
                if i == 0 and o:
                    present = False
                xs.append(rng.choice(leaf_values(mt, rng, tier, env, few=True)) if present else ABSENT)
            out.append(("R", xs))
        return out
    if k == "pseqof":
        el = {"k": "pref", "ref": t["el"]}
        lo, hi, ext = t.get("con") or (0, None, False)
        counts = sorted(set([lo, lo + 1, 3] + ([hi] if hi is not None else [130]) + ([hi + 1, max(0, lo - 1)] if ext and hi is not None else [])))
        counts = [c for c in counts if ext or (c >= lo and (hi is None or c <= hi))]
        out = []
        for c in counts:
            pool = leaf_values(el, rng, tier, env, few=(c > 3))
            pool = [p for p in pool if p[0] != "b" or len(p[1]) < 200]
            out.append(("M", [rng.choice(pool) for _ in range(c)]))
        return out
    return leaf_values(t, rng, tier, env, big=(m["name"] == "PB" and tn in BIG_TYPES))


# the types of module PB whose values go up to the fragmentation boundaries
BIG_TYPES = ("Sz0", "Sz12", "Sz13", "Sz20", "Sz21", "Nm0", "Nm5")
