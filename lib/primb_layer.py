"""primb_layer — restricted character strings in checks C01 / C02 / C03 (model: coq/Rt/PrimB.v, theorems:
coq/Rt/PrimBProofs.v + PrimBFormat.v, front end: ocaml/drv_primb.ml, generator: lib/primbgen.py).
Hooked by one call each:  primb_layer.run_c01(run, rng, tier)  run_c02  run_c03.
Nothing is drawn from the caller's rng; the layer derives its own stream from run.seed.

Per case (module, type, value), D = the model's DER of the value:
  C02  the C encoders (value built directly: `mkstr`, for plain string types; `xcode T der D syn` otherwise) against the
       model of the C (std = 0: faithfulness) and against the standard (oracle): the std = 1 reading of the model and,
       for string leaves, the spec_* functions of the model AND the wording of X.690 8.23 / X.691 30 / X.696 27
       computed in Python (three independent routes to the expected octets);
  C01  the round-trip battery on the C alone (rt), the C decoders on the model's octets (code, consumed = all, value),
       the model's own decoders, transcoding chains;
  C03  the C decoders on the STANDARD octets (std = 1 / spec), i.e. on valid encodings the C's own encoder may not produce.
Known findings are classified by the narrow predicates below.  Violation kinds are prefixed `primb:`."""
import os, time
from vlib import *
from modbuild import *
from modcorpus import run_mod
import primbgen as G

FID = {
    "sizeext": "%s-uper-string-size-ext-bits",
    "numeric": "%s-uper-numericstring-range",
    "holes": "%s-uper-alphabet-holes-above-255",
    "xernl": "C01-xer-trailing-newline",
}
TIMES = {}
NPAR = 6
BIG = 20000
INC = os.path.join(HARNESS, "moddrv_primb.inc")


def own_rng(run, salt):
    return Rng(run.seed * 1000003 + 7700 + salt)


def model_lines(model, lines, what):
    """run command lines through the extracted model; long batches are cut into NPAR interleaved parts run side by side
    (plain processes fed from files: no threads, no preexec_fn)"""
    import subprocess
    t0 = time.time()
    if not lines:
        return []
    weight = sum(len(l) for l in lines)
    npar = NPAR if (weight > 300000 and len(lines) >= 2 * NPAR) else 1
    d = os.path.join(scratch(), "primbmodel")
    os.makedirs(d, exist_ok=True)
    order = sorted(range(len(lines)), key=lambda i: -len(lines[i]))
    parts = [order[k::npar] for k in range(npar)]
    procs = []
    for k, idx in enumerate(parts):
        fin, fout = os.path.join(d, "in%d" % k), os.path.join(d, "out%d" % k)
        open(fin, "w").write("\n".join(lines[i] for i in idx) + "\n")
        procs.append((idx, fout, subprocess.Popen(["bash", "-c", "ulimit -s unlimited 2>/dev/null; exec '%s' < '%s' > '%s'" % (model, fin, fout)])))
    out = [None] * len(lines)
    for idx, fout, p in procs:
        rc = p.wait(timeout=1500)
        res = open(fout).read().split("\n")
        if res and res[-1] == "":
            res.pop()
        if rc != 0 or len(res) != len(idx):
            raise RuntimeError("model driver failed (%s): rc=%s, %d of %d lines" % (what, rc, len(res), len(idx)))
        for i, o in zip(idx, res):
            out[i] = o
    TIMES["model_" + what] = round(TIMES.get("model_" + what, 0) + time.time() - t0, 1)
    return out


def build(run, rng, tier, tag):
    t0 = time.time()
    mods = G.gen_modules(rng, tier)
    build_modules(mods, tag=tag, moddrv_extra=INC)
    for m in mods:
        if not m.get("exe"):
            run.violation("primb:build:module", {"what": "asn1c rejected a valid module of string types or its output does not compile",
                                                 "module": m["text"], "asn1c_rc": m.get("asn1c_rc"), "asn1c_out": (m.get("asn1c_out") or "")[-1500:],
                                                 "build_log": (m.get("build_log") or "")[-1500:]})
    run.count("primb_modules", len(mods))
    TIMES["build"] = round(time.time() - t0, 1)
    return [m for m in mods if m.get("exe")]


def chars_str(cs):
    return ",".join(str(c) for c in cs) if cs else "-"


def model_encode(model, cases):
    lines = []
    for c in cases:
        s = c["x"]["sty"]
        lines += ["sbder %s %s" % (s, c["vs"]), "sbuper 0 %s %s" % (s, c["vs"]), "sbuper 1 %s %s" % (s, c["vs"]), "sboer %s %s" % (s, c["vs"])]
    out = model_lines(model, lines, "encode")
    for i, c in enumerate(cases):
        c["der"], c["uper"], c["uperstd"], c["oer"] = out[4 * i:4 * i + 4]
    bad = [c for c in cases if c["der"] in ("NONE", "") or c["der"].startswith("EXN")]
    if bad:
        raise RuntimeError("model has no DER for a generated value: %s %s -> %s" % (bad[0]["x"]["sty"], bad[0]["vs"][:100], bad[0]["der"]))
    # the specification functions on the character lists of plain string values
    lines, slots = [], []
    for c in cases:
        c["spec"] = {}
        if c["chars"] is not None and c["x"]["kind"] == "P" and not c["x"]["etags"]:
            l = c["x"]["leaf"]
            ls, cs = G.leaf_str(l), chars_str(c["chars"])
            for key, line in (("uper", "spec_puper %s %s" % (ls, cs)), ("oer", "spec_poer %s %s" % (ls, cs)),
                              ("der", "spec_pder %d %s %s" % (l["tag"], G.KINDS[l["asn"]][0], cs))):
                lines.append(line)
                slots.append((c, key))
    out = model_lines(model, lines, "spec")
    for (c, key), o in zip(slots, out):
        c["spec"][key] = o
    return cases


# ---------------------------------------------------------------- narrow predicates of the known findings

def leaves_of(c):
    """(leaf, octets) for every string leaf value inside the case's value"""
    x, v = c["x"], c["v"]
    if x["kind"] == "P":
        return [(x["leaf"], v)]
    if x["kind"] == "R":
        return [(x["leaf"], e) for e in v[1]]
    out = []
    for mem, mv in zip(x["members"], v[1]):
        if mem["kind"] != "M" or (isinstance(mv, tuple) and mv[0] == "_"):
            continue
        out.append((mem["leaf"], mv[1] if isinstance(mv, tuple) and mv[0] == "!" else mv))
    return out


def p_sizeext(l, b):
    """a known-multiplier string whose size lies outside the root of an extensible SIZE: with a constrained length field the C
    writes 8 * (octets per character) bits per character instead of the bits of the unconstrained type's alphabet; with an upper
    bound MAX / >= 64K it writes the extension bit 0 and the root's alphabet as if the size were inside the root"""
    if not G.known_mult(l) or l["size"] is None or not l["size"][2]:
        return False
    lo, hi, _ = l["size"]
    n = len(b) // G.bpc(l)
    if hi is None or hi >= 65536:
        # no constrained length field: the C does not even notice that the size is outside the root (extension bit 0, root alphabet)
        return not (lo <= n and (hi is None or n <= hi))
    if (lo <= n <= hi) or n == 0:
        return False
    return G.py_bits_per_char([(0, 65535)] if l["asn"] == "BMPString" else G.KINDS[l["asn"]][3]) != 8 * G.bpc(l) or l["asn"] == "NumericString"


def p_numeric(l, b):
    """plain NumericString (no constraint at all): (32..57) in 4 bits without a character map; every digit is truncated"""
    return l["asn"] == "NumericString" and l["size"] is None and l["alpha"] is None and any(ch != 0x20 for ch in b)


def p_holes(l, b):
    """BMPString / UniversalString alphabet of several intervals reaching above 255 (no table, no map: value - lb instead of the index)"""
    a = l["alpha"]
    if a is None or len(a) < 2 or a[-1][1] <= 255 or G.bpc(l) == 1:
        return False
    n = G.bpc(l)
    return any(int.from_bytes(b[i:i + n], "big") > a[0][1] for i in range(0, len(b), n))


def known(c, prop):
    for l, b in leaves_of(c):
        for key, p in (("sizeext", p_sizeext), ("numeric", p_numeric), ("holes", p_holes)):
            if p(l, b):
                return FID[key] % prop
    return None


def replay_of(case, **kw):
    d = {"module": case["m"]["text"], "type": case["tn"], "model_type": case["x"]["sty"], "value": case["vs"][:4000], "category": case["cat"]}
    d.update(kw)
    for k in list(d):
        if isinstance(d[k], str) and len(d[k]) > 6000:
            d[k] = d[k][:3000] + "...(%d chars)..." % len(d[k]) + d[k][-600:]
    return d


def plain(c):
    return c["x"]["kind"] == "P"


def c_encode_lines(c, syns):
    """values of string types are built directly (mkstr); containers arrive as the model's DER through ber_decode"""
    if plain(c):
        return ["mkstr %s %s %s" % (c["tn"], c["v"].hex() or "-", s) for s in syns]
    return ["xcode %s der %s %s" % (c["tn"], c["der"], s) for s in syns]


def by_mod(cases):
    d = {}
    for c in cases:
        d.setdefault(c["m"]["name"], []).append(c)
    return d


# ---------------------------------------------------------------- C02

def spec_part(run, model, rng):
    """spec_bits / spec_code against the X.691 30.5 wording computed in Python, on a sweep of alphabets"""
    alphas = [[(32, 32 + n - 1)] for n in (1, 2, 3, 4, 5, 8, 9, 16, 17, 32, 33, 64, 65, 95)] + [[(0, 2 ** b - 1)] for b in range(1, 9)] + \
             [[(1, 2 ** b)] for b in range(1, 9)] + [[(0, 3), (5, 2 ** b)] for b in range(3, 9)] + [[(65, 66), (88, 90)], [(32, 32), (48, 57)], [(0, 65535)], [(0, 65533)], [(0, 4294967295)]]
    lines, exp = [], []
    for a in alphas:
        s = "(" + ",".join("%d-%d" % r for r in a) + ")"
        lines.append("spec_pbits " + s)
        exp.append(str(G.py_bits_per_char(a)))
        for v in sorted(set([a[0][0], a[-1][1], a[0][1], a[-1][0], a[0][0] - 1, a[-1][1] + 1, a[0][1] + 1])):
            lines.append("spec_pcode %s %d" % (s, v))
            e = G.py_char_code(a, v)
            exp.append("NONE" if e is None else str(e))
    out = model_lines(model, lines, "specfn")
    for l, o, e in zip(lines, out, exp):
        run.case("primb:" + l)
        run.count("primb_" + l.split()[0])
        if o != e:
            run.violation("primb:spec:" + l.split()[0], {"what": "specification function of coq/Rt/PrimB.v differs from the wording of X.691 30.5 computed in Python",
                                                        "command_line": l, "model": o, "expected": e}, no_input=True)


def check_spec(run, c):
    """the three routes to the standard octets of a plain string value agree: spec_* of the model, Python, std = 1 of the model"""
    if not c["spec"]:
        return
    l = c["x"]["leaf"]
    py = {"der": G.py_der_str(l["tag"], l, c["chars"]), "oer": G.py_oer_str(l, c["chars"]), "uper": G.py_uper_str(l, c["chars"])}
    for s in ("der", "oer", "uper"):
        e = "NONE" if py[s] is None else (py[s].hex() or "-")
        if s == "oer" and c["oer"] == "NONE":
            continue                  # fixed size, other length: no encoding (the spec function has no failure value)
        if c["spec"][s] != e:
            run.violation("primb:spec:" + s, replay_of(c, what="spec_* of coq/Rt/PrimB.v differs from the wording of the standard computed in Python",
                                                       syntax=s, spec=c["spec"][s], python=e), no_input=True)
    a = G.eff_alpha(l)
    code_side = a[-1][1] < 256 or a[-1][1] < (1 << G.py_bits_per_char(a))
    lo, hi, ext = l["size"] or (0, None, False)
    n = len(c["chars"])
    size_side = (lo <= n and (hi is None or n <= hi)) or ext or (hi is not None and hi < 65536)
    if code_side and size_side and c["uperstd"] != c["spec"]["uper"]:
        run.violation("primb:model:std-vs-spec", replay_of(c, what="the std = 1 reading of the model differs from spec_uper_km inside the domain of uper_std_is_spec (model defect)",
                                                           std=c["uperstd"], spec=c["spec"]["uper"]), no_input=True)


def std_of(c, s):
    """the standard octets: the spec function where there is one, the std reading of the model otherwise"""
    if c["spec"] and s in c["spec"] and not (s == "oer" and c["oer"] == "NONE"):
        return c["spec"][s]
    return {"der": c["der"], "uper": c["uperstd"], "oer": c["oer"]}[s]


def run_c02(run, rng, tier):
    t0 = time.time()
    rng = own_rng(run, 2)
    try:
        model = model_build()
        spec_part(run, model, rng)
        mods = build(run, rng, tier, "primbc02")
        cases = model_encode(model, G.make_cases(mods, rng, tier))
    except (BuildError, RuntimeError) as e:
        run.violation("primb:build", {"what": str(e)[-2500:]}, no_input=True)
        return
    bym = by_mod(cases)
    for m in mods:
        cs = bym.get(m["name"], [])
        if not cs:
            continue
        lines = []
        for c in cs:
            lines += c_encode_lines(c, ("der", "uper", "oer"))
            if plain(c) and len(c["der"]) < 2 * BIG:
                lines += ["xcode %s der %s uper" % (c["tn"], c["der"])]          # the same value through ber_decode
        out = run_mod(run, m, lines, "primb:C02")
        k = 0
        for c in cs:
            run.count("primb_" + c["cat"].split(":")[0])
            check_spec(run, c)
            for s in ("der", "uper", "oer"):
                o, line = out[k], lines[k]
                k += 1
                run.case("primb:" + m["name"] + ":" + line[:300] + str(len(line)))
                run.count("primb_enc_" + s)
                faithful = {"der": c["der"], "uper": c["uper"], "oer": c["oer"]}[s]
                std = std_of(c, s)
                exp_f = ("OK " + faithful) if faithful != "NONE" else "ENCFAIL"
                exp_s = ("OK " + std) if std != "NONE" else "ENCFAIL"
                got = o if not o.startswith("ENCFAIL") else "ENCFAIL"
                rp = replay_of(c, syntax=s, command_line=line, c=o, model=exp_f, standard=exp_s)
                if got != exp_f:
                    bad = got != exp_s
                    run.violation("primb:correspondence:%s" % s, dict(rp, what="C encoder output differs from the model of the C" + (" and from the standard" if bad else "")),
                                  no_input=not bad)
                    continue
                if got != exp_s and exp_s == "ENCFAIL":
                    run.count("primb_invalid_value_encoded")      # a size outside a non-extensible SIZE (MAX / >= 64K): not a value of the type; leniency is C08's matter
                    continue
                if got != exp_s:
                    fid = known(c, "C02") if s == "uper" else None
                    if fid:
                        run.known_finding(fid, line[:200])
                    else:
                        run.violation("primb:oracle:%s" % s, dict(rp, what="octets differ from the standard encoding"))
            if plain(c) and len(c["der"]) < 2 * BIG:
                o, line = out[k], lines[k]
                k += 1
                exp = ("OK " + c["uper"]) if c["uper"] != "NONE" else "ENCFAIL"
                got = o if not o.startswith("ENCFAIL") else "ENCFAIL"
                if got != exp:
                    run.violation("primb:correspondence:uper-via-ber", replay_of(c, what="the value decoded from DER is encoded differently from the value built directly", command_line=line, c=o, expected=exp),
                                  no_input=True)
        run.sample({"primb_type": cs[0]["x"]["sty"][:120], "value": cs[0]["vs"][:80], "uper": cs[0]["uper"][:60], "oer": cs[0]["oer"][:60]})
    run.count("primb_wall_s", int(time.time() - t0))


# ---------------------------------------------------------------- C01

def classify_rt(run, c, line, out):
    for part in out.split():
        if "=" not in part:
            run.violation("primb:oracle:roundtrip", replay_of(c, what="unexpected driver output", command_line=line, c=out))
            return
        syn, st = part.split("=", 1)
        run.count("primb_rt_%s_%s" % (syn, st.split(":")[0]))
        if st == "OK":
            continue
        f = st.split(":")
        if syn == "xer" and len(f) == 3 and f[0] == "DEC" and f[1] == "OK" and "/" in f[2] and int(f[2].split("/")[0]) + 1 == int(f[2].split("/")[1]):
            run.known_finding(FID["xernl"], line[:200])
            continue
        if syn == "cper" and st.startswith("ENCFAIL") and c["uper"] == "NONE":
            continue          # a value outside a non-extensible SIZE: refused by the model too
        if syn == "coer" and st.startswith("ENCFAIL") and c["oer"] == "NONE":
            continue
        if syn == "cper" and st == "NEQ":
            fid = known(c, "C01")
            if fid and "size-ext" not in fid and "sizeext" not in fid:
                run.known_finding(fid, line[:200])
                continue
        run.violation("primb:oracle:roundtrip(%s)" % syn, replay_of(c, what="encode-then-decode does not return the value: " + st, command_line=line, c=out))


def xer_safe(c):
    """XER is judged only for values whose characters XML can carry literally (the XER layer of C01/C05 owns the escapes)"""
    for l, b in leaves_of(c):
        n = G.bpc(l)
        for i in range(0, len(b), n):
            ch = int.from_bytes(b[i:i + n], "big")
            if ch < 0x20 or ch in (0x7f, 0xfffe, 0xffff) or 0xd800 <= ch <= 0xdfff or ch > 0x10ffff:
                return False
    return True


def run_c01(run, rng, tier):
    t0 = time.time()
    rng = own_rng(run, 1)
    try:
        model = model_build()
        mods = build(run, rng, tier, "primbc01")
        cases = model_encode(model, G.make_cases(mods, rng, tier))
        # the model's own decoders on its octets
        lines, slots = [], []
        for c in cases:
            c["md"] = {}
            if len(c["der"]) > 2 * BIG and not rng.chance(1, 3):
                continue
            s = c["x"]["sty"]
            for key, line in (("ber", "sbberdec %s %s" % (s, c["der"])), ("uper", "sbuperdec 0 %s %s" % (s, c["uper"])), ("oer", "sboerdec %s %s" % (s, c["oer"]))):
                if line.split()[-1] != "NONE":
                    lines.append(line)
                    slots.append((c, key))
        for (c, key), o in zip(slots, model_lines(model, lines, "decode")):
            c["md"][key] = o
    except (BuildError, RuntimeError) as e:
        run.violation("primb:build", {"what": str(e)[-2500:]}, no_input=True)
        return
    bym = by_mod(cases)
    for m in mods:
        cs = bym.get(m["name"], [])
        if not cs:
            continue
        lines, meta = [], []

        def q(kind, c, line, extra=None):
            lines.append(line)
            meta.append((kind, c, extra))

        for c in cs:
            q("rt", c, "rt %s der %s" % (c["tn"], c["der"]))
            for s, key in (("ber", "der"), ("uper", "uper"), ("oer", "oer")):
                if c[key] != "NONE":
                    q("dec", c, "dec %s %s %s" % (c["tn"], s, c[key]), (s, key))
            if c["uper"] != "NONE" and c["oer"] != "NONE" and not known(c, "C01"):
                q("chain", c, "xcode %s uper %s oer" % (c["tn"], c["uper"]), c["oer"])
                q("chain", c, "xcode %s oer %s uper" % (c["tn"], c["oer"]), c["uper"])
        out = run_mod(run, m, lines, "primb:C01")
        for (kind, c, extra), line, o in zip(meta, lines, out):
            run.case("primb:" + m["name"] + ":" + line[:300] + str(len(line)))
            run.count("primb_" + kind)
            if kind == "rt":
                if not xer_safe(c):
                    o = " ".join(p for p in o.split() if not p.startswith(("xer=", "cxer=")))
                classify_rt(run, c, line, o)
            elif kind == "dec":
                s, key = extra
                nb = len(c[key]) // 2
                if not o.startswith("OK %d %s ck=" % (nb, c["der"])):
                    fid = known(c, "C01") if s == "uper" else None
                    if fid and "numericstring" in fid or fid and "holes" in fid:
                        run.known_finding(fid, line[:200])
                        continue
                    run.violation("primb:correspondence:%s_dec" % s,
                                  replay_of(c, what="C decoder on the model's encoding: wrong code, consumed count or value", command_line=line, c=o,
                                            expected_prefix="OK %d %s" % (nb, c["der"]), model=c["md"].get(s)))
                    continue
                mo = c["md"].get(s)
                if mo is not None and mo != "OK %d %s" % (nb, c["vs"]):
                    fid = known(c, "C01") if s == "uper" else None
                    if fid and ("numericstring" in fid or "holes" in fid):
                        continue      # the faithful model reproduces the loss
                    run.violation("primb:model:%s_dec" % s, replay_of(c, what="the model's own decoder does not return the value it encoded (model defect)", model=mo), no_input=True)
            elif kind == "chain":
                if o != "OK " + extra:
                    run.violation("primb:oracle:transcode", replay_of(c, what="transcoding changed the value or failed", command_line=line, c=o, expected="OK " + extra))
        run.sample({"primb_type": cs[0]["x"]["sty"][:120], "value": cs[0]["vs"][:80], "rt": "rt %s der %s" % (cs[0]["tn"], cs[0]["der"][:60])})
    run.count("primb_wall_s", int(time.time() - t0))


# ---------------------------------------------------------------- C03

def run_c03(run, rng, tier):
    """C03 (decoders accept every valid encoding): the STANDARD octets of every value (spec_* / std = 1), which the C's own
    encoder does not produce where it deviates, must be decoded to the value with everything consumed"""
    t0 = time.time()
    rng = own_rng(run, 3)
    try:
        model = model_build()
        mods = build(run, rng, tier, "primbc03")
        cases = G.make_cases(mods, rng, tier)
        if tier == "quick":
            cases = [c for c in cases if not c["cat"].startswith("long") or rng.chance(1, 2)]
        cases = model_encode(model, cases)
    except (BuildError, RuntimeError) as e:
        run.violation("primb:build", {"what": str(e)[-2500:]}, no_input=True)
        return
    bym = by_mod(cases)
    for m in mods:
        cs = bym.get(m["name"], [])
        if not cs:
            continue
        lines, meta = [], []
        for c in cs:
            for s in ("der", "uper", "oer"):
                e = std_of(c, s)
                if e != "NONE":
                    lines.append("dec %s %s %s" % (c["tn"], "ber" if s == "der" else s, e))
                    meta.append((c, s, e))
        out = run_mod(run, m, lines, "primb:C03")
        for (c, s, e), line, o in zip(meta, lines, out):
            run.case("primb:" + m["name"] + ":" + line[:300] + str(len(line)))
            run.count("primb_c03_" + s)
            nb = len(e) // 2
            if o.startswith("OK %d %s ck=" % (nb, c["der"])):
                continue
            fid = known(c, "C03") if s == "uper" else None
            if fid:
                run.known_finding(fid, line[:200])
                continue
            run.violation("primb:oracle:accept(%s)" % s, replay_of(c, what="a valid (standard) encoding is not decoded to its value, or not all octets are consumed",
                                                                   syntax=s, command_line=line, c=o, expected_prefix="OK %d %s" % (nb, c["der"])))
    run.count("primb_wall_s", int(time.time() - t0))
