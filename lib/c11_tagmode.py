"""C11, tagging-mode layer ("tm"): generator, printer, independent X.680 oracle and
reader of the emitted tag tables for the region

    reference chain of length 0..4 (or longer, random)  x  what it ends in (CHOICE, ANY,
    primitive, constructed)  x  which hops carry a tag and in which mode (none / default /
    IMPLICIT / EXPLICIT)  x  where the chain is used (component of SEQUENCE / SET / CHOICE in the
    root or among the additions, SEQUENCE OF / SET OF element, top-level type = one more hop)
    x  how the use is tagged ([n] IMPLICIT, [n] EXPLICIT, [n], nothing = AUTOMATIC or plain)
    x  module default (EXPLICIT, IMPLICIT, AUTOMATIC TAGS).

What is compared (checks/c11.py:run_tagmode):
  * verdict: the set of "tagged in IMPLICIT mode but must be EXPLICIT" diagnostics against
    X.680 31.2.7 c) (IMPLICIT written on an untagged CHOICE / open type), and nothing else printed;
  * for accepted modules, the tags asn1c EMITS: member `tag` and `tag_mode` of every use in
    asn_MBR_*[], and the `tags` / `all_tags` vectors of every definition of a chain
    (asn_DEF_*_tags_*[]), against the tag list X.680 30.6/31.2.7 prescribes, computed here
    (oracle) and by the extracted model coq/Fix/TagMode.v (faithfulness).

AST (extends the one of checks/c11.py):  ('A',) = ANY;  ('Q', ty, tag) / ('P', ty, tag) =
SEQUENCE OF / SET OF with a tagged element.  Definition names are numbers (printed T<n>).
"""
import re

B, I, N, O = ('B',), ('I',), ('N',), ('O',)
ANY = ('A',)

TERMS = ["choice", "any", "int", "seq"]


def term_ty(kind):
    if kind == "choice":
        return ('C', [(1, None, 'm', N), (2, None, 'm', O)], None, [])
    if kind == "any":
        return ANY
    if kind == "int":
        return I
    if kind == "seq":
        return ('S', [(1, None, 'm', N)], None, [])
    raise ValueError(kind)


# ---------------------------------------------------------------- printing
CLS = {'u': "UNIVERSAL ", 'a': "APPLICATION ", 'c': "", 'p': "PRIVATE "}
MODE = {'d': "", 'i': " IMPLICIT", 'e': " EXPLICIT"}


def tag_txt(t):
    return "" if t is None else "[%s%d]%s " % (CLS[t[0]], t[1], MODE[t[2]])


def ty_txt(t):
    k = t[0]
    if k == 'B':
        return "BOOLEAN"
    if k == 'I':
        return "INTEGER"
    if k == 'N':
        return "NULL"
    if k == 'O':
        return "OCTET STRING"
    if k == 'A':
        return "ANY"
    if k in "STC":
        parts = [comp_txt(c) for c in t[1]]
        if t[2] is not None:
            parts.append("...")
            parts += [comp_txt(c) for c in t[2]]
            if t[3]:
                parts.append("...")
        parts += [comp_txt(c) for c in t[3]]
        return {"S": "SEQUENCE", "T": "SET", "C": "CHOICE"}[k] + " { " + ", ".join(parts) + " }"
    if k in "QP":
        return ("SEQUENCE OF " if k == 'Q' else "SET OF ") + tag_txt(t[2] if len(t) > 2 else None) + ty_txt(t[1])
    if k == 'R':
        return "T%d" % t[1]
    raise ValueError(t)


def comp_txt(c):
    s = "c%d %s%s" % (c[0], tag_txt(c[1]), ty_txt(c[3]))
    if c[2] == 'o':
        s += " OPTIONAL"
    return s


TAGGING = {'E': "EXPLICIT TAGS", 'I': "IMPLICIT TAGS", 'A': "AUTOMATIC TAGS"}


def mod_txt(m):
    lines = ["M DEFINITIONS %s ::= BEGIN" % TAGGING[m[0]]]
    for (n, tg, t) in m[1]:
        lines.append("T%d ::= %s%s" % (n, tag_txt(tg), ty_txt(t)))
    lines.append("END")
    return "\n\n".join(lines) + "\n"      # a definition on every other line: a diagnostic's line number (exact for a
                                            # component, one more for an element or a definition) names its holder


# ---------------------------------------------------------------- model line
# c11tm <default> <ndefs> { name tag body }  <nholders> { name kind ncomps { ident tag body } }
#   body := C | A | U<n> | R<name>          (a type with universal tag n stands for every non-CHOICE, non-open type)
#   kind := S | T | C (root components), s | t | c (the components are extension additions), Q | P (element)
UNIV = {'B': 1, 'I': 2, 'O': 4, 'N': 5, 'S': 16, 'Q': 16, 'T': 17, 'P': 17}


def body_tok(t):
    if t[0] == 'C':
        return "C"
    if t[0] == 'A':
        return "A"
    if t[0] == 'R':
        return "R%d" % t[1]
    return "U%d" % UNIV[t[0]]


def tag_tok(t):
    return "-" if t is None else "%s%d%s" % t


def is_holder(d):
    return d[0] >= 1000


def holder_sites(d):
    """[(identifier, tag, type)] of a holder definition: the components that are uses of a chain
    (a component of a fixed primitive type is a filler: it is in the list too — the model and
    the oracle treat it like any other use, chain length 0)"""
    t = d[2]
    if t[0] in "QP":
        return [(0, t[2] if len(t) > 2 else None, t[1])]
    return [(c[0], c[1], c[3]) for c in list(t[1]) + list(t[3]) + list(t[2] or [])]


def holder_kind(d):
    t = d[2]
    if t[0] in "QP":
        return t[0]
    return t[0]


def model_line(m):
    defs = [d for d in m[1] if not is_holder(d)]
    holders = [d for d in m[1] if is_holder(d)]
    out = ["c11tm", m[0], str(len(defs))]
    for (n, tg, t) in defs:
        out += [str(n), tag_tok(tg), body_tok(t)]
    out.append(str(len(holders)))
    for d in holders:
        sites = holder_sites(d)
        nroot = 0 if d[2][0] in "QP" else len(d[2][1]) + len(d[2][3])
        out += [str(d[0]), holder_kind(d), str(nroot), str(len(sites))]
        for (ident, tg, t) in sites:
            out += [str(ident), tag_tok(tg), body_tok(t)]
    return " ".join(out)


# ---------------------------------------------------------------- generation
def chain_tag(c, h, mode):
    """tag of hop h of chain c: class varies, number 10+h (never a number a use carries)"""
    return ("apc"[(c + h) % 3], 10 + h, mode)


def directed_cfgs(L):
    """tag placements for a chain of L definitions (hop 0 = the definition of the terminal type):
    none; one tag at every hop in every mode"""
    out = [("none", [None] * L)]
    for p in range(L):
        for md in "die":
            tags = [None] * L
            tags[p] = md
            out.append(("one@%d%s" % (p, md), tags))
    return out


def pair_cfgs(L):
    out = []
    for p in range(L):
        for q in range(p + 1, L):
            for (a, b) in (("d", "d"), ("i", "e"), ("e", "i"), ("i", "i"), ("d", "i"), ("e", "d")):
                tags = [None] * L
                tags[p], tags[q] = a, b
                out.append(("two@%d%s%d%s" % (p, a, q, b), tags))
    return out


def chain_defs(c, term, modes):
    """definitions T(10c+h) of chain c and the type a use of the chain is written with"""
    L = len(modes)
    if L == 0:
        return [], term_ty(term)
    defs = []
    for h in range(L):
        body = term_ty(term) if h == 0 else ('R', 10 * c + h - 1)
        defs.append((10 * c + h, None if modes[h] is None else chain_tag(c, h, modes[h]), body))
    return defs, ('R', 10 * c + L - 1)


def chain_holders(c, use, adds):
    """the uses of one chain: ten holder definitions T(1000+10c+j).  adds: put the tagged uses of the
    SEQUENCE/SET/CHOICE holders among the extension additions"""
    b = 1000 + 10 * c
    K = [(1, ('c', 1, 'i'), 'm', use), (2, ('c', 2, 'e'), 'm', use), (3, ('c', 3, 'd'), 'm', use)]
    Af = lambda: [(1, None, 'm', B), (2, None, 'm', use), (3, None, 'm', B)]
    hs = []
    for j, k in enumerate("STC"):
        if adds:
            hs.append((b + j, None, (k, [(9, ('c', 9, 'd'), 'm', B)], list(K), [])))
        else:
            hs.append((b + j, None, (k, list(K), None, [])))
    hs.append((b + 3, None, ('S', Af(), None, [])))
    hs.append((b + 4, None, ('T', Af()[:2], None, [])))
    hs.append((b + 5, None, ('C', Af()[:2], None, [])))
    hs.append((b + 6, None, ('Q', use, ('c', 1, 'i'))))
    hs.append((b + 7, None, ('Q', use, ('c', 2, 'e'))))
    hs.append((b + 8, None, ('P', use, ('c', 3, 'd'))))
    hs.append((b + 9, None, ('P', use, ('c', 1, 'i')) if c % 2 else ('Q', use, ('c', 3, 'd'))))
    return hs


def build_module(default, chains):
    """chains: [(term, modes, adds)] -> module with every use of every chain"""
    defs, holders = [], []
    for ci, (term, modes, adds) in enumerate(chains):
        c = ci + 1
        ds, use = chain_defs(c, term, modes)
        defs += ds
        holders += chain_holders(c, use, adds)
    return (default, defs + holders)


# ---------------------------------------------------------------- oracle (X.680), independent of the model
class Oracle:
    """X.680 (2008): 31.2.7 — the tagging construction is EXPLICIT when EXPLICIT is written; or when
    nothing is written and the module default is EXPLICIT TAGS; or when the type under the tag is an
    untagged CHOICE / open type (IMPLICIT written there is illegal, 31.2.7 c).  Otherwise IMPLICIT.
    28.2-28.3 / 25.x automatic tagging: [n] with the mode the same rule gives for "nothing written"
    in an IMPLICIT TAGS environment.  30.6 / X.690 8.14: the tags of a tagged type are its own tag
    followed by all tags of the base type (EXPLICIT) or by all but the first (IMPLICIT)."""

    def __init__(self, m):
        self.default = m[0]
        self.defs = {}
        for d in m[1]:
            self.defs.setdefault(d[0], d)

    def uo(self, t, seen=()):
        """t is an untagged CHOICE / open type, possibly behind untagged references"""
        if t[0] in "CA":
            return True
        if t[0] == 'R':
            d = self.defs.get(t[1])
            if d is None or d[1] is not None or t[1] in seen:
                return False
            return self.uo(d[2], seen + (t[1],))
        return False

    def mode(self, tag, t):
        """effective mode 'i' / 'e', or 'X' = illegal"""
        u = self.uo(t)
        if tag[2] == 'e':
            return 'e'
        if tag[2] == 'i':
            return 'X' if u else 'i'
        if self.default == 'E' or u:
            return 'e'
        return 'i'

    def auto_mode(self, t):
        return 'e' if self.uo(t) else 'i'

    def tags(self, tag, t, mode=None, seen=()):
        """(effective tags, all tags) of `tag t`, outermost first; tags are (class letter, number)"""
        if t[0] in "CA":
            eff, al = [], []
        elif t[0] == 'R':
            d = self.defs.get(t[1])
            if d is None or t[1] in seen:
                eff, al = [], []
            else:
                eff, al = self.tags(d[1], d[2], None, seen + (t[1],))
        else:
            eff = al = [('u', UNIV[t[0]])]
        if tag is None:
            return eff, al
        md = mode or self.mode(tag, t)
        me = (tag[0], tag[1])
        if md == 'i':
            return [me] + eff[1:], [me] + al
        return [me] + eff, [me] + al

    def auto_applies(self, d):
        t = d[2]
        if self.default != 'A' or t[0] not in "STC":
            return False
        return all(c[1] is None for c in list(t[1]) + list(t[3]) + list(t[2] or []))

    def expect(self, m):
        """-> (errors, defs, sites): errors = sorted list of identifiers ("T<n>", "c<k>@T<n>", "elem@T<n>")
        whose IMPLICIT is illegal; defs[name] = (mode, eff, all); sites[(holder, position)] = (mode, member tag)"""
        errors, defs, sites = [], {}, {}
        for d in m[1]:
            if is_holder(d):
                auto = self.auto_applies(d)
                t = d[2]
                if t[0] in "QP":
                    order = holder_sites(d)
                else:
                    order = [(c[0], c[1], c[3]) for c in list(t[1]) + list(t[3]) + list(t[2] or [])]
                for pos, (ident, tg, ty) in enumerate(order):
                    if auto:
                        md = self.auto_mode(ty)
                        eff, _ = self.tags(('c', pos, md), ty, md)
                    elif tg is None:
                        md = '-'
                        eff, _ = self.tags(None, ty)
                    else:
                        md = self.mode(tg, ty)
                        if md == 'X':
                            errors.append(("elem@T%d" % d[0]) if t[0] in "QP" else "c%d@T%d" % (ident, d[0]))
                            continue
                        eff, _ = self.tags(tg, ty, md)
                    sites[(d[0], pos)] = (md, eff[0] if eff else None)
            else:
                if d[1] is not None and self.mode(d[1], d[2]) == 'X':
                    errors.append("T%d" % d[0])
                    continue
                md = '-' if d[1] is None else self.mode(d[1], d[2])
                try:
                    eff, al = self.tags(d[1], d[2])
                except Exception:
                    eff, al = None, None
                defs[d[0]] = (md, eff, al)
        return sorted(errors), defs, sites


def legal_variant(m):
    """the module without what the oracle calls illegal: a chain with an illegal definition goes
    entirely (with its uses), an illegal use is dropped from its holder"""
    orc = Oracle(m)
    errors, _, _ = orc.expect(m)
    bad_defs = {int(e[1:]) for e in errors if e[0] == 'T'}
    bad_chains = {n // 10 for n in bad_defs}
    out = []
    for d in m[1]:
        if is_holder(d):
            c = (d[0] - 1000) // 10
            if c in bad_chains:
                continue
            t = d[2]
            if t[0] in "QP":
                if "elem@T%d" % d[0] in errors:
                    continue
                out.append(d)
            else:
                keep = lambda l: [x for x in l if "c%d@T%d" % (x[0], d[0]) not in errors]
                nt = (t[0], keep(t[1]), None if t[2] is None else keep(t[2]), keep(t[3]))
                if not (nt[1] or nt[3] or nt[2]):
                    continue
                if not nt[1] and not nt[3]:
                    continue
                out.append((d[0], d[1], nt))
        else:
            if d[0] // 10 in bad_chains:
                continue
            out.append(d)
    return (m[0], out)


def nokw_variant(m):
    """the module with the keyword IMPLICIT nowhere: uses written with it are dropped, a definition's
    [t] IMPLICIT becomes [t].  By X.680 31.2.7 such a module cannot be illegal for its tagging — every
    mode is decided by the defaults — so it shows the modes even of an asn1c that (wrongly) refuses
    some IMPLICIT"""
    def unkw(tg):
        return tg if tg is None or tg[2] != 'i' else (tg[0], tg[1], 'd')
    out = []
    for d in m[1]:
        if is_holder(d):
            t = d[2]
            if t[0] in "QP":
                if t[2] is not None and t[2][2] == 'i':
                    continue
                out.append(d)
            else:
                keep = lambda l: [x for x in l if x[1] is None or x[1][2] != 'i']
                nt = (t[0], keep(t[1]), None if t[2] is None else keep(t[2]), keep(t[3]))
                if nt[1] or nt[3]:
                    out.append((d[0], d[1], nt))
        else:
            out.append((d[0], unkw(d[1]), d[2]))
    return (m[0], out)


# ---------------------------------------------------------------- reading the emitted tables
TAGRE = r"\(ASN_TAG_CLASS_(\w+) \| \((\d+) << 2\)\)"
CLSNAME = {"UNIVERSAL": 'u', "APPLICATION": 'a', "CONTEXT": 'c', "PRIVATE": 'p'}
ROWRE = re.compile(r"\{ (?:ATF_\w+ \| )*ATF_\w+, \d+, (?:offsetof\([^)]*\)|0),\s*"
                   r"(" + TAGRE + r"|-1 /\*[^*]*\*/),\s*([-+]?\d),")
ARRRE = re.compile(r"static const ber_tlv_tag_t (\w+)\[\] = \{([^}]*)\};")
MBRRE = re.compile(r"asn_TYPE_member_t asn_MBR_(\w+?)_(\d+)\[\] = \{(.*?)\n\};", re.S)
DEFRE = re.compile(r"asn_TYPE_descriptor_t asn_DEF_(\w+) = \{\s*\"[^\"]*\",\s*\"[^\"]*\",\s*&asn_OP_\w+,\s*(.*?)\{ ", re.S)


def parse_tags(txt):
    return [(CLSNAME[a], int(b)) for a, b in re.findall(TAGRE, txt)]


def read_tables(files):
    """files: {name: text of <name>.c} -> (members, defs)
       members[name] = [(mode '-'|'i'|'e', tag (cls, num)|None)] rows of the first member table of <name>.c
       defs[name] = (effective tags, all tags)"""
    members, defs = {}, {}
    for name, text in files.items():
        arrays = {a: parse_tags(b) for a, b in ARRRE.findall(text)}
        for mn, idx, body in MBRRE.findall(text):
            if mn != name or idx != "1":
                continue
            rows = []
            for mt in ROWRE.finditer(body):
                tag = None if mt.group(1).startswith("-1") else (CLSNAME[mt.group(2)], int(mt.group(3)))
                rows.append(({"-1": 'i', "+1": 'e', "0": '-'}[mt.group(4)], tag))
            members[name] = rows
        for dn, rest in DEFRE.findall(text):
            if dn != name:
                continue
            if re.match(r"0,\s*/\* No effective tags \(pointer\) \*/", rest):
                defs[name] = ([], [])
                continue
            mt = re.match(r"(\w+),\s*sizeof\(\w+\)\s*/sizeof\(\w+\[0\]\)(?: - \d+)?, /\* (\d+) \*/\s*"
                          r"(\w+),(?:\s*/\* Same as above \*/)?\s*sizeof\(\w+\)\s*/sizeof\(\w+\[0\]\)(?: - \d+)?, /\* (\d+) \*/", rest)
            if not mt:
                defs[name] = None
                continue
            a1, n1, a2, n2 = mt.group(1), int(mt.group(2)), mt.group(3), int(mt.group(4))
            if a1 not in arrays or a2 not in arrays:
                defs[name] = None
                continue
            defs[name] = (arrays[a1][:n1], arrays[a2][:n2])
    return members, defs


def fmt_tag(t):
    return "none" if t is None else "%s%d" % t


def fmt_tags(l):
    return "-" if not l else ".".join("%s%d" % t for t in l)


# ---------------------------------------------------------------- the layer
import os, shutil, subprocess
from concurrent.futures import ThreadPoolExecutor


def plain_clash(term, modes, default):
    """an untagged open type directly in a SET / CHOICE is "ambiguous with everything" for asn1c
    (and cannot be told apart from its neighbours by any decoder): those two holders are left out"""
    return term == "any" and default != 'A' and all(x is None for x in modes)


def build_module2(default, chains):
    m = build_module(default, chains)
    drop = set()
    for ci, (term, modes, adds) in enumerate(chains):
        if plain_clash(term, modes, default):
            drop |= {1000 + 10 * (ci + 1) + 4, 1000 + 10 * (ci + 1) + 5}
    return (m[0], [d for d in m[1] if d[0] not in drop])


def random_chain(rng):
    L = rng.choice([0, 1, 1, 2, 2, 3, 3, 4, 4, 5, 6])
    p = rng.choice([1, 2, 3])
    modes = [rng.choice("die") if rng.below(4) < p - 1 or (p == 1 and rng.chance(1, 4)) else None for _ in range(L)]
    return (rng.choice(TERMS), modes, rng.chance(1, 2))


def gen_cases(rng, tier):
    """[(label, module)]; directed first: every chain length 0..4 x terminal x one tag at every hop in
    every mode (and none) x every default; then two tags at every pair of hops; then random chains"""
    cases = []
    for term in TERMS:
        for L in range(0, 5):
            cfgs = directed_cfgs(L)
            for default in "EIA":
                chains = [(term, modes, (i % 2) == 1) for i, (lab, modes) in enumerate(cfgs)]
                cases.append(("tm:one:%s:L%d:%s" % (term, L, default), build_module2(default, chains)))
    for term in TERMS:
        for L in range(2, 5):
            cfgs = pair_cfgs(L)
            if tier == "quick":
                cfgs = rng.shuffle(list(cfgs))[:12]
            for default in "EIA":
                chains = [(term, modes, (i % 2) == 0) for i, (lab, modes) in enumerate(cfgs)]
                for k in range(0, len(chains), 40):
                    cases.append(("tm:two:%s:L%d:%s" % (term, L, default), build_module2(default, chains[k:k + 40])))
    for k in range(12 if tier == "quick" else 150):
        default = "EIA"[k % 3]
        chains = [random_chain(rng) for _ in range(rng.range(4, 14))]
        cases.append(("tm:random:%s" % default, build_module2(default, chains)))
    return cases


def run_asn1c_tables(args):
    idx, text, asn1c, skel, root = args
    d = os.path.join(root, "t%05d" % idx)
    os.makedirs(d)
    open(os.path.join(d, "m.asn1"), "w").write(text)
    try:
        p = subprocess.run([asn1c, "-S", skel, "-fcompound-names", "-R", "m.asn1"], cwd=d, stdout=subprocess.PIPE,
                           stderr=subprocess.PIPE, text=True, errors="replace", timeout=120)
        rc, err = p.returncode, p.stderr
    except subprocess.TimeoutExpired:
        rc, err = -999, "TIMEOUT"
    files = {}
    for f in os.listdir(d):
        if f.endswith(".c"):
            files[f[:-2]] = open(os.path.join(d, f), errors="replace").read()
    nfiles = len([f for f in os.listdir(d) if f.endswith(".c") or f.endswith(".h")])
    shutil.rmtree(d, ignore_errors=True)
    idents, other = [], []
    for line in err.split("\n"):
        if not line.strip() or re.match(r"(Compiled|Copied|Generated|Symlinked) ", line):
            continue
        mt = re.match(r"FATAL: (\S+) tagged in IMPLICIT mode but must be EXPLICIT at line (\d+)", line)
        if mt:
            idents.append((mt.group(1), int(mt.group(2))))
        else:
            other.append(line[:200])
    members, defs, nested = read_tables2(files) if rc == 0 else ({}, {}, {})
    return {"rc": rc, "verdict": "CRASH" if rc < 0 else ("ACCEPT" if rc == 0 else "REJECT"), "idents": idents, "other": other,
            "nfiles": nfiles, "members": members, "defs": defs, "nested": nested}


NDEFRE = re.compile(r"asn_TYPE_descriptor_t asn_DEF_(\w+) = \{\s*\"[^\"]*\",\s*\"[^\"]*\",\s*&asn_OP_\w+,\s*(.*?)\{ ", re.S)


def desc_tags(rest, arrays):
    if re.match(r"0,\s*/\* No effective tags \(pointer\) \*/", rest):
        return ([], [])
    mt = re.match(r"(\w+),\s*sizeof\(\w+\)\s*/sizeof\(\w+\[0\]\)(?: - \d+)?, /\* (\d+) \*/\s*"
                  r"(\w+),(?:\s*/\* Same as above \*/)?\s*sizeof\(\w+\)\s*/sizeof\(\w+\[0\]\)(?: - \d+)?, /\* (\d+) \*/", rest)
    if not mt or mt.group(1) not in arrays or mt.group(3) not in arrays:
        return None
    return (arrays[mt.group(1)][:int(mt.group(2))], arrays[mt.group(3)][:int(mt.group(4))])


def read_tables2(files):
    """-> members[name] = rows of asn_MBR_<name>_1 with the row's ANY/CHOICE remark: (mode, tag | 'any' | None);
          defs[name] = (effective, all) of asn_DEF_<name>;  nested[name][ident] = the same of asn_DEF_<ident>_<k>"""
    members, defs, nested = {}, {}, {}
    for name, text in files.items():
        arrays = {a: parse_tags(b) for a, b in ARRRE.findall(text)}
        for mn, idx, body in MBRRE.findall(text):
            if mn != name or idx != "1":
                continue
            rows = []
            for mt in ROWRE.finditer(body):
                if mt.group(1).startswith("-1"):
                    tag = 'any' if "ANY" in mt.group(1) else None
                else:
                    tag = (CLSNAME[mt.group(2)], int(mt.group(3)))
                rows.append(({"-1": 'i', "+1": 'e', "0": '-'}[mt.group(4)], tag))
            members[name] = rows
        for dn, rest in NDEFRE.findall(text):
            t = desc_tags(rest, arrays)
            if dn == name:
                defs[name] = t
            else:
                nested.setdefault(name, {})[re.sub(r"_\d+$", "", dn)] = t
    return members, defs, nested


def chain_terminal(orc, t, seen=()):
    if t[0] == 'R':
        d = orc.defs.get(t[1])
        if d is None or t[1] in seen:
            return None
        return chain_terminal(orc, d[2], seen + (t[1],))
    return t


def inline_constructed(t):
    return t[0] in "STQP"


def observed_lines(m, r):
    """the emitted tables in the model's output form: (defs string, sites string, problems)"""
    dparts, sparts, problems = [], [], []
    for d in m[1]:
        name = "T%d" % d[0]
        if not is_holder(d):
            got = r["defs"].get(name)
            if got is None:
                problems.append("no tag vectors read for " + name)
                dparts.append(name + ":?")
                continue
            eff, al = got
            md = '?'     # the mode of a definition's own tag shows only through the two vectors
            dparts.append("%s:%s:%s:%s" % (name, md, fmt_tags(eff), fmt_tags(al)))
        else:
            rows = r["members"].get(name)
            sites = holder_sites(d)
            t = d[2]
            if t[0] in "STC":
                sites = [(c[0], c[1], c[3]) for c in list(t[1]) + list(t[3]) + list(t[2] or [])]
            if rows is None or len(rows) != len(sites):
                problems.append("member table of %s: %s rows read, %d expected" % (name, None if rows is None else len(rows), len(sites)))
                continue
            for pos, ((ident, tg, ty), (md, tag)) in enumerate(zip(sites, rows)):
                if inline_constructed(ty) and md == '-':
                    # the tag of an inline constructed member is in the nested type's own vectors
                    nd = r["nested"].get(name, {}).get("Member" if t[0] in "QP" else "c%d" % ident)
                    if nd and nd[1] and len(nd[1]) >= 2:
                        eff, al = nd
                        md = 'e' if eff == al else ('i' if eff == al[:1] + al[2:] else '!')
                    elif nd and len(nd[1]) == 1:
                        md = '-'
                sparts.append("%s.%d:%s:%s" % (name, pos, md, "none" if tag is None else (tag if tag == 'any' else "%s%d" % tag)))
    return dparts, sparts, problems


def run_layer(run, rng, tier, model, asn1c, skel, scratch_dir, ncpu, run_lines):
    """generate, run asn1c and the model, compare.  Returns number of modules."""
    def viol(kind, rep, no_input=False):
        run.count("tm:violation:" + kind)
        run.violation(kind, rep, no_input=no_input)

    cases = gen_cases(rng, tier)
    work = []
    for lab, m in cases:
        orc = Oracle(m)
        errors, _, _ = orc.expect(m)
        work.append((lab, m))
        if errors:
            work.append((lab + ":legal", legal_variant(m)))
        work.append((lab + ":nokw", nokw_variant(m)))
    lines = [model_line(m) for _, m in work]
    rc, mo, me = run_lines(model, lines)
    if rc != 0 or len(mo) != len(lines) or any(o.startswith("EXN") or o == "BADCMD" for o in mo):
        raise RuntimeError("model driver failed on the tagging-mode layer: rc=%s %d/%d %s" % (rc, len(mo), len(lines), me[-300:]))
    root = os.path.join(scratch_dir, "c11tm")
    os.makedirs(root, exist_ok=True)
    texts = [mod_txt(m) for _, m in work]
    with ThreadPoolExecutor(max_workers=ncpu) as ex:
        results = list(ex.map(run_asn1c_tables, [(i, texts[i], asn1c, skel, root) for i in range(len(work))]))

    for (lab, m), ln, o, r, text in zip(work, lines, mo, results, texts):
        run.case(ln)
        run.count("kind:" + ":".join(lab.split(":")[:2]) + (":legal" if lab.endswith(":legal") else (":nokw" if lab.endswith(":nokw") else "")))
        run.count("tm:tagging:" + m[0])
        run.count("tm:asn1c:" + r["verdict"])
        if (r["idents"] or any(x.startswith("FATAL:") for x in r["other"])) and (r["rc"] == 0 or r["nfiles"] > 0):    # general clause (wave 5)
            run.count("oracle_deviation")
            run.violation("oracle:fatal-diagnostic-implies-failure", {"label": lab, "module_asn1": text, "input": text,
                                                                      "what": "FATAL line(s) printed, exit %d, %d files" % (r["rc"], r["nfiles"]),
                                                                      "asn1c": {k: r[k] for k in ("rc", "verdict", "idents", "other", "nfiles")}})
        f = dict(kv.split("=", 1) for kv in o.split())
        orc = Oracle(m)
        errors, xdefs, xsites = orc.expect(m)
        rep = {"label": lab, "module_asn1": text, "model_line": ln, "model": o[:4000],
               "asn1c": {k: r[k] for k in ("rc", "verdict", "idents", "other", "nfiles")},
               "replay_cmd": "write module_asn1 to m.asn1 in an empty directory; asn1c -S <skeletons> -fcompound-names -R m.asn1; echo $?; "
                             "look at asn_MBR_*[] (tag, tag_mode) and asn_DEF_*_tags_*[] in the .c files"}
        nsites = sum(len(holder_sites(d)) for d in m[1] if is_holder(d))
        run.count("tm:uses", nsites)
        run.count("tm:definitions", len([d for d in m[1] if not is_holder(d)]))
        # ---- the verdict, whatever it is
        if r["verdict"] == "CRASH":
            viol("oracle:tagging-mode-verdict", dict(rep, what="asn1c died (rc %d)" % r["rc"], input=text))
            continue
        if r["verdict"] == "REJECT" and r["nfiles"] != 0:
            viol("oracle:reject-writes-no-code-and-diagnoses", dict(rep, what="non-zero exit but files were written", input=text))
        # which uses / definitions are diagnosed: components by identifier and holder line, definitions by name,
        # elements ("(null)") by number
        line_of = {d[0]: 2 * i + 3 for i, d in enumerate(m[1])}
        got = []
        remaining = {e for e in errors if e.startswith("elem@")}
        used = set()
        for ident, lno in r["idents"]:
            if ident.startswith("T"):
                got.append(ident)
            elif ident == "(null)":
                # an element has no identifier, and its line number is taken before or after the parser's
                # lookahead (the same line, or the next definition's): of the one or two SEQUENCE OF / SET OF
                # holders this can mean, the one the oracle expects a complaint about, if any
                cands = ["elem@T%d" % d[0] for d in m[1] if is_holder(d) and d[2][0] in "QP" and line_of[d[0]] in (lno - 2, lno)]
                cands = [c for c in cands if c not in used]
                pick = ([c for c in cands if c in remaining] or cands or ["elem@line%d" % lno])[0]
                remaining.discard(pick)
                used.add(pick)
                got.append(pick)
            else:
                hs = [d[0] for d in m[1] if is_holder(d) and d[2][0] in "STC" and line_of[d[0]] == lno]
                got.append("%s@T%d" % (ident, hs[0]) if len(hs) == 1 else "%s@line%d" % (ident, lno))
        got = sorted(got)
        cverdict = "ACCEPT" if r["verdict"] == "ACCEPT" else "REJECT:" + ",".join(got)
        xverdict = "ACCEPT" if not errors else "REJECT:" + ",".join(errors)
        bad = False
        if cverdict != xverdict or r["other"]:
            bad = True
            missing = sorted(set(errors) - set(got))
            extra = sorted(set(got) - set(errors))
            what = ("asn1c rejects a tagging X.680 31.2.7 allows: %s" % extra[:6] if extra else
                    "asn1c accepts IMPLICIT on an untagged CHOICE / open type: %s" % missing[:6] if missing else
                    "diagnostics outside the catalogue: %s" % r["other"][:3])
            viol("oracle:tagging-mode-verdict", dict(rep, what=what, expected=xverdict[:600], got=cverdict[:600], input=text))
        if f["verdict"] != cverdict:
            run.count("model_vs_code_diff")
            viol("correspondence:Fix.TagMode.tm_errors", dict(rep, what="extracted model and asn1c disagree on the verdict",
                                                                     model_verdict=f["verdict"][:600], got=cverdict[:600]), no_input=not bad)
        if r["verdict"] != "ACCEPT":
            continue
        # ---- accepted: the emitted tags
        dparts, sparts, problems = observed_lines(m, r)
        if problems:
            viol("harness:tables", dict(rep, what="emitted tables not understood: " + "; ".join(problems[:4])), no_input=True)
            continue
        # oracle: X.680 tag lists vs the emitted ones
        obad, known = [], 0
        for d in m[1]:
            if is_holder(d) or d[0] not in xdefs:
                continue
            md, eff, al = xdefs[d[0]]
            geff, gal = r["defs"]["T%d" % d[0]]
            if (geff, gal) != (eff, al):
                term = chain_terminal(orc, d[2])
                if term is not None and term[0] == 'A' and al and (geff, gal) == ([], []):
                    known += 1      # C11-tagged-open-type-tags-dropped
                else:
                    obad.append("T%d: tags %s / all %s, X.680: %s / %s" % (d[0], fmt_tags(geff), fmt_tags(gal), fmt_tags(eff), fmt_tags(al)))
        smap = {}
        for s in sparts:
            k, md, tg = s.split(":")
            smap[k] = (md, tg)
        for (h, pos), (md, tg) in sorted(xsites.items()):
            g = smap.get("T%d.%d" % (h, pos))
            xtg = "none" if tg is None else "%s%d" % tg
            if g is None:
                obad.append("T%d member %d: not emitted" % (h, pos))
                continue
            gtg = "none" if g[1] == "any" else g[1]
            if (g[0], gtg) != (md, xtg):
                obad.append("T%d member %d: mode %s tag %s, X.680: mode %s tag %s" % (h, pos, g[0], g[1], md, xtg))
        if known:
            fid = "C11-tagged-open-type-tags-dropped"
            if any(fd["id"] == fid for fd in run.findings):
                run.known_finding(fid, lab)
                run.count("known:" + fid, known)
            else:
                obad.append("%d definition(s) of a tagged open type emitted without tags" % known)
        if obad:
            run.count("oracle_deviation")
            viol("oracle:effective-tags", dict(rep, what="emitted tagging differs from X.680 31.2.7 / 30.6: " + "; ".join(obad[:6]),
                                                        ndiffs=len(obad), input=text))
        # faithfulness: the model's report vs the emitted tables, item by item
        mdefs = [] if f["defs"] == "-" else f["defs"].split(",")
        msites = [] if f["sites"] == "-" else f["sites"].split(",")
        diffs = []
        for a, b in zip(mdefs, dparts):
            if a.split(":")[0] != b.split(":")[0] or a.split(":")[2:] != b.split(":")[2:]:
                diffs.append("model %s / emitted %s" % (a, b))
        for a, b in zip(msites, sparts):
            if a != b:
                diffs.append("model %s / emitted %s" % (a, b))
        if len(mdefs) != len(dparts) or len(msites) != len(sparts):
            diffs.append("model reports %d definitions, %d uses; emitted %d, %d" % (len(mdefs), len(msites), len(dparts), len(sparts)))
        if diffs:
            run.count("model_vs_code_diff")
            viol("correspondence:Fix.TagMode.def_report", dict(rep, what="extracted model and the emitted tag tables disagree: " + "; ".join(diffs[:6]),
                                                                      ndiffs=len(diffs)), no_input=not obad)
        run.count("tm:onehop-differs", int(f.get("onehopdiff", "0")))
    return len(work)
