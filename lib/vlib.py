"""vlib — shared machinery of /verif checks: scratch trees built from /repo's
working tree, the Coq build and per-property obligations, running the extracted
model and the C drivers on the same cases, known findings, evidence files."""
import atexit, hashlib, json, os, re, shutil, subprocess, sys, tempfile, time

VERIF = os.path.dirname(os.path.dirname(os.path.abspath(__file__)))
REPO = os.environ.get("VERIF_REPO", "/repo")
COQ = os.path.join(VERIF, "coq")
OCAML = os.path.join(VERIF, "ocaml")
HARNESS = os.path.join(VERIF, "harness")
GUARD = "VLM_ASN1C_VERIF"
NCPU = os.cpu_count() or 4

ALLOWED_AXIOMS = {
    # standard-library axioms that may appear under Print Assumptions; each is
    # named in DESIGN.md section 6 if it ever shows up.
    "functional_extensionality_dep", "proof_irrelevance", "classic",
    "JMeq_eq", "eq_rect_eq",
}

T0 = time.time()


def log(*a):
    print(*a, file=sys.stderr, flush=True)


def sh(cmd, cwd=None, timeout=None, env=None, check=False, input=None):
    """run a command, return (rc, stdout+stderr)"""
    p = subprocess.run(cmd, cwd=cwd, shell=isinstance(cmd, str), stdout=subprocess.PIPE,
                       stderr=subprocess.STDOUT, timeout=timeout, env=env, input=input,
                       text=True, errors="replace")
    if check and p.returncode != 0:
        raise RuntimeError("command failed (%d): %s\n%s" % (p.returncode, cmd, p.stdout[-4000:]))
    return p.returncode, p.stdout


# --------------------------------------------------------------------------
# scratch directory (outside /repo and /verif), removed at exit
_scratch = None


def scratch():
    global _scratch
    if _scratch is None:
        base = os.environ.get("VERIF_SCRATCH", "/var/tmp")
        os.makedirs(base, exist_ok=True)
        _scratch = tempfile.mkdtemp(prefix="a1v.", dir=base)
        if not os.environ.get("VERIF_KEEP"):
            atexit.register(lambda: shutil.rmtree(_scratch, ignore_errors=True))
    return _scratch


# --------------------------------------------------------------------------
# Coq side


def coq_build(timeout=1500):
    """full .vo build (no -vos); normally a no-op after setup."""
    rc, out = sh("make -C %s -j%d all" % (VERIF, NCPU), timeout=timeout)
    return rc == 0, out


def grep_gate():
    """no Admitted/admit/Axiom/... anywhere in the development"""
    bad = []
    pat = re.compile(r"\b(Admitted|admit|Axiom|Axioms|Parameter|Parameters|Conjecture|Hypothesis|Variable|Variables|Hypotheses)\b|Unset Guard|bypass_check|type-in-type|Admit Obligations|impredicative-set|native_compute")
    for root, _, files in os.walk(COQ):
        for f in files:
            if not f.endswith(".v"):
                continue
            path = os.path.join(root, f)
            depth = 0  # Section nesting: Variable/Hypothesis are fine inside a Section
            src = open(path).read()
            src = re.sub(r"\(\*.*?\*\)", "", src, flags=re.S)
            for ln, line in enumerate(src.split("\n"), 1):
                s = line.strip()
                if re.match(r"Section\b", s):
                    depth += 1
                elif re.match(r"End\b", s) and depth > 0:
                    depth -= 1
                m = pat.search(line)
                if m:
                    w = m.group(0)
                    if w in ("Variable", "Variables", "Hypothesis", "Hypotheses") and depth > 0:
                        continue
                    bad.append("%s:%d: %s" % (os.path.relpath(path, VERIF), ln, s))
    return bad


def obligations(prop):
    """Compile Props/Properties_<prop>.v afresh, return
    (n_theorems, n_discharged, axioms:set, names:list, log)."""
    src = os.path.join(COQ, "Props", "Properties_%s.v" % prop)
    text = open(src).read()
    names = re.findall(r"^(?:Theorem|Corollary)\s+(\w+)", text, flags=re.M)
    tmpd = os.path.join(scratch(), "props_" + prop)
    os.makedirs(tmpd, exist_ok=True)
    dst = os.path.join(tmpd, "Properties_%s.v" % prop)
    shutil.copy(src, dst)
    rc, out = sh(["coqc", "-Q", COQ, "A1", dst], timeout=900)
    if rc != 0:
        return len(names), 0, set(), names, out
    blocks = re.split(r"\n(?=Closed under the global context|Axioms:)", "\n" + out)
    closed = out.count("Closed under the global context")
    axioms = set()
    withax = 0
    for b in blocks:
        if b.startswith("Axioms:"):
            withax += 1
            for m in re.finditer(r"^(\S+)\s*:", b[len("Axioms:"):], flags=re.M):
                axioms.add(m.group(1).split(".")[-1])
    foreign = {a for a in axioms if a not in ALLOWED_AXIOMS}
    discharged = closed + (withax if not foreign else 0)
    return len(names), min(discharged, len(names)), axioms, names, out


# --------------------------------------------------------------------------
# model driver (extracted OCaml); built by `make setup`, rebuilt if stale


def model_build():
    rc, out = sh("make -C %s -j%d model" % (VERIF, NCPU), timeout=900)
    if rc != 0:
        raise RuntimeError("model build failed:\n" + out[-3000:])
    return os.path.join(OCAML, "modeldrv")


def run_lines(binary, lines, timeout=600, env=None, cwd=None):
    """feed lines to a line-protocol driver; returns (rc, list of output lines, stderr-ish tail)"""
    data = "\n".join(lines) + "\n"
    pre = None
    if isinstance(binary, str) and os.path.basename(binary) == "modeldrv":
        # extracted list functions are not tail recursive: long values need a deep native stack
        def pre():
            import resource
            try:
                resource.setrlimit(resource.RLIMIT_STACK, (resource.RLIM_INFINITY, resource.RLIM_INFINITY))
            except (ValueError, OSError):
                pass
    p = subprocess.run([binary] if isinstance(binary, str) else binary, input=data, stdout=subprocess.PIPE,
                       stderr=subprocess.PIPE, text=True, errors="replace", timeout=timeout, env=env, cwd=cwd, preexec_fn=pre)
    out = p.stdout.split("\n")
    if out and out[-1] == "":
        out.pop()
    return p.returncode, out, p.stderr[-4000:]


# --------------------------------------------------------------------------
# C side: skeleton library and drivers compiled from /repo's working tree

# nonnull-attribute is off: memcpy(dst, NULL, 0) on empty strings (asn_application.c:108) is reported otherwise;
# it is undefined by the letter of the standard and harmless on every libc this builds against (noted in DESIGN.md)
SAN = ["-g", "-O1", "-fsanitize=address,undefined", "-fno-sanitize=nonnull-attribute", "-fno-sanitize-recover=all", "-fno-omit-frame-pointer"]
SKEL_EXCLUDE = {"converter-example.c"}


def build_skeleton_lib(san=True, extra_cflags=()):
    """compile every skeletons/*.c of the working tree into a static archive"""
    scr = scratch()
    tag = "san" if san else "plain"
    out = os.path.join(scr, "skel_" + tag)
    lib = os.path.join(out, "libskel.a")
    if os.path.exists(lib):
        return lib, out
    os.makedirs(out, exist_ok=True)
    sk = os.path.join(REPO, "skeletons")
    srcs = sorted(f for f in os.listdir(sk) if f.endswith(".c") and f not in SKEL_EXCLUDE)
    flags = ["-std=gnu99", "-w", "-D" + GUARD, "-DASN_PDU_COLLECTION", "-I" + sk] + (SAN if san else ["-O1", "-g"]) + list(extra_cflags)
    mk = ["CC=gcc", "CFLAGS=" + " ".join(flags), "OBJS=" + " ".join(s[:-2] + ".o" for s in srcs),
          "all: libskel.a", "libskel.a: $(OBJS)", "\tar rcs $@ $(OBJS)",
          "%%.o: %s/%%.c" % sk, "\t$(CC) $(CFLAGS) -c $< -o $@"]
    open(os.path.join(out, "Makefile"), "w").write("\n".join(mk) + "\n")
    rc, o = sh("make -j%d" % NCPU, cwd=out, timeout=900)
    if rc != 0:
        raise BuildError("skeleton build failed:\n" + o[-3000:])
    return lib, out


class BuildError(Exception):
    pass


def build_leafdrv(san=True):
    lib, out = build_skeleton_lib(san)
    exe = os.path.join(out, "leafdrv")
    if os.path.exists(exe):
        return exe
    sk = os.path.join(REPO, "skeletons")
    incs = sorted(f for f in os.listdir(HARNESS) if re.match(r"leafdrv_\w+\.inc$", f) and f != "leafdrv_more.inc")
    more = "".join('#include "%s"\n' % f for f in incs)
    more += "#define MORE_CMDS " + " ".join("CMDS_" + f[len("leafdrv_"):-4].upper() for f in incs) + "\n"
    open(os.path.join(out, "leafdrv_more.inc"), "w").write(more)
    cmd = ["gcc", "-std=gnu99", "-w", "-D" + GUARD, "-I" + sk, "-I" + out, "-I" + HARNESS] + (SAN if san else ["-O1", "-g"]) + \
          [os.path.join(HARNESS, "leafdrv.c"), lib, "-lm", "-o", exe]
    rc, o = sh(cmd, timeout=300)
    if rc != 0:
        raise BuildError("leafdrv build failed:\n" + o[-3000:])
    return exe


SAN_ENV = dict(os.environ, ASAN_OPTIONS="detect_leaks=1:abort_on_error=0:exitcode=77",
               UBSAN_OPTIONS="print_stacktrace=1:halt_on_error=1:exitcode=78")


# --------------------------------------------------------------------------
# deterministic PRNG (splitmix64), one state per check run


class Rng:
    def __init__(self, seed):
        # the seed goes through the splitmix64 finaliser first: with a linear map of the seed
        # Rng(n+1) would be Rng(n)'s stream shifted by one draw
        z = (seed + 0x1234567) & (2**64 - 1)
        for _ in range(2):
            z = (z + 0x9E3779B97F4A7C15) & (2**64 - 1)
            z = ((z ^ (z >> 30)) * 0xBF58476D1CE4E5B9) & (2**64 - 1)
            z = ((z ^ (z >> 27)) * 0x94D049BB133111EB) & (2**64 - 1)
            z = z ^ (z >> 31)
        self.s = z

    def next(self):
        self.s = (self.s + 0x9E3779B97F4A7C15) & (2**64 - 1)
        z = self.s
        z = ((z ^ (z >> 30)) * 0xBF58476D1CE4E5B9) & (2**64 - 1)
        z = ((z ^ (z >> 27)) * 0x94D049BB133111EB) & (2**64 - 1)
        return z ^ (z >> 31)

    def below(self, n):
        return self.next() % n if n > 0 else 0

    def range(self, lo, hi):
        return lo + self.below(hi - lo + 1)

    def choice(self, xs):
        return xs[self.below(len(xs))]

    def chance(self, num, den):
        return self.below(den) < num

    def bytes(self, n):
        return bytes(self.below(256) for _ in range(n))

    def shuffle(self, xs):
        xs = list(xs)
        for i in range(len(xs) - 1, 0, -1):
            j = self.below(i + 1)
            xs[i], xs[j] = xs[j], xs[i]
        return xs


def seed_from_env():
    try:
        return int(os.environ.get("VERIF_SEED", "1"))
    except ValueError:
        return 1


def hexs(b):
    return b.hex() if len(b) else "-"


# --------------------------------------------------------------------------
# known findings


def load_findings(prop):
    path = os.path.join(VERIF, "known_findings.json")
    if not os.path.exists(path):
        return []
    return [f for f in json.load(open(path))["findings"] if f["property"] == prop and f.get("status") == "open"]


# --------------------------------------------------------------------------
# results of one check run


class Run:
    def __init__(self, prop, tier):
        self.prop = prop
        self.tier = tier
        self.seed = seed_from_env()
        self.violations = []      # (kind, replay dict)
        self.known = {}           # finding id -> count
        self.cov = {"evaluations": 0, "distinct_nontrivial": 0, "samples": []}
        self.dist = {}
        self.notes = []
        self.findings = load_findings(prop)
        self._distinct = set()
        shutil.rmtree(os.path.join(VERIF, "replays", prop), ignore_errors=True)

    def count(self, key, n=1):
        self.dist[key] = self.dist.get(key, 0) + n

    def case(self, case, nontrivial=True):
        self.cov["evaluations"] += 1
        if nontrivial:
            self._distinct.add(case)

    def sample(self, s):
        if len(self.cov["samples"]) < 12:
            self.cov["samples"].append(s)

    def known_finding(self, fid, what):
        if fid not in self.known:
            self.known[fid] = 0
        self.known[fid] += 1

    def violation(self, kind, replay, no_input=False):
        """record one violation; kind names the broken theorem/correspondence"""
        replay = dict(replay)
        replay["kind"] = kind
        replay["property"] = self.prop
        replay["seed"] = self.seed
        replay["no_failing_input_found"] = bool(no_input)
        self.violations.append(replay)

    def finish(self, level, obligations=None, extra_cov=None, assumptions=None, trusted_base=None, checker_cmd=None):
        wall = time.time() - T0
        cov = dict(self.cov)
        cov["distinct_nontrivial"] = len(self._distinct)
        cov["distribution"] = self.dist
        if obligations is not None:
            cov["obligations"], cov["discharged"] = obligations
        if checker_cmd:
            cov["checker_cmd"] = checker_cmd
        if trusted_base is not None:
            cov["trusted_base"] = trusted_base
        if extra_cov:
            cov.update(extra_cov)
        cov["known_findings_hit"] = self.known
        if not cov["samples"]:
            cov["samples"] = ["(none)"]
        ev = {"property_id": self.prop, "tier": self.tier, "seed": self.seed, "level": level,
              "coverage": cov, "assumptions": assumptions or [], "wall_s": round(wall, 2),
              "violations": len(self.violations)}
        os.makedirs(os.path.join(VERIF, "evidence"), exist_ok=True)
        json.dump(ev, open(os.path.join(VERIF, "evidence", self.prop + ".json"), "w"), indent=1)
        for f in self.findings:
            if self.known.get(f["id"]):
                print("KNOWN-FINDING: property=%s %s [%s, %d case(s) this run]" % (self.prop, f["what"], f["id"], self.known[f["id"]]))
        if self.violations:
            rd = os.path.join(VERIF, "replays", self.prop)
            os.makedirs(rd, exist_ok=True)
            seen = set()
            for v in self.violations[:20]:
                h = hashlib.sha1(json.dumps(v, sort_keys=True).encode()).hexdigest()[:12]
                path = os.path.join(rd, h + ".json")
                json.dump(v, open(path, "w"), indent=1)
                key = v["kind"]
                if key in seen:
                    continue
                seen.add(key)
                tail = " no-failing-input-found" if v.get("no_failing_input_found") else ""
                print("VIOLATION property=%s replay=%s%s" % (self.prop, path, tail))
            return 1
        return 0


# --------------------------------------------------------------------------
# correspondence of line-protocol cases


def correspond(run, name, cases, model_exe, c_exe, c_env=None, timeout=900):
    """run the same command lines through the model and the C driver.
    Returns (model_out, c_out).  A crashing C driver (sanitizer report, signal)
    is recorded as a violation with the offending line bisected."""
    rc_m, mo, me = run_lines(model_exe, cases, timeout=timeout)
    if rc_m != 0 or len(mo) != len(cases):
        raise RuntimeError("model driver failed on %s: rc=%s lines=%d/%d %s" % (name, rc_m, len(mo), len(cases), me))
    rc_c, co, ce = run_lines(c_exe, cases, timeout=timeout, env=c_env or SAN_ENV)
    if rc_c != 0 or len(co) != len(cases):
        # find the first line that kills the driver
        bad = cases[len(co)] if len(co) < len(cases) else None
        run.violation("crash:" + name, {"what": "C driver died (rc=%s) — sanitizer report or signal" % rc_c,
                                        "command_line": bad, "stderr_tail": ce[-1500:],
                                        "replay_cmd": "echo '%s' | <leafdrv built from /repo>" % bad})
        co = co + ["CRASH"] * (len(cases) - len(co))
    return mo, co


# --------------------------------------------------------------------------
# the compiler and the command-line tools, rebuilt from /repo's working tree


def build_repo_copy(dirs=("libasn1common", "libasn1parser", "libasn1fix", "libasn1print", "libasn1compiler", "asn1c")):
    """copy /repo's working tree (with its build outputs, so only edited files
    rebuild) into scratch and run make in the given sub-directories.
    Returns the copy's root."""
    scr = scratch()
    root = os.path.join(scr, "repo")
    if not os.path.exists(root):
        rc, o = sh(["rsync", "-a", "--exclude", "tests", "--exclude", "doc", "--exclude", "examples", "--exclude", ".git",
                    REPO.rstrip("/") + "/", root + "/"], timeout=600)
        if rc != 0:
            raise BuildError("rsync of /repo failed:\n" + o[-2000:])
    for d in dirs:
        stamp = os.path.join(root, d, ".a1v_built")
        if os.path.exists(stamp):
            continue
        rc, o = sh("make -j%d CFLAGS='-g -O1 -D%s'" % (NCPU, GUARD), cwd=os.path.join(root, d), timeout=1200)
        if rc != 0:
            raise BuildError("make in %s failed:\n%s" % (d, o[-3000:]))
        open(stamp, "w").write("ok\n")
    return root


def build_asn1c():
    """returns (path of asn1c binary, path of skeletons dir) built from the working tree"""
    root = build_repo_copy()
    return os.path.join(root, "asn1c", "asn1c"), os.path.join(root, "skeletons")


def build_tools():
    """returns (unber, enber) binaries built from the working tree"""
    root = build_repo_copy(dirs=("libasn1common", "libasn1parser", "libasn1fix", "libasn1print", "libasn1compiler", "asn1c", "asn1-tools"))
    return (os.path.join(root, "asn1-tools", "unber", "unber"), os.path.join(root, "asn1-tools", "enber", "enber"))
