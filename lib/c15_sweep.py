"""c15_sweep — the declared-size sweep of checks/c15.py (region closed in round C15x).

Every type with a declared size / count / length:
   strings   OCTET STRING, BIT STRING, IA5String, PrintableString, VisibleString, NumericString,
             BMPString, UniversalString, UTF8String, GeneralString, TeletexString, VideotexString,
             GraphicString, ObjectDescriptor
   lists     SEQUENCE OF / SET OF  of BOOLEAN (1 bit), NULL (0 bits), INTEGER (0..255)
   members   a sized string as OPTIONAL member of a SEQUENCE, as extension addition (open type
             in PER/OER), as CHOICE alternative
   lengths   INTEGER (unconstrained, 0..MAX, MIN..0, extensible), extensible ENUMERATED, OBJECT IDENTIFIER,
             RELATIVE-OID, REAL, UTCTime, GeneralizedTime
x SIZE constraints at and beyond the 64K boundary
   0..65535, 0..65536, 1..65537, 0..2^24-1, 0..2^31-1, 0..2^32-1, 1..MAX, 32767..65535,
   65536..65540, extensible small root, extensible 2^31-1 root, fixed 5 / 65535 / 65536 / 70000,
   none, and two seeded random ranges per run
x transfer syntax (UPER, OER, BER, XER)
x input shape
   valid     a SHORT valid encoding (count = the lower bound, or 0..3 units)
   trunc     that encoding cut at 0, 1, 2, half, all-but-one octets
   prefix    a length / count / quantity field announcing L units with 0..few octets behind it,
             L in {127, 128, 16383, 16K, 32K, 48K, 64K, ub, 65535, 65536, 2^24-1, 2^31-1, 2^32-1, 2^63-1}
             as far as the syntax can express it
   frag2     UPER: a full 64K fragment followed by a second fragment header and nothing
   random    seeded random header + tail

A case is (type name, syntax, label, bytes, expect) with expect in {"valid", None}.
The module text is IMPLICIT TAGS, no tags of its own: BER tags are the universal ones."""
import c15_util as U

# code: (ASN.1 name, BER tag, UPER bits per unit, bytes per unit in memory (0 = BIT STRING), PER-visible SIZE, random filler allowed in UPER)
STR_KINDS = {
    "OS": ("OCTET STRING", 0x04, 8, 1, True, True),
    "BS": ("BIT STRING", 0x03, 1, 0, True, True),
    "IA": ("IA5String", 0x16, 7, 1, True, True),
    "PR": ("PrintableString", 0x13, 7, 1, True, False),
    "VS": ("VisibleString", 0x1A, 7, 1, True, False),
    "NS": ("NumericString", 0x12, 4, 1, True, False),
    "BM": ("BMPString", 0x1E, 16, 2, True, True),
    "UN": ("UniversalString", 0x1C, 32, 4, True, False),
    "U8": ("UTF8String", 0x0C, 8, 1, False, False),
    "GS": ("GeneralString", 0x1B, 8, 1, False, False),
    "TS": ("TeletexString", 0x14, 8, 1, False, False),
    "VX": ("VideotexString", 0x15, 8, 1, False, False),
    "GR": ("GraphicString", 0x19, 8, 1, False, False),
    "OD": ("ObjectDescriptor", 0x07, 8, 1, False, False),
}
# code: (constructor, BER tag, element ASN.1, UPER bits/element, element bytes in memory, BER element, OER element, XER element)
LST_KINDS = {
    "QB": ("SEQUENCE", 0x30, "BOOLEAN", 1, 4, b"\x01\x01\xff", b"\xff", b"<true/>"),
    "SB": ("SET", 0x31, "BOOLEAN", 1, 4, b"\x01\x01\xff", b"\xff", b"<true/>"),
    "QN": ("SEQUENCE", 0x30, "NULL", 0, 4, b"\x05\x00", b"", b"<NULL/>"),
    "QI": ("SEQUENCE", 0x30, "INTEGER (0..255)", 8, 8, b"\x02\x01\x07", b"\x07", b"<INTEGER>7</INTEGER>"),
}
FULL_KINDS = ("OS", "BS", "IA", "BM", "UN", "QB", "QN")
BIGLB_KINDS = ("OS", "BS", "IA", "QB")          # sizes whose lower bound is >= 32767: the valid input is >= 32 KiB

# code: (lb, ub | None = MAX, extensible); "u" = no constraint
SIZES = [
    ("a", 0, 65535, False), ("b", 0, 65536, False), ("c", 1, 65537, False), ("d", 0, 2**24 - 1, False),
    ("e", 0, 2**31 - 1, False), ("f", 1, None, False), ("g", 0, 10, True), ("h", 0, 2**31 - 1, True),
    ("i", 5, 5, False), ("m", 0, 2**32 - 1, False), ("u", None, None, False),
    ("j", 70000, 70000, False), ("k", 65535, 65535, False), ("l", 65536, 65536, False),
    ("n", 32767, 65535, False), ("p", 65536, 65540, False),
]
REDUCED = ("a", "b", "e", "h")


def size_text(lb, ub, ext):
    if lb is None:
        return ""
    r = "%d" % lb if lb == ub else "%d..%s" % (lb, "MAX" if ub is None else "%d" % ub)
    return "(SIZE(%s%s))" % (r, ",..." if ext else "")


class T:
    """one swept type"""
    def __init__(self, name, kind, lb, ub, ext):
        self.name, self.kind, self.ext = name, kind, ext
        self.sized = lb is not None
        self.lb, self.ub = (lb if lb is not None else 0), ub
        self.is_str = kind in STR_KINDS
        self.wrap = None            # None | "rec" | "xe" | "ch"
        if self.is_str:
            self.asn, self.tag, self.ubits, self.bpc, self.pervis, self.rand_ok = STR_KINDS[kind]
        else:
            self.ctor, self.tag, self.elem, self.ubits, self.esz, self.e_ber, self.e_oer, self.e_xer = LST_KINDS[kind]
            self.pervis = True
        if not self.pervis:
            self.p_lb, self.p_ub, self.p_ext, self.p_sized = 0, None, False, False
        else:
            self.p_lb, self.p_ub, self.p_ext, self.p_sized = self.lb, self.ub, ext, self.sized

    def asn1(self):
        st = size_text(self.lb if self.sized else None, self.ub, self.ext)
        if self.is_str:
            return "%s %s" % (self.asn, st)
        return "%s %sOF %s" % (self.ctor, st + " " if st else "", self.elem)

    # ---------------------------------------------------------------- counts
    def small_count(self, rng):
        """a count of a SHORT valid value"""
        hi = self.ub if self.ub is not None else self.lb + 3
        return min(hi, max(self.lb, rng.range(0, 3)))

    def fixed(self):
        return self.sized and self.ub is not None and self.lb == self.ub and not self.ext

    # ---------------------------------------------------------------- UPER
    def uper_units(self, k, rng=None, canon=False):
        """bit string of k units; canon: the extension branch of an extensible SIZE, where the C
        reads characters with their canonical width (8 * bytes per character)"""
        if not self.is_str and self.ubits == 8:
            return "00000111" * k
        ub = 8 * self.bpc if (canon and self.is_str and self.bpc) else self.ubits
        if rng is not None and self.is_str and self.rand_ok and not canon and k * ub <= 4096:
            nb = k * ub
            return U_bits(int.from_bytes(rng.bytes((nb + 7) // 8), "big") >> (-nb % 8), nb) if nb else ""
        return ("1" if not self.is_str else "0") * (k * ub)

    def uper_constrained(self):
        return self.p_sized and self.p_ub is not None and self.p_ub < 65536

    def uper_header(self, inroot=True):
        return ("0" if inroot else "1") if (self.p_sized and self.p_ext) else ""

    def uper_count_field(self, count):
        """root form of the size determinant for `count` (no fragmentation: count < 16384 in the general form)"""
        if self.uper_constrained():
            return U_bits(count - self.p_lb, (self.p_ub - self.p_lb).bit_length())
        return U_bits(count, 8) if count < 128 else U_bits(0x8000 | count, 16)

    def uper_valid(self, count, rng=None, force_ext=False):
        if self.uper_constrained() and not force_ext:
            return self.uper_header(True) + self.uper_count_field(count) + self.uper_units(count, rng)
        return self.uper_header(not force_ext) + uper_counted(count, lambda k: self.uper_units(k, rng, canon=force_ext))

    # ---------------------------------------------------------------- contents in the octet-oriented syntaxes
    def content(self, k):
        """(BER/OER contents octets of k units for a string, without the BIT STRING initial octet)"""
        kd = self.kind
        if kd == "BS":
            return b"\xff" * (k // 8) + (bytes([(0xFF << (8 - k % 8)) & 0xFF]) if k % 8 else b"")
        if kd == "BM":
            return b"\x00A" * k
        if kd == "UN":
            return b"\x00\x00\x00A" * k
        return (b"1" if kd == "NS" else b"A") * k

    def ber_body(self, k):
        if self.is_str:
            return (bytes([-k % 8]) if self.kind == "BS" else b"") + self.content(k)
        return self.e_ber * k

    def ber_valid(self, k):
        b = self.ber_body(k)
        return bytes([self.tag]) + U.ber_len(len(b)) + b

    def oer_valid(self, k):
        if self.is_str:
            if self.fixed() and self.pervis:
                return self.content(k)
            b = (bytes([-k % 8]) if self.kind == "BS" else b"") + self.content(k)
            return U.oer_len(len(b)) + b
        return oer_quantity(k) + self.e_oer * k

    def xer_valid(self, k):
        nm = self.name.encode()
        if self.is_str:
            kd = self.kind
            body = b"41" * k if kd == "OS" else b"1" * k if kd in ("BS", "NS") else b"A" * k
        else:
            body = self.e_xer * k
        return b"<" + nm + b">" + body + b"</" + nm + b">"

    def unit_octets(self):
        """octets per unit in BER/OER contents (strings), rounded up"""
        return {"BM": 2, "UN": 4}.get(self.kind, 1)


def U_bits(v, w):
    return format(v, "0%db" % w) if w else ""


def uper_counted(count, units):
    """general length determinant(s) + units, 16K fragmentation (X.691 11.9.3.8)"""
    out, n = [], count
    while n >= 16384:
        m = min(4, n // 16384)
        out.append(U_bits(0xC0 | m, 8) + units(m * 16384))
        n -= m * 16384
    out.append((U_bits(n, 8) if n < 128 else U_bits(0x8000 | n, 16)) + units(n))
    return "".join(out)


def oer_quantity(n):
    b = n.to_bytes(max(1, (n.bit_length() + 7) // 8), "big")
    return bytes([len(b)]) + b


def pack(bits):
    """X.691 11.1.3: an empty encoding is one zero octet"""
    return U.bits_to_bytes(bits) or b"\x00"


# -------------------------------------------------------------------- the type table
def make_types(rng):
    """list of T (seed dependent: two random ranges per full kind)"""
    ts = []
    for kind in list(STR_KINDS) + list(LST_KINDS):
        sizes = [s for s in SIZES if kind in FULL_KINDS or s[0] in REDUCED]
        sizes = [s for s in sizes if s[1] is None or s[1] < 32767 or kind in BIGLB_KINDS]
        # seeded ranges: an upper bound anywhere in 64K .. 2^40, and a range straddling 64K
        r1 = 2 ** rng.range(16, 40) + rng.range(0, 65535)
        sizes = sizes + [("r", rng.range(0, 3), r1, rng.chance(1, 4))]
        if kind in FULL_KINDS:
            sizes.append(("s", rng.range(0, 200), rng.range(65530, 65545), False))
        for code, lb, ub, ext in sizes:
            ts.append(T(kind + code, kind, lb, ub, ext))
    return ts


WRAPPED = ["OSe", "OSd", "OSa", "IAe", "BSe", "UNe", "QBe", "QNe"]


def module_text(ts):
    byname = {t.name: t for t in ts}
    lines = ["C15D DEFINITIONS IMPLICIT TAGS ::= BEGIN"]
    for t in ts:
        lines.append("%s ::= %s" % (t.name, t.asn1()))
    for w in WRAPPED:
        a = byname[w].asn1()
        lines.append("R%s ::= SEQUENCE { id INTEGER (0..255), p %s OPTIONAL }" % (w, a))
        lines.append("X%s ::= SEQUENCE { id INTEGER (0..255), ..., p %s OPTIONAL }" % (w, a))
        lines.append("H%s ::= CHOICE { n NULL, p %s }" % (w, a))
    lines += ["IU ::= INTEGER", "IS ::= INTEGER (0..MAX)", "IM ::= INTEGER (MIN..0)", "IX ::= INTEGER (0..7, ...)",
              "EN ::= ENUMERATED { a, b, ..., c }", "OI ::= OBJECT IDENTIFIER", "RO ::= RELATIVE-OID", "RL ::= REAL",
              "UT ::= UTCTime", "GT ::= GeneralizedTime", "END", ""]
    return "\n".join(lines)


# -------------------------------------------------------------------- cases
UPER_L = [127, 128, 16383]
UPER_FRAG = [1, 2, 3, 4]
BIG_L = [127, 128, 65535, 65536, 2**24 - 1, 2**31 - 1, 2**32 - 1, 2**63 - 1]


def truncs(data):
    n = len(data)
    return sorted({k for k in (0, 1, 2, n // 2, n - 1) if 0 <= k < n})


def cases_for(t, rng, tier):
    """(syntax, label, bytes, expect)"""
    cs = []
    k = t.small_count(rng)
    tail = lambda: rng.bytes(rng.range(0, 6))
    # ---- UPER
    v = pack(t.uper_valid(k, rng))
    cs.append(("uper", "valid count=%d" % k, v, "valid"))
    for c in truncs(v):
        cs.append(("uper", "valid count=%d cut at %d" % (k, c), v[:c], None))
    if t.p_sized and t.p_ext and t.lb <= 2:
        v2 = pack(t.uper_valid(k, rng, force_ext=True))
        cs.append(("uper", "valid count=%d, extension form" % k, v2, None))
    hdrs = [("root", t.uper_header(True))] + ([("ext", "1")] if t.p_sized and t.p_ext else [])
    for hn, h in hdrs:
        if t.uper_constrained() and hn == "root":
            w = (t.p_ub - t.p_lb).bit_length()
            for val, lab in ((t.p_ub - t.p_lb, "ub"), (2**w - 1, "all-ones"), (rng.range(0, 2**w - 1), "random")):
                cs.append(("uper", "%s count field %s=%d, data %s" % (hn, lab, val, "none"), pack(h + U_bits(val, w)), None))
                cs.append(("uper", "%s count field %s=%d, some data" % (hn, lab, val), pack(h + U_bits(val, w)) + tail(), None))
        else:
            for L in UPER_L:
                cs.append(("uper", "%s length %d, no data" % (hn, L), pack(h + (U_bits(L, 8) if L < 128 else U_bits(0x8000 | L, 16))), None))
            for m in UPER_FRAG:
                cs.append(("uper", "%s fragment c%d, no data" % (hn, m), pack(h + U_bits(0xC0 | m, 8)), None))
            m = rng.range(1, 4)
            cs.append(("uper", "%s fragment c%d + partial data" % (hn, m), pack(h + U_bits(0xC0 | m, 8)) + rng.bytes(rng.range(1, 300)), None))
            if hn == "root" and (t.is_str or t.ubits == 1) and t.ubits * 16384 <= 8 * 65536 * 2:
                cs.append(("uper", "full fragment c1, then c4 and nothing", pack(h + U_bits(0xC1, 8) + t.uper_units(16384) + U_bits(0xC4, 8)), None))
    for _ in range(2 if tier == "quick" else 6):
        cs.append(("uper", "random", rng.bytes(rng.range(1, 5)) + (b"" if rng.chance(1, 2) else rng.bytes(rng.range(0, 40))), None))
    # ---- OER
    v = t.oer_valid(k)
    cs.append(("oer", "valid count=%d" % k, v, "valid"))
    for c in truncs(v):
        cs.append(("oer", "valid count=%d cut at %d" % (k, c), v[:c], None))
    if not (t.is_str and t.fixed() and t.pervis):
        for L in BIG_L:
            pre = U.oer_len(L) if t.is_str else oer_quantity(L)
            cs.append(("oer", "%s %d, no data" % ("length" if t.is_str else "quantity", L), pre, None))
        L = rng.choice(BIG_L[2:])
        cs.append(("oer", "%s %d, some data" % ("length" if t.is_str else "quantity", L), (U.oer_len(L) if t.is_str else oer_quantity(L)) + (t.oer_valid(3)[1:] + tail()), None))
    else:
        cs.append(("oer", "fixed size, short data", t.content(t.lb)[:rng.range(0, 4)], None))
    cs.append(("oer", "random", rng.bytes(rng.range(1, 12)), None))
    # ---- BER
    v = t.ber_valid(k)
    cs.append(("ber", "valid count=%d" % k, v, "valid"))
    for c in truncs(v):
        cs.append(("ber", "valid count=%d cut at %d" % (k, c), v[:c], None))
    for L in BIG_L:
        cs.append(("ber", "length %d, no data" % L, bytes([t.tag]) + U.ber_len(L), None))
    L = rng.choice(BIG_L[2:])
    cs.append(("ber", "length %d, some data" % L, bytes([t.tag]) + U.ber_len(L) + t.ber_body(3) + tail(), None))
    if t.is_str:
        prim = bytes([0x03 if t.kind == "BS" else 0x04])
        cs.append(("ber", "constructed, inner length %d" % L, bytes([t.tag | 0x20, 0x80]) + prim + U.ber_len(L) + tail(), None))
    else:
        cs.append(("ber", "indefinite, %d elements, no end" % 3, bytes([t.tag, 0x80]) + t.ber_body(3), None))
    cs.append(("ber", "random", bytes([t.tag]) + rng.bytes(rng.range(1, 12)), None))
    # ---- XER
    if t.lb <= 70000:
        v = t.xer_valid(k)
        cs.append(("xer", "valid count=%d" % k, v, "valid"))
        for c in truncs(v)[-2:]:
            cs.append(("xer", "valid count=%d cut at %d" % (k, c), v[:c], None))
        kk = rng.range(2000, 6000)
        if t.ub is None or kk <= t.ub:
            cs.append(("xer", "%d units" % kk, t.xer_valid(kk), None))
    return cs


def wrapped_cases(byname, rng):
    """(type name, syntax, label, bytes, expect, inner T): the sized string as member / extension addition / alternative"""
    out = []
    for w in WRAPPED:
        t = byname[w]
        k = t.small_count(rng)
        inner = t.uper_valid(k, rng)
        ot = lambda body: U.uper_len_prefixed(pack(body))          # open type: octets, length prefixed
        otbits = lambda body: "".join(U_bits(b, 8) for b in ot(body))
        forms = {
            "R": lambda body: "1" + "00000111" + body,
            "X": lambda body: "1" + "00000111" + "0000000" + "1" + otbits(body),          # ext bit, id, count-1 (nsnnwn 0), bitmap 1, open type
            "H": lambda body: ("0" if (t.tag & 0x1F) < 5 else "1") + body,          # canonical order: by tag; NULL is [UNIVERSAL 5]
        }
        heads = [("valid", inner, "valid")]
        if not t.uper_constrained():
            h = t.uper_header(True)
            heads += [("fragment c4, no data", h + U_bits(0xC4, 8), None), ("length 16383, no data", h + U_bits(0x8000 | 16383, 16), None),
                      ("fragment c%d + partial" % 2, h + U_bits(0xC2, 8) + "01" * rng.range(0, 2000), None)]
        else:
            w_ = (t.p_ub - t.p_lb).bit_length()
            heads += [("count field ub, no data", t.uper_header(True) + U_bits(t.p_ub - t.p_lb, w_), None)]
        for pfx, f in forms.items():
            for lab, body, exp in heads:
                data = pack(f(body))
                out.append((pfx + w, "uper", "member %s" % lab, data, exp, t))
                if exp == "valid":
                    for c in truncs(data):
                        out.append((pfx + w, "uper", "member valid cut at %d" % c, data[:c], None, t))
            # open type whose own length exceeds the input
            if pfx == "X":
                for pre in (U_bits(0xC4, 8), U_bits(0x8000 | 16383, 16)):
                    out.append((pfx + w, "uper", "open type length prefix without data", pack("1" + "00000111" + "0000000" + "1" + pre), None, t))
        # OER / BER: the member behind its presence
        o_in, b_in = t.oer_valid(k), t.ber_valid(k)
        L = rng.choice(BIG_L[2:])
        big_o = (U.oer_len(L) if t.is_str else oer_quantity(L))
        out.append(("R" + w, "oer", "member valid", b"\x80\x07" + o_in, "valid", t))
        out.append(("R" + w, "oer", "member length %d, no data" % L, b"\x80\x07" + big_o, None, t))
        out.append(("X" + w, "oer", "extension length %d, no data" % L, b"\x80\x07\x02\x07\x80" + U.oer_len(L), None, t))
        out.append(("X" + w, "oer", "extension valid", b"\x80\x07\x02\x07\x80" + U.oer_len(len(o_in)) + o_in, "valid", t))
        out.append(("H" + w, "oer", "alternative length %d, no data" % L, bytes([t.tag & 0x1F]) + big_o, None, t))
        out.append(("H" + w, "oer", "alternative valid", bytes([t.tag & 0x1F]) + o_in, "valid", t))
        seq = lambda body: b"\x30" + U.ber_len(len(body)) + body
        out.append(("R" + w, "ber", "member valid", seq(b"\x02\x01\x07" + b_in), "valid", t))
        out.append(("R" + w, "ber", "member length %d, no data" % L, b"\x30\x80\x02\x01\x07" + bytes([t.tag]) + U.ber_len(L), None, t))
        out.append(("H" + w, "ber", "alternative valid", b_in, "valid", t))
        out.append(("H" + w, "ber", "alternative length %d, no data" % L, bytes([t.tag]) + U.ber_len(L), None, t))
    return out


def leaf_cases(rng):
    """INTEGER / ENUMERATED content lengths: (type, syntax, label, bytes, expect)"""
    out = []
    for tn in ("IU", "IS", "IM"):
        out.append((tn, "uper", "valid", b"\x01\x05", "valid"))
        for m in UPER_FRAG:
            out.append((tn, "uper", "fragment c%d, no data" % m, bytes([0xC0 | m]), None))
        out.append((tn, "uper", "length 16383, no data", b"\xbf\xff", None))
        out.append((tn, "uper", "c4 + partial", b"\xc4" + rng.bytes(rng.range(1, 500)), None))
        out.append((tn, "uper", "c4 x 40", b"\xc4" * 40, None))
        for L in BIG_L:
            out.append((tn, "oer", "length %d, no data" % L, U.oer_len(L), None))
            out.append((tn, "ber", "length %d, no data" % L, b"\x02" + U.ber_len(L), None))
        out.append((tn, "oer", "valid", b"\x01\x05" if tn != "IM" else b"\x01\xfb", "valid"))
        out.append((tn, "ber", "valid", b"\x02\x01\x05" if tn != "IM" else b"\x02\x01\xfb", "valid"))
    out.append(("IX", "uper", "extension, fragment c4, no data", bytes([0x80 | 0x62]), None))       # ext bit 1, then c4 shifted by one bit: 1 1100010 0
    out.append(("IX", "uper", "extension, length 16383", pack("1" + U_bits(0x8000 | 16383, 16)), None))
    out.append(("IX", "uper", "valid", b"\x50", "valid"))
    for L in BIG_L:
        out.append(("EN", "oer", "length %d, no data" % L, U.oer_len(L) if L >= 128 else bytes([0x80 | 0x7f]), None))
        out.append(("EN", "ber", "length %d, no data" % L, b"\x0a" + U.ber_len(L), None))
    out.append(("EN", "uper", "extension index with 64K length", pack("1" + "1" + U_bits(0xC4, 8)), None))
    out.append(("EN", "uper", "valid", b"\x40", "valid"))
    out.append(("EN", "oer", "valid", b"\x01", "valid"))
    # length-prefixed primitives: (tag, valid contents)
    for tn, tag, body in (("OI", 0x06, b"\x2a\x03\x04"), ("RO", 0x0D, b"\x03\x04"), ("RL", 0x09, b"\x80\x00\x01"),
                          ("UT", 0x17, b"260101000000Z"), ("GT", 0x18, b"20260101000000Z")):
        out.append((tn, "ber", "valid", bytes([tag, len(body)]) + body, "valid"))
        out.append((tn, "oer", "valid", bytes([len(body)]) + body, "valid"))
        out.append((tn, "uper", "valid", bytes([len(body)]) + body, "valid"))
        for L in BIG_L:
            out.append((tn, "ber", "length %d, no data" % L, bytes([tag]) + U.ber_len(L), None))
            out.append((tn, "oer", "length %d, no data" % L, U.oer_len(L), None))
            out.append((tn, "oer", "length %d, some data" % L, U.oer_len(L) + body, None))
        for m in UPER_FRAG:
            out.append((tn, "uper", "fragment c%d, no data" % m, bytes([0xC0 | m]), None))
        out.append((tn, "uper", "length 16383, no data", b"\xbf\xff", None))
        out.append((tn, "uper", "c4 + partial", b"\xc4" + rng.bytes(rng.range(1, 500)), None))
        out.append((tn, "uper", "full fragment c1, then c4 and nothing", b"\xc1" + b"1" * 16384 + b"\xc4", None))
    return out
