"""c03_oerpos — position-aware OER re-encoder (X.696 BASIC-OER) for the modelled algebra (lib/modgen.py trees) and for
the extensible SEQUENCE / CHOICE types of lib/extgen.py.

An encoding is first laid out as a list of segments in which every LENGTH DETERMINANT is a node of its own:
    ("raw", bytes)
    ("open", label, [segments])   a length determinant (X.696 8.6) followed by that many octets: the contents of an
                                  unconstrained INTEGER ("int") or OCTET STRING ("oct"), the extension presence bitmap
                                  of an extensible SEQUENCE ("bitmap"), the open type holding an extension addition
                                  ("add") or an extension alternative of a CHOICE ("alt")
    ("qty", n)                    the quantity of a SEQUENCE OF / SET OF: a length determinant followed by n as an
                                  unsigned integer (two choices: the form of the determinant, leading zero octets of n)
Determinants are numbered in the order of the encoding (an "open" node before the determinants inside it; a "qty" node
takes two numbers: its determinant "qlen", then its value "qval").  `render(segs, forms)` writes the octets with the form
chosen for each number:
    ("s",)     the canonical form (short form up to 127, else long form with the minimal number of octets)
    ("l", k)   long form with exactly k length octets (8k 00.. n); k smaller than necessary -> canonical
    ("z", j)   (qval only) j leading zero octets before the minimal octets of n
Lengths of enclosing open types follow from what is rendered inside them.  Independent of the Coq model and of the C;
the canonical rendering is compared with the model's encoder by the check (self-test of this file)."""
from c03_util import oer_int_ct, oer_tag, outmost, min_len_octets


def enc(tree, v):
    """segments of the BASIC-OER encoding of value v of the (resolved) modgen tree"""
    k = tree[0]
    if k == "b":
        return [("raw", b"\xff" if v else b"\x00")]
    if k == "n":
        return []
    if k == "i":
        w, positive = oer_int_ct(tree[2], tree[3], tree[4])
        if w:
            return [("raw", v.to_bytes(w, "big", signed=not positive))]
        if positive:
            body = v.to_bytes(max(1, (v.bit_length() + 7) // 8), "big")
        else:
            body = v.to_bytes((v if v >= 0 else ~v).bit_length() // 8 + 1, "big", signed=True)
        return [("open", "int", [("raw", body)])]
    if k == "o":
        lo, hi, ext = tree[2], tree[3], tree[4]
        if hi is not None and lo == hi and not ext:
            return [("raw", bytes(v))]
        return [("open", "oct", [("raw", bytes(v))])]
    if k == "s":
        bits, body = [], []
        for m, x in zip(tree[2], v[1]):
            if m[0] == "?":
                bits.append(x[0] == "!")
                if x[0] == "!":
                    body += enc(m[1], x[1])
            else:
                body += enc(m, x)
        return [("raw", bitmap_bytes(bits))] + body
    if k in ("q", "t"):
        out = [("qty", len(v[1]))]
        for x in v[1]:
            out += enc(tree[3], x)
        return out
    if k == "c":
        a = tree[1][v[1]]
        return [("raw", oer_tag(outmost(a, v[2])))] + enc(a, v[2])
    if k == "x":
        return enc(tree[2], v)
    if k == "?":
        return enc(tree[1], v[1])
    raise ValueError(k)


def bitmap_bytes(bits):
    pre = bytearray((len(bits) + 7) // 8)
    for i, bit in enumerate(bits):
        if bit:
            pre[i // 8] |= 0x80 >> (i % 8)
    return bytes(pre)


def enc_ext(x, v):
    """segments for a value of an extensible type of lib/extgen.py (x = m['x'][typename])"""
    if x["kind"] == "seq":
        nr = len(x["rtrees"])
        rvals, avals = v[1][:nr], v[1][nr:]
        anyadd = any(a[0] == "!" for a in avals)
        bits, body = [anyadd], []
        for m, xv in zip(x["rtrees"], rvals):
            if m[0] == "?":
                bits.append(xv[0] == "!")
                if xv[0] == "!":
                    body += enc(m[1], xv[1])
            else:
                body += enc(m, xv)
        out = [("raw", bitmap_bytes(bits))] + body
        if anyadd:
            pres = [a[0] == "!" for a in avals]
            unused = (8 - len(pres) % 8) % 8
            out.append(("open", "bitmap", [("raw", bytes([unused]) + bitmap_bytes(pres))]))
            for t, a in zip(x["atrees"], avals):
                if a[0] == "!":
                    out.append(("open", "add", enc(t, a[1])))
        return out
    alts = x["rtrees"] + x["atrees"]
    i, av = v[1], v[2]
    a = alts[i]
    tagb = ("raw", oer_tag(outmost(a, av)))
    if i < len(x["rtrees"]):
        return [tagb] + enc(a, av)
    return [tagb, ("open", "alt", enc(a, av))]


def det_len(n, form):
    if form[0] == "l":
        k = form[1]
        if 1 <= k <= 127 and n < 256 ** k:
            return bytes([128 + k]) + n.to_bytes(k, "big")
    if n <= 127:
        return bytes([n])
    k = min_len_octets(n)
    return bytes([128 + k]) + n.to_bytes(k, "big")


def render(segs, forms=None, ctr=None, info=None):
    """-> bytes.  forms: {determinant number: form}.  info (optional list) receives (number, label, value) per determinant"""
    forms = forms or {}
    if ctr is None:
        ctr = [0]
    out = bytearray()
    for s in segs:
        if s[0] == "raw":
            out += s[1]
        elif s[0] == "open":
            me = ctr[0]
            ctr[0] += 1
            slot = None
            if info is not None:
                slot = len(info)
                info.append(None)
            inner = render(s[2], forms, ctr, info)
            if info is not None:
                info[slot] = (me, s[1], len(inner))
            out += det_len(len(inner), forms.get(me, ("s",))) + inner
        elif s[0] == "qty":
            ql, qv = ctr[0], ctr[0] + 1
            ctr[0] += 2
            n = s[1]
            z = forms.get(qv, ("z", 0))
            val = n.to_bytes(min_len_octets(n) + (z[1] if z[0] == "z" else 0), "big")
            if info is not None:
                info.append((ql, "qlen", len(val)))
                info.append((qv, "qval", n))
            out += det_len(len(val), forms.get(ql, ("s",))) + val
        else:
            raise ValueError(s[0])
    return bytes(out)


def determinants(segs):
    """[(number, label, value at the canonical rendering)] in encoding order"""
    info = []
    render(segs, {}, None, info)
    return sorted(info)


def alt_forms(label, n, wide=False):
    """the legal non-canonical forms of one determinant: long form with 1..3 length octets where the canonical form is
    the short one; otherwise 1..2 leading zero octets.  wide: also the form with 9 octets (8 leading zero octets for a
    quantity): more octets than a size_t has, all but the last ones zero (oer_fetch_length / oer_fetch_quantity skip
    leading zero octets BEFORE they compare the number of octets with sizeof(size_t))"""
    if label == "qval":
        return [("z", 1), ("z", 2)] + ([("z", 8)] if wide else [])
    if n <= 127:
        return [("l", 1), ("l", 2), ("l", 3)] + ([("l", 9)] if wide else [])
    k = min_len_octets(n)
    return [("l", k + 1), ("l", k + 2)] + ([("l", 9)] if wide and k + 2 < 9 else [])


def form_str(f):
    return f[0] + ("%d" % f[1] if len(f) > 1 else "")


def sweep(segs, rng, max_positions=None, nmix=3, wide_all=False):
    """-> [(label, forms dict, bytes)]: every determinant position in every alternative form (one position at a time),
    all positions at once per form rank, random mixes.  With max_positions, the first, the last and a random sample of
    the positions in between (bitmap / alt positions always)."""
    dets = determinants(segs)
    if not dets:
        return []
    pos = list(dets)
    if max_positions is not None and len(pos) > max_positions:
        fr = [i for i, d in enumerate(pos) if d[1] in ("bitmap", "alt")]
        if len(fr) > max_positions // 2:
            fr = fr[:max_positions // 4] + fr[-(max_positions // 4):]
        keep = {0, len(pos) - 1} | set(fr)
        while len(keep) < max_positions:
            keep.add(rng.below(len(pos)))
        pos = [pos[i] for i in sorted(keep)]
    out = []
    # the 9-octet forms: every position (thorough) / every framing position and one contents position (quick)
    wide_one = pos[rng.below(len(pos))][0]
    for (num, label, n) in pos:
        for f in alt_forms(label, n, wide=(wide_all or label not in ("int", "oct") or num == wide_one)):
            out.append(("%s@%d:%s" % (label, num, form_str(f)), {num: f}))
    for rank in (0, 1, 2):
        forms = {}
        for (num, label, n) in dets:
            fs = alt_forms(label, n)
            forms[num] = fs[min(rank, len(fs) - 1)]
        out.append(("all:%d" % rank, forms))
    for _ in range(nmix):
        forms = {}
        for (num, label, n) in dets:
            if rng.chance(1, 2):
                forms[num] = rng.choice(alt_forms(label, n))
        out.append(("mix", forms))
    res, seen = [], set()
    canon = render(segs)
    seen.add(canon)
    for lab, forms in out:
        b = render(segs, forms)
        if b not in seen:
            seen.add(b)
            res.append((lab, forms, b))
    return res


def forms_str(forms):
    """the oracle string handed to the Coq variant encoder (ocaml/drv_c03.ml): number:form, ... in increasing order"""
    return ",".join("%d:%s" % (k, form_str(forms[k])) for k in sorted(forms)) or "-"
