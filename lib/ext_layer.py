"""ext_layer — the extensibility layer of checks C01 and C02 (model: coq/Rt/Ext.v,
theorems: coq/Rt/ExtProofs.v + ExtFormat.v, front end: ocaml/drv_ext.ml, generator:
lib/extgen.py).  Hooked into checks/c01.py and checks/c02.py by one call each:
    ext_layer.run_c01(run, rng, tier)      ext_layer.run_c02(run, rng, tier)
Nothing is drawn from the caller's rng (the host check's corpus stays what it was);
the layer derives its own stream from run.seed.

Per case (module, extensible type, value), with D = the model's DER of the value:
  C02  the C encoders (xcode T der D {der,uper,oer}) against the model of the C (std=0:
       faithfulness) and against the standard reading of the model (std=1: oracle);
       the spec functions themselves (fragment sizes, open type octets, unused-bits
       octet) against an independent computation in Python;
  C01  the round-trip battery on the C alone (rt), the C decoders on the model's bytes
       (code, consumed = all, value), decoding with a TRUNCATED type of the same family
       (fewer additions: the known part must come back and everything be consumed),
       transcoding chains uper -> oer -> der / oer -> uper.
Violation kinds are prefixed `ext:`."""
import os, time
from vlib import *
from modbuild import *
from modcorpus import run_mod
import extgen
from extgen import val_str

FID = {
    "vb_c02": "C02-ext-version-brackets-flattened",
    "xernl": "C01-xer-trailing-newline",
    "empty_c02": "C02-ext-empty-sequence-not-extensible", "empty_c01": "C01-ext-empty-sequence-not-extensible",
}
TIMES = {}
BIG = 3000          # octets: above this the model's decoders are run on a few values only


def own_rng(run, salt):
    return Rng(run.seed * 1000003 + salt)


# ---------------------------------------------------------------- cases

def make_cases(mods, rng, tier):
    cases = []

    def add(m, tn, v, kind, trunc=()):
        x = m["x"][tn]
        cases.append({"m": m, "tn": tn, "x": x, "v": v, "vs": val_str(v), "cat": kind, "trunc": list(trunc)})

    def family(m, fam):
        return sorted([tn for tn in m["x"] if m["x"][tn]["family"] == fam], key=lambda tn: m["x"][tn]["nadd"])

    for m in mods:
        if not m.get("exe"):
            continue
        fams = sorted(set(x["family"] for x in m["x"].values()))
        for fam in fams:
            tns = family(m, fam)
            for tn in tns:
                x = m["x"][tn]
                smaller = [t for t in tns if m["x"][t]["nadd"] < x["nadd"]]
                # truncated readings: the nearest older version, the oldest, one in between
                tr = []
                if smaller:
                    tr = [smaller[-1], smaller[0]] + ([rng.choice(smaller)] if len(smaller) > 2 else [])
                    tr = sorted(set(tr), key=tns.index)
                if m["name"] == "XB":
                    continue      # the size cases below
                if m["name"] == "XP":
                    # preamble length: every presence pattern of the OPTIONAL root members x additions none / all
                    k = sum(1 for t in x["rtrees"] if t[0] == "?")
                    for rp in extgen.root_presence_patterns(k, rng):
                        for p in (["none"] if x["nadd"] == 0 else ["none", "all"]):
                            add(m, tn, extgen.seq_value(x, extgen.presence(p, x["nadd"], rng), rng, rpres=rp),
                                "preamble:k%d:%s:%s" % (k, "".join("1" if b else "0" for b in rp) or "-", p), tr)
                    continue
                if x["kind"] == "seq":
                    n = x["nadd"]
                    pats = ["none"] if n == 0 else extgen.PATTERNS
                    if tier != "quick":
                        pats = pats + (["random"] * 3 if n else [])
                    if fam == "L" and tier == "quick":
                        pats = ["none", "first", "last", "random"]
                    for p in pats:
                        add(m, tn, extgen.seq_value(x, extgen.presence(p, n, rng), rng), "seq:%s:n%d" % (p, n), tr)
                else:
                    nr, nx = len(x["rtrees"]), x["nadd"]
                    idx = sorted(set([0, nr - 1] + [nr + j for j in (0, 1, 62, 63, 64, 65, nx - 1) if 0 <= j < nx] + [rng.below(nr + nx) for _ in range(3)]))
                    for i in idx:
                        add(m, tn, extgen.choice_value(x, i, rng), "choice:%s" % ("root" if i < nr else "ext%d" % (i - nr)), tr)
    # size boundaries of the open type (module XB)
    xb = [m for m in mods if m["name"] == "XB" and m.get("exe")]
    if xb:
        m = xb[0]
        targets = extgen.SIZE_TARGETS_QUICK if tier == "quick" else extgen.SIZE_TARGETS
        sizes = sorted(set(s for t in targets for s in extgen.octet_sizes_for(t)) | {0})
        if tier == "quick":
            sizes.append(81917)        # 64K + 16K + empty last fragment; the whole neighbourhood in the thorough tier
        for k, s in enumerate(sizes):
            payload = bytes((i * 31 + s) % 256 for i in range(s))
            big = s > BIG
            # O3 = { r0, ..., e0 OCTET STRING, e1 BOOLEAN OPTIONAL, e2 OCTET STRING OPTIONAL }
            v = ("S", [s % 256, ("!", payload), ("!", True) if k % 2 else ("_",), ("!", payload[:k % 5]) if k % 3 == 0 else ("_",)])
            add(m, "ON3", v, "size:%d" % s, ["ON0", "ON1"] if not big or k % 3 == 0 else ["ON1"])
            if not big or tier != "quick" or s in (16382, 65533):
                add(m, "BN2", ("C", 1, payload), "size-choice:%d" % s, ["BN1"])
            if s == 16382 or (tier != "quick" and big):
                # two large additions in one value
                v2 = ("S", [1, ("!", payload), ("_",), ("!", payload)])
                add(m, "ON3", v2, "size2:%d" % s, ["ON1"])
    return cases


# ---------------------------------------------------------------- model side

NPAR = 6


def model_lines(model, lines, what):
    """run command lines through the extracted model; long batches are cut into NPAR interleaved parts run side by side
    (plain processes fed from files: no threads, no preexec_fn)"""
    import subprocess
    t0 = time.time()
    if not lines:
        return []
    weight = sum(len(l) for l in lines)
    npar = NPAR if (weight > 400000 and len(lines) >= 2 * NPAR) else 1
    d = os.path.join(scratch(), "extmodel")
    os.makedirs(d, exist_ok=True)
    # heaviest lines first, dealt round-robin, so that the parts weigh about the same
    order = sorted(range(len(lines)), key=lambda i: -len(lines[i]))
    parts = [order[k::npar] for k in range(npar)]
    procs = []
    for k, idx in enumerate(parts):
        fin, fout = os.path.join(d, "in%d" % k), os.path.join(d, "out%d" % k)
        open(fin, "w").write("\n".join(lines[i] for i in idx) + "\n")
        # extracted list functions are not tail recursive: long values need a deep native stack
        procs.append((idx, fout, subprocess.Popen(["bash", "-c", "ulimit -s unlimited 2>/dev/null; exec '%s' < '%s' > '%s'" % (model, fin, fout)])))
    out = [None] * len(lines)
    for idx, fout, p in procs:
        rc = p.wait(timeout=1500)
        res = open(fout).read().split("\n")
        if res and res[-1] == "":
            res.pop()
        if rc != 0 or len(res) != len(idx):
            raise RuntimeError("model driver failed (%s): rc=%s, %d of %d lines" % (what, rc, len(res), len(idx)))
        for i, o in zip(idx, res):
            out[i] = o
    TIMES["model_" + what] = round(TIMES.get("model_" + what, 0) + time.time() - t0, 1)
    return out


def model_encode(model, cases):
    lines = []
    for c in cases:
        e = c["x"]["ety"]
        lines += ["xder %s %s" % (e, c["vs"]), "xuper 0 %s %s" % (e, c["vs"]), "xuper 1 %s %s" % (e, c["vs"]), "xoer %s %s" % (e, c["vs"])]
    out = model_lines(model, lines, "encode")
    for i, c in enumerate(cases):
        c["der"], c["uper"], c["uperstd"], c["oer"] = out[4 * i:4 * i + 4]
        c["oerstd"] = c["oer"]
    cases = [c for c in cases if c["der"] != "NONE"]
    # the C receives every value as DER: a SET OF arrives in the order of its elements' encodings, and that is
    # the value the other encoders see; take the value back from the model's own BER decoder (as lib/modcorpus.py does)
    need = [c for c in cases if "t" in c["x"]["ety"]]
    out = model_lines(model, ["xberdec %s %s" % (c["x"]["ety"], c["der"]) for c in need], "canon")
    redo = []
    for c, o in zip(need, out):
        f = o.split()
        if f[0] != "OK" or int(f[1]) * 2 != len(c["der"]):
            raise RuntimeError("model does not decode its own DER: %s %s -> %s" % (c["x"]["ety"], c["vs"][:200], o[:200]))
        if f[2] != c["vs"]:
            c["vs"] = f[2]
            redo.append(c)
    lines = []
    for c in redo:
        e = c["x"]["ety"]
        lines += ["xuper 0 %s %s" % (e, c["vs"]), "xuper 1 %s %s" % (e, c["vs"]), "xoer %s %s" % (e, c["vs"])]
    out = model_lines(model, lines, "re-encode") if lines else []
    for i, c in enumerate(redo):
        c["uper"], c["uperstd"], c["oer"] = out[3 * i:3 * i + 3]
        c["oerstd"] = c["oer"]
    # version brackets: the standard reading uses another type (the group is one addition)
    vb = [c for c in cases if c["x"].get("std_ety")]
    lines = []
    for c in vb:
        sv = extgen.std_value_v1(c["v"])
        c["stdval"] = sv
        if sv is not None:
            lines += ["xuper 1 %s %s" % (c["x"]["std_ety"], val_str(sv)), "xoer %s %s" % (c["x"]["std_ety"], val_str(sv))]
    out = model_lines(model, lines, "encode-std") if lines else []
    k = 0
    for c in vb:
        if c["stdval"] is not None:
            c["uperstd"], c["oerstd"] = out[k:k + 2]
            k += 2
    return cases


def model_decode(model, cases, rng):
    """the model's own decoders on its bytes, and the truncated readings (faithful and standard)"""
    lines, slots = [], []

    def q(target, key, line):
        slots.append((target, key))
        lines.append(line)

    # pass 1: which truncated readings, and the truncated values (by the model's truncate_val)
    for c in cases:
        c["md"] = {}
        small = len(c["der"]) // 2 <= BIG
        c["model_dec"] = small or rng.chance(1, 6)
        c["tr"] = []
        for tn2 in c["trunc"]:
            x2 = c["m"]["x"][tn2]
            tv = extgen.truncate_value(c["x"], x2, c["v"])
            t = {"tn": tn2, "x": x2, "tv": tv, "tvs": None, "skip_model": not c["model_dec"]}
            c["tr"].append(t)
            if tv is not None and not t["skip_model"]:
                q(t, "tvs", "xtruncv %d %s %s" % (x2["nadd"], c["x"]["ety"], c["vs"]))
    out = model_lines(model, lines, "truncate")
    for (target, key), o in zip(slots, out):
        target[key] = o
    # pass 2: decoders
    lines, slots = [], []
    for c in cases:
        e = c["x"]["ety"]
        if c["model_dec"]:
            q(c["md"], "ber", "xberdec %s %s" % (e, c["der"]))
            if c["uper"] != "NONE":
                q(c["md"], "uper", "xuperdec 0 %s %s" % (e, c["uper"]))
            if c["oer"] != "NONE":
                q(c["md"], "oer", "xoerdec %s %s" % (e, c["oer"]))
        for t in c["tr"]:
            if t["skip_model"]:
                continue
            e2 = t["x"]["ety"]
            if t["tv"] is not None:
                q(t, "xder", "xder %s %s" % (e2, t["tvs"]))
            if t["tv"] is not None or c["x"]["kind"] == "seq":
                q(t, "ber", "xberdec %s %s" % (e2, c["der"]))
            if c["uper"] != "NONE" and c["uper"] == c["uperstd"]:
                q(t, "uper0", "xuperdec 0 %s %s" % (e2, c["uper"]))
                q(t, "uper1", "xuperdec 1 %s %s" % (e2, c["uper"]))
            if c["oer"] != "NONE":
                q(t, "oer", "xoerdec %s %s" % (e2, c["oer"]))
    out = model_lines(model, lines, "decode")
    for (target, key), o in zip(slots, out):
        target[key] = o


# ---------------------------------------------------------------- build

def build(run, rng, tier, tag):
    t0 = time.time()
    mods = extgen.gen_modules(rng, tier)
    build_modules(mods, tag=tag)
    for m in mods:
        if not m.get("exe"):
            run.violation("ext:build:module", {"what": "asn1c rejected a valid module of extensible types or its output does not compile",
                                               "module": m["text"], "asn1c_rc": m.get("asn1c_rc"), "asn1c_out": (m.get("asn1c_out") or "")[-1500:],
                                               "build_log": (m.get("build_log") or "")[-1500:]})
    run.count("ext_modules", len(mods))
    TIMES["build"] = round(time.time() - t0, 1)
    return mods, time.time() - t0


def degenerate(x):
    """SEQUENCE { ... } without any component: asn1c emits first_extension = -1, the type is treated as NOT extensible
    (no OER preamble, newer versions' additions rejected); outside the domain of the model (wf_ety), known finding"""
    return x["kind"] == "seq" and not x["rtrees"] and x["nadd"] == 0


def tree_any(tree, pred):
    k = tree[0]
    if pred(tree):
        return True
    if k == "s":
        return any(tree_any(m, pred) for m in tree[2])
    if k == "c":
        return any(tree_any(m, pred) for m in tree[1])
    if k in ("q", "t"):
        return tree_any(tree[3], pred)
    if k in ("x", "?"):
        return tree_any(tree[-1], pred)
    return False


def has_semi(c, lb_only=False):
    """a semi-constrained INTEGER among the components (known findings C02-uper-semiconstrained / C01-uper-semiconstrained-lb
    of the base layer: two's-complement contents instead of the offset; a lower bound other than 0 cannot be encoded)"""
    p = (lambda t: t[0] == "i" and t[2] is not None and t[3] is None and (not lb_only or t[2] != 0))
    return any(tree_any(t, p) for t in c["x"]["rtrees"] + c["x"]["atrees"])


def has_setof(c):
    """a SET OF somewhere: the order of the elements is not part of the value (DER and UPER sort them, each by its own
    encodings; OER writes them as stored), so octets and model value strings are compared through DER only"""
    return "t" in c["x"]["ety"]


def replay_of(case, **kw):
    d = {"module": case["m"]["text"], "type": case["tn"], "model_type": case["x"]["ety"], "value": case["vs"][:4000], "category": case["cat"]}
    d.update(kw)
    for k in list(d):
        if isinstance(d[k], str) and len(d[k]) > 6000:
            d[k] = d[k][:3000] + "...(%d chars)..." % len(d[k]) + d[k][-600:]
    return d


# ---------------------------------------------------------------- C02

def py_fragments(n):
    out = []
    while n >= 16384:
        m = min(n // 16384, 4)
        out.append(m * 16384)
        n -= m * 16384
    out.append(n)
    return out


def py_open_type(content):
    out = bytearray()
    pos = 0
    for k in py_fragments(len(content)):
        if k <= 127:
            out.append(k)
        elif k < 16384:
            out += bytes([0x80 | (k >> 8), k & 255])
        else:
            out.append(0xC0 | (k >> 14))
        out += content[pos:pos + k]
        pos += k
    return bytes(out)


def spec_part(run, model, rng, tier):
    """the specification functions of Ext.v against their wording computed here"""
    ns = list(range(0, 300)) + [16383, 16384, 16385, 32767, 32768, 32769, 49151, 49152, 49153, 65535, 65536, 65537, 81919, 81920, 81921, 98304,
                                131072, 147456, 147457] + [rng.below(200000) for _ in range(40)]
    lines = ["spec_frags %d" % n for n in ns] + ["spec_unused %d" % n for n in range(0, 200)]
    osz = [0, 1, 2, 127, 128, 129, 16383, 16384, 16385, 32768, 65536, 81920] + ([49152, 65537, 98304] if tier != "quick" else [])
    blobs = [bytes((i * 7 + s) % 256 for i in range(s)) for s in osz if s > 0]
    lines += ["spec_open %s" % b.hex() for b in blobs] + ["xopen %s" % b.hex() for b in blobs]
    lines += ["spec_nslength %d" % n for n in (1, 2, 63, 64, 65, 66, 127, 128, 129, 16383)] + ["spec_nsnnwn %d" % n for n in (0, 1, 62, 63, 64, 65, 255, 256, 65535, 65536)]
    out = model_lines(model, lines, "spec")
    for l, o in zip(lines, out):
        run.case(l[:200])
        cmd, args = l.split()[0], l.split()[1:]
        run.count("ext_" + cmd)
        if cmd == "spec_frags":
            exp = ",".join(str(k) for k in py_fragments(int(args[0])))
        elif cmd == "spec_unused":
            n = int(args[0])
            exp = str((8 - n % 8) % 8)
        elif cmd in ("spec_open", "xopen"):
            exp = py_open_type(bytes.fromhex(args[0])).hex()
        elif cmd == "spec_nslength":
            n = int(args[0])
            exp = format(n - 1, "07b") if n <= 64 else "1" + (format(n, "08b") if n <= 127 else format(n | 0x8000, "016b"))
        else:
            n = int(args[0])
            nb = (n.bit_length() + 7) // 8
            exp = format(n, "07b") if n <= 63 else "1" + format(nb, "08b") + format(n, "0%db" % (8 * nb))
        if o != exp:
            run.violation("ext:spec:" + cmd, {"what": "specification function of coq/Rt/Ext.v differs from the wording of X.691/X.696 computed in Python",
                                              "command_line": l[:300], "model": o[:300], "expected": exp[:300]}, no_input=True)


def run_c02(run, rng, tier):
    t0 = time.time()
    rng = own_rng(run, 2)
    try:
        model = model_build()
        spec_part(run, model, rng, tier)
        mods, tb = build(run, rng, tier, "extc02")
        cases = model_encode(model, make_cases(mods, rng, tier))
    except (BuildError, RuntimeError) as e:
        run.violation("ext:build", {"what": str(e)[-2500:]}, no_input=True)
        return
    bym = {}
    for c in cases:
        bym.setdefault(c["m"]["name"], []).append(c)
    for m in mods:
        cs = bym.get(m["name"], [])
        if not cs or not m.get("exe"):
            continue
        lines = []
        for c in cs:
            lines += ["xcode %s der %s %s" % (c["tn"], c["der"], s) for s in ("der", "uper", "oer")]
        t1 = time.time()
        out = run_mod(run, m, lines, "ext:C02")
        TIMES["c_" + m["name"]] = round(time.time() - t1, 1)
        for i, c in enumerate(cs):
            run.count("ext_" + c["cat"].split(":")[0])
            for j, s in enumerate(("der", "uper", "oer")):
                o, line = out[3 * i + j], lines[3 * i + j]
                run.case("ext:" + m["name"] + ":" + line[:300] + str(len(line)))
                run.count("ext_enc_" + s)
                faithful = c[s]
                std = {"der": c["der"], "uper": c["uperstd"], "oer": c["oerstd"]}[s]
                exp_f = ("OK " + faithful) if faithful != "NONE" else "ENCFAIL"
                got = o if not o.startswith("ENCFAIL") else "ENCFAIL"
                rp = replay_of(c, syntax=s, command_line=line, c=o, model=exp_f, standard=std)
                if got != exp_f and degenerate(c["x"]) and s == "oer" and got == "OK -":
                    run.known_finding(FID["empty_c02"], line[:200])
                    continue
                if got != exp_f:
                    bad = (got != "OK " + std)
                    run.violation("ext:correspondence:%s" % s, dict(rp, what="C encoder output differs from the model of the C" + (" and from the standard" if bad else "")),
                                  no_input=not bad)
                    continue
                if std != faithful:
                    if c["x"].get("std_ety") and s in ("uper", "oer"):
                        run.known_finding(FID["vb_c02"], line[:200])
                    elif s == "uper" and has_semi(c):
                        run.known_finding("C02-uper-semiconstrained", line[:200])
                    else:
                        run.violation("ext:oracle:%s" % s, dict(rp, what="bytes differ from the standard encoding"))
        if cs:
            run.sample({"ext_type": cs[0]["x"]["ety"][:120], "value": cs[0]["vs"][:80], "uper": cs[0]["uper"][:60], "oer": cs[0]["oer"][:60]})
    run.count("ext_wall_s", int(time.time() - t0))


# ---------------------------------------------------------------- C01

def classify_rt(run, c, line, out):
    for part in out.split():
        if "=" not in part:
            run.violation("ext:oracle:roundtrip", replay_of(c, what="unexpected driver output", command_line=line, c=out))
            return
        syn, st = part.split("=", 1)
        run.count("ext_rt_%s_%s" % (syn, st.split(":")[0]))
        if st == "OK":
            continue
        f = st.split(":")
        if syn == "xer" and len(f) == 3 and f[0] == "DEC" and f[1] == "OK" and "/" in f[2] and int(f[2].split("/")[0]) + 1 == int(f[2].split("/")[1]):
            run.known_finding(FID["xernl"], line[:200])
            continue
        if syn == "cper" and st.startswith("ENCFAIL") and has_semi(c, lb_only=True):
            run.known_finding("C01-uper-semiconstrained-lb", line[:200])
            continue
        run.violation("ext:oracle:roundtrip(%s)" % syn, replay_of(c, what="encode-then-decode does not return the value: " + st, command_line=line, c=out))


def dec_ok(o, nbytes, der):
    return o.startswith("OK %d %s ck=" % (nbytes, der))


def run_c01(run, rng, tier):
    t0 = time.time()
    rng = own_rng(run, 1)
    try:
        model = model_build()
        mods, tb = build(run, rng, tier, "extc01")
        cases = model_encode(model, make_cases(mods, rng, tier))
        model_decode(model, cases, rng)
    except (BuildError, RuntimeError) as e:
        run.violation("ext:build", {"what": str(e)[-2500:]}, no_input=True)
        return
    bym = {}
    for c in cases:
        bym.setdefault(c["m"]["name"], []).append(c)
    for m in mods:
        cs = bym.get(m["name"], [])
        if not cs or not m.get("exe"):
            continue
        lines, meta = [], []

        def q(kind, c, line, extra=None):
            lines.append(line)
            meta.append((kind, c, extra))

        for c in cs:
            q("rt", c, "rt %s der %s" % (c["tn"], c["der"]))
            q("enc", c, "xcode %s der %s uper" % (c["tn"], c["der"]), "uper")
            q("enc", c, "xcode %s der %s oer" % (c["tn"], c["der"]), "oer")
            for s, key in (("ber", "der"), ("uper", "uper"), ("oer", "oer")):
                if c[key] != "NONE":
                    q("dec", c, "dec %s %s %s" % (c["tn"], s, c[key]), (s, key))
            if c["uper"] != "NONE" and c["oer"] != "NONE" and not degenerate(c["x"]):
                if has_setof(c):
                    q("chain", c, "xcode %s uper %s der" % (c["tn"], c["uper"]), c["der"])
                else:
                    q("chain", c, "xcode %s uper %s oer" % (c["tn"], c["uper"]), c["oer"])
                q("chain", c, "xcode %s oer %s der" % (c["tn"], c["oer"]), c["der"])
                q("chain", c, "xcode %s oer %s uper" % (c["tn"], c["oer"]), c["uper"])
            for t in c["tr"]:
                if t["tv"] is not None or c["x"]["kind"] == "seq":
                    q("tr", c, "dec %s ber %s" % (t["tn"], c["der"]), (t, "ber"))
                if c["uper"] != "NONE" and c["uper"] == c["uperstd"]:
                    q("tr", c, "dec %s uper %s" % (t["tn"], c["uper"]), (t, "uper"))
                if c["oer"] != "NONE":
                    q("tr", c, "dec %s oer %s" % (t["tn"], c["oer"]), (t, "oer"))
        t1 = time.time()
        out = run_mod(run, m, lines, "ext:C01")
        TIMES["c_" + m["name"]] = round(time.time() - t1, 1)
        for (kind, c, extra), line, o in zip(meta, lines, out):
            run.case("ext:" + m["name"] + ":" + line[:300] + str(len(line)))
            run.count("ext_" + kind)
            if kind == "rt":
                classify_rt(run, c, line, o)
            elif kind == "enc":
                exp = ("OK " + c[extra]) if c[extra] != "NONE" else "ENCFAIL"
                got = o if not o.startswith("ENCFAIL") else "ENCFAIL"
                if got != exp and degenerate(c["x"]) and extra == "oer" and got == "OK -":
                    run.known_finding(FID["empty_c01"], line[:200])
                elif got != exp:
                    run.violation("ext:correspondence:%s" % extra, replay_of(c, what="C encoder output differs from the model of the C", command_line=line, c=o, model=exp),
                                  no_input=True)
            elif kind == "dec":
                s, key = extra
                nb = len(c[key]) // 2
                if not dec_ok(o, nb, c["der"]):
                    if degenerate(c["x"]) and s == "oer" and o.startswith("OK 0 "):
                        run.known_finding(FID["empty_c01"], line[:200])
                        continue
                    run.violation("ext:correspondence:%s_dec" % s,
                                  replay_of(c, what="C decoder on the model's encoding: wrong code, consumed count or value", command_line=line, c=o,
                                            expected_prefix="OK %d %s" % (nb, c["der"]), model=c["md"].get(s)))
                    continue
                mo = c["md"].get(s)
                if mo is not None and mo != "OK %d %s" % (nb, c["vs"]) and not (has_setof(c) and mo.startswith("OK %d " % nb)):
                    run.violation("ext:model:%s_dec" % s, replay_of(c, what="the model's own decoder does not return the value it encoded (model defect)", model=mo), no_input=True)
            elif kind == "chain":
                if o != "OK " + extra:
                    run.violation("ext:oracle:transcode", replay_of(c, what="transcoding changed the value or failed", command_line=line, c=o, expected="OK " + extra))
            elif kind == "tr":
                t, s = extra
                check_truncated(run, c, t, s, line, o)
        if cs:
            run.sample({"ext_type": cs[0]["x"]["ety"][:120], "value": cs[0]["vs"][:80], "rt": "rt %s der %s" % (cs[0]["tn"], cs[0]["der"][:60])})
    run.count("ext_wall_s", int(time.time() - t0))


def check_truncated(run, c, t, s, line, o):
    """decoding with a type that knows fewer additions: the C against the model of the C (faithfulness) and against
    the standard reading (oracle: the known part comes back, everything is consumed)"""
    run.count("ext_tr_" + s)
    key = {"ber": "der", "uper": "uper", "oer": "oer"}[s]
    nb = len(c[key]) // 2
    c_ok = o.startswith("OK ")
    f = o.split()
    rp = replay_of(c, truncated_type=t["tn"], truncated_model_type=t["x"]["ety"], syntax=s, command_line=line, c=o)
    if degenerate(t["x"]):
        # the component-less SEQUENCE { ... } is not extensible for asn1c: it cannot read a newer version
        if s == "uper" or not o.startswith("OK %d " % nb):
            run.known_finding(FID["empty_c01"].replace("C01", run.prop), line[:200])
            return
    unknown_alt = t["tv"] is None          # CHOICE value of an alternative the older version does not have
    want = None if unknown_alt else "OK %d %s" % (nb, t.get("xder", "?"))
    if t.get("skip_model"):
        # large value, model decoders not run: the oracle alone (accepted, everything consumed)
        if not unknown_alt and not o.startswith("OK %d " % nb):
            run.violation("ext:oracle:truncated(%s)" % s, dict(rp, what="an older version of the type does not decode the value, or does not consume all of it"))
        return
    m0 = t.get({"ber": "ber", "uper": "uper0", "oer": "oer"}[s])
    m1 = t.get({"ber": "ber", "uper": "uper1", "oer": "oer"}[s])
    if m0 is None:
        return
    # --- faithfulness: C vs model std=0
    if m0 == "FAIL":
        agree = not c_ok
    else:
        mf = m0.split()
        agree = c_ok and len(f) >= 3 and f[1] == mf[1] and (unknown_alt or has_setof(c) or (mf[2] == t["tvs"]) == (f[2] == t.get("xder")))
    if not agree:
        spec_ok = (want is not None and o.startswith(want + " ck="))
        run.violation("ext:correspondence:truncated(%s)" % s, dict(rp, what="decoding with an older version of the type: the C and its model disagree",
                                                                  model=m0, standard=m1, expected=want), no_input=spec_ok)
        return
    # --- oracle: the standard reading
    if unknown_alt:
        return
    if o.startswith(want + " ck="):
        if m1 != "OK %d %s" % (nb, t["tvs"]) and not (has_setof(c) and m1.startswith("OK %d " % nb)):
            run.violation("ext:model:truncated(%s)" % s, dict(rp, what="the standard reading of the model does not return the known part (model defect)", standard=m1), no_input=True)
        return
    run.violation("ext:oracle:truncated(%s)" % s, dict(rp, what="an older version of the type does not get the known part of the value back, or not all octets are consumed",
                                                      expected=want, model=m0, standard=m1))


# ---------------------------------------------------------------- C03

def pad_value(c, x_big):
    """the value of an older sender as the newer type x_big reads it: the further additions absent"""
    if c["x"]["kind"] != "seq":
        return c["vs"]
    return c["vs"][:-1] + "_" * (x_big["nadd"] - c["x"]["nadd"]) + "}"


def run_c03(run, rng, tier):
    """C03 (decoders accept every valid encoding), extensible types: encodings from a NEWER sender (additions the
    reader does not know are skipped) and from an OLDER sender (presence bitmap / addition count shorter than the
    reader's list of additions: the missing ones are absent)"""
    t0 = time.time()
    rng = own_rng(run, 3)
    try:
        model = model_build()
        mods, tb = build(run, rng, tier, "extc03")
        cases = make_cases(mods, rng, tier)
        if tier == "quick":
            cases = [c for c in cases if not c["cat"].startswith("size") or int(c["cat"].split(":")[1]) <= 20000]
        cases = model_encode(model, cases)
        model_decode(model, cases, rng)
    except (BuildError, RuntimeError) as e:
        run.violation("ext:build", {"what": str(e)[-2500:]}, no_input=True)
        return
    # older sender -> newer readers of the same family
    mlines, mslots = [], []
    for c in cases:
        m = c["m"]
        fam = sorted([tn for tn in m["x"] if m["x"][tn]["family"] == c["x"]["family"] and m["x"][tn]["nadd"] > c["x"]["nadd"]],
                     key=lambda tn: m["x"][tn]["nadd"])
        c["old"] = []
        if not fam or len(c["der"]) // 2 > BIG:
            continue
        pick = sorted(set([fam[0], fam[-1], rng.choice(fam)]), key=fam.index)
        for tn2 in pick:
            x2 = m["x"][tn2]
            o = {"tn": tn2, "x": x2, "pvs": pad_value(c, x2)}
            c["old"].append(o)
            e2 = x2["ety"]
            for key, line in (("xder", "xder %s %s" % (e2, o["pvs"])), ("ber", "xberdec %s %s" % (e2, c["der"])),
                              ("uper0", "xuperdec 0 %s %s" % (e2, c["uper"])), ("uper1", "xuperdec 1 %s %s" % (e2, c["uper"])),
                              ("oer", "xoerdec %s %s" % (e2, c["oer"]))):
                if key.startswith("uper") and (c["uper"] == "NONE" or c["uper"] != c["uperstd"]):
                    continue
                if key.startswith("oer") and c["oer"] == "NONE":
                    continue
                mlines.append(line)
                mslots.append((o, key))
    out = model_lines(model, mlines, "older")
    for (o, key), r in zip(mslots, out):
        o[key] = r
    bym = {}
    for c in cases:
        bym.setdefault(c["m"]["name"], []).append(c)
    for m in mods:
        cs = bym.get(m["name"], [])
        if not cs or not m.get("exe"):
            continue
        lines, meta = [], []
        for c in cs:
            for t in c["tr"]:
                if t["tv"] is not None or c["x"]["kind"] == "seq":
                    lines.append("dec %s ber %s" % (t["tn"], c["der"])); meta.append(("tr", c, (t, "ber")))
                if c["uper"] != "NONE" and c["uper"] == c["uperstd"]:
                    lines.append("dec %s uper %s" % (t["tn"], c["uper"])); meta.append(("tr", c, (t, "uper")))
                if c["oer"] != "NONE":
                    lines.append("dec %s oer %s" % (t["tn"], c["oer"])); meta.append(("tr", c, (t, "oer")))
            for o in c["old"]:
                for s, key in (("ber", "der"), ("uper", "uper"), ("oer", "oer")):
                    if (s + ("0" if s == "uper" else "")) in o:
                        lines.append("dec %s %s %s" % (o["tn"], s, c[key])); meta.append(("old", c, (o, s, key)))
        if not lines:
            continue
        t1 = time.time()
        out = run_mod(run, m, lines, "ext:C03")
        TIMES["c_" + m["name"]] = round(time.time() - t1, 1)
        for (kind, c, extra), line, o in zip(meta, lines, out):
            run.case("ext:" + m["name"] + ":" + line[:300] + str(len(line)))
            if kind == "tr":
                t, s = extra
                check_truncated(run, c, t, s, line, o)
                continue
            od, s, key = extra
            run.count("ext_old_" + s)
            nb = len(c[key]) // 2
            want = "OK %d %s" % (nb, od["xder"])
            rp = replay_of(c, newer_type=od["tn"], newer_model_type=od["x"]["ety"], syntax=s, command_line=line, c=o, expected=want)
            m0 = od.get("uper0" if s == "uper" else s)
            m1 = od.get("uper1" if s == "uper" else s)
            mwant = "OK %d %s" % (nb, od["pvs"])
            for mm, nm in ((m0, "model of the C"), (m1, "standard reading of the model")):
                if mm != mwant and not (has_setof(c) and mm.startswith("OK %d " % nb)):
                    run.violation("ext:model:older-sender(%s)" % s, dict(rp, what="the %s does not read an older sender's encoding as the value with the further additions absent (model defect)" % nm, model=mm, model_expected=mwant), no_input=True)
            if not o.startswith(want + " ck="):
                run.violation("ext:oracle:older-sender(%s)" % s,
                              dict(rp, what="a valid encoding from an older version of the type (fewer additions than the reader knows) is not decoded to the value with the missing additions absent", model=m0))
    run.count("ext_wall_s", int(time.time() - t0))
