"""prima_layer — the ENUMERATED / BIT STRING layer of checks C01, C02 and C03 (model: coq/Rt/PrimA.v,
theorems: coq/Rt/PrimAProofs.v, front end: ocaml/drv_prima.ml, generator: lib/primagen.py).  Hooked into
checks/c01.py, c02.py, c03.py by one call each:
    prima_layer.run_c01(run, rng, tier)   prima_layer.run_c02(run, rng, tier)   prima_layer.run_c03(run, rng, tier)
Nothing is drawn from the caller's rng; the layer derives its own stream from run.seed.

Values reach the C as XER text (`xcode T xer <hex> <syn>`): the XER decoder shares nothing with the BER / PER / OER
decoders (ENUMERATED: the enum2value name map instead of value2enum), so a decoder defect cannot mask an encoder defect.
Per case (module, type, value):
  C02  the C encoders (DER, UPER, OER) against the model of the C (std=0: faithfulness) and against the model's
       spec_* reading (std=1: X.690 / X.691 / X.696, the property oracle), byte for byte; the spec functions
       themselves against the wording computed here in Python (independent of the Coq text);
  C01  the round-trip battery on the C alone (rt); the C decoders on the model's bytes (code, consumed = all, DER of
       the result) against the model's own decoders; the value must come back (oracle);
  C03  the C decoders on the STANDARD encodings (std=1 bytes), on BER with a long-form length, and on the BASIC-PER
       reading of a NamedBitList type that keeps its trailing zero bits: accepted, everything consumed, the value.
Known findings are classified by narrow predicates on (type, value); everything else is a violation.
Violation kinds are prefixed `prima:`."""
import os, time
from vlib import *
from modbuild import *
from modcorpus import run_mod
from ext_layer import model_lines
import primagen
from primagen import leaf_of

TIMES = {}


def own_rng(run, salt):
    return Rng(run.seed * 1000003 + 7000 + salt)


# ---------------------------------------------------------------- findings: narrow predicates

def constrained(hi):
    return hi is not None and hi < 65536


def leaf_facts(tree, v):
    """the known deviations a (leaf type, leaf value) pair runs into"""
    lf = leaf_of(tree)
    out = set()
    if lf is None:
        return out
    if lf[0] == "E":
        root, ext, adds = lf[2], lf[3], lf[4]
        if ext and adds and min(adds) < max(root):
            # value2enum is sorted over root AND additional items: the index of every item above the smallest
            # misplaced additional value is off
            z = v[1]
            table = sorted(root + adds)
            i = table.index(z)
            std = (False, sorted(root).index(z)) if z in root else (True, adds.index(z))
            c = (False, i) if i < len(root) else (True, i - len(root))
            if std != c:
                out.add("enum_below")
        return out
    lo, hi, ext = lf[2]
    named = lf[3]
    bits = v[1]
    n = len(bits)
    sn = len(bits.rstrip("0"))
    if named:
        if bits.endswith("0"):
            out.add("named_trail0")               # DER keeps the trailing zero bits (X.690 11.2.2)
        if not constrained(hi) and sn < lo:
            out.add("named_lb_unpadded")          # UPER: stripped below the lower bound, no zero bits added back
        if constrained(hi) and sn < lo and n != lo:
            out.add("named_padded")               # UPER adds zero bits up to lb (X.691 16.3): same abstract value, other DER (rt battery only)
    else:
        if bits.endswith("0") and (not constrained(hi) or n > lo):
            out.add("trail0")                     # UPER strips the trailing zero bits of every BIT STRING
        if ext and n < lo:
            out.add("ext_below_lb")               # UPER: a length below lb is never sent as an extension (ub < 64K: zero bits added up to lb)
    return out


def case_facts(c):
    tree, v = c["tree"], c["v"]
    out = set()
    if tree[0] == "Q":
        for (o, e), x in zip(tree[2], v[1]):
            if x != primagen.ABSENT:
                out |= leaf_facts(e, x)
    elif tree[0] == "F":
        for x in v[1]:
            out |= leaf_facts(tree[3], x)
    else:
        out |= leaf_facts(tree, v)
    return out


# what each fact explains, per syntax, and the finding it belongs to
FACT_FID = {
    ("uper", "trail0"): "uper-bitstring-trailing-zero",
    ("uper", "ext_below_lb"): "uper-bitstring-ext-below-lb",
    ("uper", "named_lb_unpadded"): "uper-bitstring-named-lb-unpadded",
    ("uper", "enum_below"): "uper-enum-additional-below-root",
    ("der", "named_trail0"): "der-bitstring-named-trailing-zero",
    ("der", "dbl_tag"): "explicit-tag-enum-member",
}


def explain(run, c, syn, line):
    """a known finding that explains a difference in syntax syn, or None"""
    for f in sorted(c["facts"]):
        fid = FACT_FID.get((syn, f))
        if fid:
            run.known_finding("%s-%s" % (run.prop, fid), line[:200])
            return fid
    return None


# ---------------------------------------------------------------- cases

def build(run, rng, tier, tag):
    t0 = time.time()
    mods = primagen.gen_modules(rng, tier)
    inc = os.path.join(HARNESS, "moddrv_prima.inc")
    build_asn1c(); build_skeleton_lib(True)          # shared, cached: before the two builds run side by side
    plain = [m for m in mods if not m.get("opts")]
    wide = [m for m in mods if m.get("opts")]
    from concurrent.futures import ThreadPoolExecutor
    with ThreadPoolExecutor(max_workers=2) as ex:
        f1 = ex.submit(build_modules, plain, tag=tag, moddrv_extra=inc)
        f2 = ex.submit(build_modules, wide, tag=tag + "w", opts=wide[0]["opts"], moddrv_extra=inc) if wide else None
        f1.result()
        if f2:
            f2.result()
    for m in mods:
        if not m.get("exe"):
            run.violation("prima:build:module", {"what": "asn1c rejected a valid module of ENUMERATED / BIT STRING types or its output does not compile",
                                                 "module": m["text"], "asn1c_rc": m.get("asn1c_rc"), "asn1c_out": (m.get("asn1c_out") or "")[-1500:],
                                                 "build_log": (m.get("build_log") or "")[-1500:]})
    run.count("prima_modules", len(mods))
    TIMES["build"] = round(time.time() - t0, 1)
    return mods


def make_cases(mods, rng, tier):
    cases = []
    for m in mods:
        if not m.get("exe"):
            continue
        for tn, _ in m["defs"]:
            if tn not in m["p"]:
                continue
            p = m["p"][tn]
            for v in primagen.type_values(m, tn, rng, tier):
                c = {"m": m, "tn": tn, "tree": p["tree"], "pty": p["pty"], "v": v, "vs": primagen.pval_str(p["tree"], v),
                     "xer": primagen.xer_text(tn, p["t"], v, m["env"]).encode().hex()}
                c["facts"] = case_facts(c)
                if p.get("dbl_tag"):
                    c["facts"].add("dbl_tag")     # inline ENUMERATED member under an EXPLICIT tag: the tag is written (and demanded) twice
                c["cat"] = {"E": "enum", "B": "bits", "G": "tagged", "Q": "seq", "F": "seqof"}[p["tree"][0]]
                cases.append(c)
    return cases


def model_encode(model, cases):
    lines = []
    for c in cases:
        for cmd in ("pder", "puper", "poer"):
            for std in (0, 1):
                lines.append("%s %d %s %s" % (cmd, std, c["pty"], c["vs"]))
    out = model_lines(model, lines, "prima-encode")
    for i, c in enumerate(cases):
        c["der"], c["der1"], c["uper"], c["uper1"], c["oer"], c["oer1"] = out[6 * i:6 * i + 6]
    return cases


def model_decode(model, cases, inputs):
    """inputs: list of (key, syntax, case-field with the bytes); runs the model's decoders, then re-encodes what they
    return in DER (std 0 and 1): c["md"][key] = (decoder line, value string | None, der0, der1)"""
    lines, slots = [], []
    for c in cases:
        c.setdefault("md", {})
        for key, syn, field in inputs:
            h = c.get(field)
            if not h or h == "NONE":
                continue
            cmd = {"ber": "pberdec %s %s", "uper": "puperdec 0 %s %s", "oer": "poerdec %s %s"}[syn] % (c["pty"], h)
            lines.append(cmd)
            slots.append((c, key, len(h) // 2))
    out = model_lines(model, lines, "prima-decode")
    lines2, slots2 = [], []
    for (c, key, nb), o in zip(slots, out):
        f = o.split()
        if f[0] == "OK":
            c["md"][key] = {"out": o, "n": int(f[1]), "vs": f[2]}
            if f[2] == c["vs"]:
                c["md"][key]["der"], c["md"][key]["der1"] = c["der"], c["der1"]
            else:
                lines2 += ["pder 0 %s %s" % (c["pty"], f[2]), "pder 1 %s %s" % (c["pty"], f[2])]
                slots2.append(c["md"][key])
        else:
            c["md"][key] = {"out": o, "n": None, "vs": None}
    out2 = model_lines(model, lines2, "prima-reencode") if lines2 else []
    for i, d in enumerate(slots2):
        d["der"], d["der1"] = out2[2 * i], out2[2 * i + 1]


def replay_of(case, **kw):
    c = case
    d = {"module": c["m"]["text"], "type": c["tn"], "model_type": c["pty"], "value": c["vs"][:3000], "xer": bytes.fromhex(c["xer"]).decode()[:3000],
         "category": c["cat"], "facts": sorted(c["facts"])}
    d.update(kw)
    for k in list(d):
        if isinstance(d[k], str) and len(d[k]) > 6000:
            d[k] = d[k][:3000] + "...(%d chars)..." % len(d[k]) + d[k][-600:]
    return d


def by_module(cases):
    bym = {}
    for c in cases:
        bym.setdefault(c["m"]["name"], []).append(c)
    return bym


# ---------------------------------------------------------------- the wording, computed here

def py_nsnnwn(n):
    if n <= 63:
        return "0" + format(n, "06b")
    nb = (n.bit_length() + 7) // 8
    return "1" + format(nb, "08b") + format(n, "0%db" % (8 * nb))


def py_length(n):
    """general length determinant of X.691 11.9.3.5-8 as a list of (header bits, count) fragments"""
    out = []
    while n >= 16384:
        k = min(n // 16384, 4)
        out.append((format(0xC0 | k, "08b"), k * 16384))
        n -= k * 16384
    out.append((format(n, "08b") if n <= 127 else format(0x8000 | n, "016b"), n))
    return out


def py_general(bits):
    out, pos = "", 0
    for hdr, k in py_length(len(bits)):
        out += hdr + bits[pos:pos + k]
        pos += k
    return out


def py_enum_uper(lf, z):
    root, ext, adds = lf[2], lf[3], lf[4]
    if z in root:
        i = sorted(root).index(z)
        w = (len(root) - 1).bit_length()
        return ("0" if ext else "") + (format(i, "0%db" % w) if w else "")
    return "1" + py_nsnnwn(adds.index(z))


def py_bits_uper(lf, bits):
    lo, hi, ext = lf[2]
    if lf[3]:
        bits = bits.rstrip("0")
        if len(bits) < lo:
            bits += "0" * (lo - len(bits))
    n = len(bits)
    if n >= lo and (hi is None or n <= hi):
        pre = "0" if ext else ""
        if constrained(hi):
            w = (hi - lo).bit_length()
            return pre + (format(n - lo, "0%db" % w) if w else "") + bits
        return pre + py_general(bits)
    return "1" + py_general(bits)


def py_enum_oer(z):
    if 0 <= z <= 127:
        return bytes([z])
    k = 1
    while not (-(1 << (8 * k - 1)) <= z < (1 << (8 * k - 1))):
        k += 1
    return bytes([0x80 | k]) + (z % (1 << (8 * k))).to_bytes(k, "big")


def pack(bits):
    bits = bits + "0" * (-len(bits) % 8)
    return bytes(int(bits[i:i + 8], 2) for i in range(0, len(bits), 8))


def py_oer_len(n):
    if n <= 127:
        return bytes([n])
    k = (n.bit_length() + 7) // 8
    return bytes([0x80 | k]) + n.to_bytes(k, "big")


def py_bits_oer(lf, bits):
    lo, hi, ext = lf[2]
    if hi is not None and lo == hi and not ext:
        return pack(bits)
    body = pack(bits)
    return py_oer_len(1 + len(body)) + bytes([-len(bits) % 8]) + body


def py_der_len(n):
    if n <= 127:
        return bytes([n])
    k = (n.bit_length() + 7) // 8
    return bytes([0x80 | k]) + n.to_bytes(k, "big")


def py_tag(tg, constructed):
    cls, num = tg % 4, tg // 4
    first = (cls << 6) | (0x20 if constructed else 0)
    if num < 31:
        return bytes([first | num])
    out = [num & 0x7F]
    num >>= 7
    while num:
        out.append(0x80 | (num & 0x7F))
        num >>= 7
    return bytes([first | 31] + out[::-1])


def py_leaf_der(tree, v):
    """X.690 DER of a leaf under its explicit tags"""
    if tree[0] == "G":
        inner = py_leaf_der(tree[2], v)
        return py_tag(tree[1], True) + py_der_len(len(inner)) + inner
    if tree[0] == "E":
        z = v[1]
        k = 1
        while not (-(1 << (8 * k - 1)) <= z < (1 << (8 * k - 1))):
            k += 1
        content = (z % (1 << (8 * k))).to_bytes(k, "big")
    else:
        bits = v[1].rstrip("0") if tree[3] else v[1]
        content = bytes([-len(bits) % 8]) + pack(bits)
    return py_tag(tree[1], False) + py_der_len(len(content)) + content


def wording_check(run, c):
    """top-level leaves: the model's spec_* (std=1) outputs against the standards' wording computed in Python"""
    tree = c["tree"]
    lf = leaf_of(tree)
    if lf is None or tree[0] in ("Q", "F"):
        return
    v = c["v"]
    if lf[0] == "E":
        ubits, oer = py_enum_uper(lf, v[1]), py_enum_oer(v[1])
    else:
        ubits, oer = py_bits_uper(lf, v[1]), py_bits_oer(lf, v[1])
    exp = {"uper1": (pack(ubits) or b"\0").hex(), "oer1": oer.hex() or "-", "der1": py_leaf_der(tree, v).hex()}
    for k, e in exp.items():
        run.count("prima_wording")
        if c[k] != e:
            run.violation("prima:spec:" + k, replay_of(c, what="specification function of coq/Rt/PrimA.v differs from the wording of X.690/X.691/X.696 computed in Python",
                                                       model=c[k], expected=e), no_input=True)


# ---------------------------------------------------------------- C02

SYN = (("der", "der", "der1"), ("uper", "uper", "uper1"), ("oer", "oer", "oer1"))


def compare_encoders(run, c, m, lines, outs, prefix):
    """C encoder outputs against the model of the C and against the standard reading"""
    for (syn, k0, k1), line, o in zip(SYN, lines, outs):
        run.case("prima:" + m["name"] + ":" + line[:300] + str(len(line)))
        run.count("prima_enc_" + syn)
        faithful, std = c[k0], c[k1]
        exp_f = ("OK " + faithful) if faithful != "NONE" else "ENCFAIL"
        got = o if not o.startswith("ENCFAIL") else "ENCFAIL"
        rp = replay_of(c, syntax=syn, command_line=line[:3000], c=o, model=exp_f, standard=std)
        if got != exp_f and syn == "der" and "dbl_tag" in c["facts"]:
            explain(run, c, syn, line)
            continue
        if got != exp_f:
            bad = (got != "OK " + std)
            run.violation("prima:correspondence:%s" % syn, dict(rp, what="C encoder output differs from the model of the C" + (" and from the standard" if bad else "")),
                          no_input=not bad)
            continue
        if std != faithful and prefix == "C02":
            if not explain(run, c, syn, line):
                run.violation("prima:oracle:%s" % syn, dict(rp, what="bytes differ from the standard encoding"))


def constructor_lines(c):
    """top-level leaves built directly in the C representation (harness/moddrv_prima.inc); a BIT STRING whose bit count
    is not a multiple of 8 also with junk in the unused bits of its last octet: the encodings must not change
    (X.690 11.2.1, X.691 16, X.696 13: the pad bits are zero)"""
    t, v = c["tree"], c["v"]
    if t[0] == "E":
        return [("ctor", "penum %s %d %%s" % (c["tn"], v[1]))]
    if t[0] == "B":
        out = [("ctor", "pbits %s %s 0 %%s" % (c["tn"], v[1] or "-"))]
        if len(v[1]) % 8:
            out.append(("dirty", "pbits %s %s 1 %%s" % (c["tn"], v[1])))
        return out
    return []


def constructor_part(run, m, cs):
    lines, meta = [], []
    for c in cs:
        for kind, tmpl in constructor_lines(c):
            if kind == "ctor" and c["cat"] == "bits" and len(c["v"][1]) > 64 and len(c["v"][1]) % 8 == 0:
                continue
            for syn, k0, k1 in SYN:
                lines.append(tmpl % syn)
                meta.append((kind, c, syn, k0))
    if not lines:
        return
    out = run_mod(run, m, lines, "prima:" + run.prop + ":ctor")
    for (kind, c, syn, k0), line, o in zip(meta, lines, out):
        run.case("prima:" + m["name"] + ":" + line[:300] + str(len(line)))
        run.count("prima_%s_%s" % (kind, syn))
        exp = ("OK " + c[k0]) if c[k0] != "NONE" else "ENCFAIL"
        got = o if not o.startswith("ENCFAIL") else "ENCFAIL"
        if got != exp:
            what = ("a BIT STRING with junk in the unused bits of its last octet is encoded differently (the pad bits of an encoding are zero)"
                    if kind == "dirty" else "C encoder output on a directly constructed value differs from the model of the C")
            run.violation("prima:%s:%s" % ("oracle:dirty-unused-bits" if kind == "dirty" else "correspondence:ctor", syn),
                          replay_of(c, syntax=syn, command_line=line[:3000], c=o[:3000], model=exp[:3000], what=what), no_input=(kind != "dirty"))


def run_c02(run, rng, tier):
    t0 = time.time()
    rng = own_rng(run, 2)
    try:
        model = model_build()
        mods = build(run, rng, tier, "primac02")
        cases = model_encode(model, make_cases(mods, rng, tier))
    except (BuildError, RuntimeError) as e:
        run.violation("prima:build", {"what": str(e)[-2500:]}, no_input=True)
        return
    for c in cases:
        wording_check(run, c)
    bym = by_module(cases)
    for m in mods:
        cs = bym.get(m["name"], [])
        if not cs:
            continue
        lines = []
        for c in cs:
            lines += ["xcode %s xer %s %s" % (c["tn"], c["xer"], s) for s in ("der", "uper", "oer")]
        out = run_mod(run, m, lines, "prima:C02")
        for i, c in enumerate(cs):
            run.count("prima_" + c["cat"])
            compare_encoders(run, c, m, lines[3 * i:3 * i + 3], out[3 * i:3 * i + 3], "C02")
        constructor_part(run, m, cs)
        run.sample({"prima_type": cs[0]["pty"][:120], "value": cs[0]["vs"][:80], "uper": cs[0]["uper"][:60], "oer": cs[0]["oer"][:60]})
    run.count("prima_wall_s", int(time.time() - t0))


# ---------------------------------------------------------------- C01

def classify_rt(run, c, line, out):
    for part in out.split():
        if "=" not in part:
            run.violation("prima:oracle:roundtrip", replay_of(c, what="unexpected driver output", command_line=line[:3000], c=out))
            return
        syn, st = part.split("=", 1)
        run.count("prima_rt_%s_%s" % (syn, st.split(":")[0]))
        if st == "OK":
            continue
        f = st.split(":")
        if syn == "xer" and len(f) == 3 and f[0] == "DEC" and f[1] == "OK" and "/" in f[2] and int(f[2].split("/")[0]) + 1 == int(f[2].split("/")[1]):
            run.known_finding("C01-xer-trailing-newline", line[:200])
            continue
        if syn == "cper" and st in ("NEQ", "CMP"):
            # the value UPER carries differs from the value given: the known UPER deviations on BIT STRING; for a
            # NamedBitList type the difference is only in trailing zero bits (same abstract value), visible because
            # the DER encoder does not remove them
            fid = None
            for fct, name in (("trail0", "uper-bitstring-trailing-zero"), ("ext_below_lb", "uper-bitstring-ext-below-lb"),
                              ("named_trail0", "der-bitstring-named-trailing-zero"), ("named_padded", "der-bitstring-named-trailing-zero")):
                if fct in c["facts"]:
                    fid = name
                    break
            if fid:
                run.known_finding("C01-" + fid, line[:200])
                continue
        run.violation("prima:oracle:roundtrip(%s)" % syn, replay_of(c, what="encode-then-decode does not return the value: " + st, command_line=line[:3000], c=out))


def check_decoder(run, c, m, key, syn, field, line, o, oracle):
    """one C decoder run on bytes the model produced: faithfulness against the model's own decoder, then the oracle
    oracle(c, md) -> None (fine) | text (what is wrong)"""
    run.case("prima:" + m["name"] + ":" + line[:300] + str(len(line)))
    run.count("prima_dec_" + syn)
    md = c["md"].get(key)
    nb = len(c[field]) // 2
    rp = replay_of(c, syntax=syn, command_line=line[:3000], c=o[:3000], model=md and md["out"][:3000], input_kind=key)
    c_ok = o.startswith("OK ")
    if md is None:
        return
    if md["vs"] is None:
        agree = not c_ok
    else:
        agree = o.startswith("OK %d %s ck=" % (md["n"], md["der"]))
    wrong = oracle(c, md, nb)
    if not agree and "dbl_tag" in c["facts"]:          # the DER of the result shows the doubled tag, whatever was decoded
        explain(run, c, "der", line)
        return
    if not agree:
        run.violation("prima:correspondence:%s_dec" % syn, dict(rp, what="C decoder and its model disagree (code, consumed count or value)",
                                                                 expected=md["vs"] and "OK %d %s" % (md["n"], md["der"])),
                      no_input=o.startswith("OK %d %s ck=" % (nb, c["der"])))     # the C itself satisfies the oracle: only the model is off
        return
    if wrong:
        if not explain(run, c, syn if syn != "ber" else "der", line):
            run.violation("prima:oracle:%s_dec" % syn, dict(rp, what=wrong))


def same_value(c, md, nb):
    if md["vs"] is None:
        return "the encoding the encoder produced is rejected"
    if md["n"] != nb:
        return "not all octets of the encoding are consumed"
    if md["der1"] != c["der1"]:
        # compared through the X.690 reading of DER: injective on values, and blind to the trailing zero bits of a
        # NamedBitList value (which are not part of the abstract value, X.680 22.7)
        return "the decoder returns another value than the one encoded"
    return None


def run_c01(run, rng, tier):
    t0 = time.time()
    rng = own_rng(run, 1)
    try:
        model = model_build()
        mods = build(run, rng, tier, "primac01")
        cases = model_encode(model, make_cases(mods, rng, tier))
        inputs = (("own_ber", "ber", "der"), ("own_uper", "uper", "uper"), ("own_oer", "oer", "oer"))
        model_decode(model, cases, inputs)
    except (BuildError, RuntimeError) as e:
        run.violation("prima:build", {"what": str(e)[-2500:]}, no_input=True)
        return
    bym = by_module(cases)
    for m in mods:
        cs = bym.get(m["name"], [])
        if not cs:
            continue
        lines, meta = [], []
        for c in cs:
            lines.append("rt %s xer %s" % (c["tn"], c["xer"])); meta.append(("rt", c, None))
            for s in ("der", "uper", "oer"):
                lines.append("xcode %s xer %s %s" % (c["tn"], c["xer"], s)); meta.append(("enc", c, s))
            for key, syn, field in inputs:
                if c[field] != "NONE":
                    lines.append("dec %s %s %s" % (c["tn"], syn, c[field])); meta.append(("dec", c, (key, syn, field)))
        out = run_mod(run, m, lines, "prima:C01")
        i = 0
        while i < len(lines):
            kind, c, extra = meta[i]
            if kind == "rt":
                run.case("prima:" + m["name"] + ":" + lines[i][:300] + str(len(lines[i])))
                run.count("prima_" + c["cat"])
                classify_rt(run, c, lines[i], out[i])
                i += 1
            elif kind == "enc":
                compare_encoders(run, c, m, lines[i:i + 3], out[i:i + 3], "C01")
                i += 3
            else:
                key, syn, field = extra
                check_decoder(run, c, m, key, syn, field, lines[i], out[i], same_value)
                i += 1
        run.sample({"prima_type": cs[0]["pty"][:120], "value": cs[0]["vs"][:80], "rt": ("rt %s xer %s" % (cs[0]["tn"], cs[0]["xer"]))[:120]})
    run.count("prima_wall_s", int(time.time() - t0))


# ---------------------------------------------------------------- C03

def long_form(h):
    """the same BER TLV with its (short) outer length rewritten in the long form 81 nn"""
    b = bytes.fromhex(h)
    i = 1
    if b[0] & 0x1F == 0x1F:
        while b[i] & 0x80:
            i += 1
        i += 1
    if b[i] >= 0x80:
        return None
    return (b[:i] + bytes([0x81, b[i]]) + b[i + 1:]).hex()


def plain_pty(tree):
    """the type with every NamedBitList forgotten (BASIC-PER may keep trailing zero bits: X.691 16.2 note / 11.2.2 is DER only)"""
    k = tree[0]
    if k == "B":
        return (k, tree[1], tree[2], False)
    if k == "G":
        return (k, tree[1], plain_pty(tree[2]))
    if k == "Q":
        return (k, tree[1], [(o, plain_pty(e)) for o, e in tree[2]])
    if k == "F":
        return (k, tree[1], tree[2], plain_pty(tree[3]))
    return tree


def accepted_value(c, md, nb):
    """the decoder accepts the valid encoding, consumes it, and returns the value (a NamedBitList value up to trailing
    zero bits: compared through the X.690 reading of DER, which removes them)"""
    if md["vs"] is None:
        return "a valid encoding is rejected"
    if md["n"] != nb:
        return "not all octets of a valid encoding are consumed"
    if md["der1"] != c["der1"]:
        return "a valid encoding is decoded to another value"
    return None


def run_c03(run, rng, tier):
    t0 = time.time()
    rng = own_rng(run, 3)
    try:
        model = model_build()
        mods = build(run, rng, tier, "primac03")
        cases = model_encode(model, make_cases(mods, rng, tier))
        # further valid encodings: long-form outer length (BER); NamedBitList types read without the list (trailing zeros kept)
        lines, slots = [], []
        for c in cases:
            c["berlong"] = long_form(c["der1"]) if c["der1"] != "NONE" else None
            if "named_trail0" in c["facts"]:
                pp = primagen.pty_str(plain_pty(c["tree"]))
                lines += ["puper 1 %s %s" % (pp, c["vs"]), "pder 1 %s %s" % (pp, c["vs"])]
                slots.append(c)
        out = model_lines(model, lines, "prima-variants") if lines else []
        for i, c in enumerate(slots):
            c["uperkeep"], c["berkeep"] = out[2 * i], out[2 * i + 1]
        inputs = (("std_ber", "ber", "der1"), ("std_uper", "uper", "uper1"), ("std_oer", "oer", "oer1"),
                  ("long_ber", "ber", "berlong"), ("keep_uper", "uper", "uperkeep"), ("keep_ber", "ber", "berkeep"))
        model_decode(model, cases, inputs)
    except (BuildError, RuntimeError) as e:
        run.violation("prima:build", {"what": str(e)[-2500:]}, no_input=True)
        return
    bym = by_module(cases)
    for m in mods:
        cs = bym.get(m["name"], [])
        if not cs:
            continue
        lines, meta = [], []
        for c in cs:
            for key, syn, field in inputs:
                if c.get(field) and c[field] != "NONE":
                    lines.append("dec %s %s %s" % (c["tn"], syn, c[field])); meta.append((c, key, syn, field))
        out = run_mod(run, m, lines, "prima:C03")
        for (c, key, syn, field), line, o in zip(meta, lines, out):
            run.count("prima_" + key)
            check_decoder(run, c, m, key, syn, field, line, o, accepted_value)
        run.sample({"prima_type": cs[0]["pty"][:120], "value": cs[0]["vs"][:80], "uper_std": cs[0]["uper1"][:60]})
    run.count("prima_wall_s", int(time.time() - t0))


# ---------------------------------------------------------------- C06 (canonical encodings)

def run_c06(run, rng, tier):
    """canonical encodings do not depend on what the application's buffer holds in the unused bits of the last octet
    of a BIT STRING: the directly constructed values of module PB, clean and with junk there, through DER / canonical
    UPER / canonical OER against the model (every SIZE regime)"""
    t0 = time.time()
    rng = own_rng(run, 6)
    try:
        model = model_build()
        real = primagen.gen_modules
        primagen.gen_modules = lambda r, t: [m for m in real(r, t) if m["name"] == "PB"]
        try:
            mods = build(run, rng, tier, "primac06")
        finally:
            primagen.gen_modules = real
        cases = [c for c in make_cases(mods, rng, tier) if c["cat"] == "bits" and len(c["v"][1]) % 8 and len(c["v"][1]) <= primagen.BIG]
        cases = model_encode(model, cases)
    except (BuildError, RuntimeError) as e:
        run.violation("prima:build", {"what": str(e)[-2500:]}, no_input=True)
        return
    for m in mods:
        cs = [c for c in cases if c["m"] is m]
        lines, meta = [], []
        for c in cs:
            for syn, k0 in (("der", "der"), ("cper", "uper"), ("coer", "oer")):
                lines.append("pbits %s %s 1 %s" % (c["tn"], c["v"][1], syn))
                meta.append((c, syn, k0))
        if not lines:
            continue
        out = run_mod(run, m, lines, "prima:C06")
        for (c, syn, k0), line, o in zip(meta, lines, out):
            run.case("prima:" + m["name"] + ":" + line[:300] + str(len(line)))
            run.count("prima_dirty_" + syn)
            exp = ("OK " + c[k0]) if c[k0] != "NONE" else "ENCFAIL"
            got = o if not o.startswith("ENCFAIL") else "ENCFAIL"
            if got != exp:
                run.violation("prima:oracle:dirty-unused-bits:%s" % syn,
                              replay_of(c, syntax=syn, command_line=line[:3000], c=o[:3000], model=exp[:3000],
                                        what="the canonical encoding of a BIT STRING depends on junk in the unused bits of its last octet"))
    run.count("prima_wall_s", int(time.time() - t0))
