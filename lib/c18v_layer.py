"""C18, big rows: the check of one MV* module (lib/c18v_util.py), driver commands of harness/moddrv_c18v.inc.
Per value (row kind x inner encoding length L at every fragmentation boundary x frame with the open type octet-aligned / one bit off):
 oracle (on the C alone, Python's own X.691):  UPER(C) = the standard's octets; UPER(C) decodes back, all consumed, same value;
   the standard's octets decode to the value; a stream cut at a fragment boundary never decodes;
 faithfulness: UPER(C) = OpenType.uper_frame (the extracted model; rows of the modelled algebra, aligned frame),
   and the C decodes the MODEL's octets to the value."""
import os, re
from vlib import *
from c18_util import run_resilient
from c18v_util import *
from c18v_oer import OER_BOUNDARY_L, oer_sizes_for, frame_oer, oer_len

EXTRA_V = os.path.join(HARNESS, "moddrv_c18v.inc")
BIG_RE = re.compile(r"^U (\d+) ([0-9a-f]{8}) D (\w+) (\d+) (same|diff|-) der=(\d+):([0-9a-f]{8})$")


def plan(rng, tier):
    """[(kind, n, L, flag, tail, seed, with model)]: directed boundaries first, random lengths after"""
    q = tier == "quick"
    cases = []
    for L in BOUNDARY_L:
        for kind in KINDS:
            ns = sizes_for(kind, L)
            for j, n in enumerate(ns):
                # the aligned frame for every value; the frame with the open type one bit off for the exact multiples (and all in thorough)
                flags = [-1] + ([rng.choice([0, 1])] if (L % 16384 == 0 or not q) else [])
                for flag in flags:
                    # the model driver needs ~0.25 s per 16K octets: in quick the first boundary in full, the exact multiples by the OCTET STRING row
                    # (c18uper; the exact multiples by c18vput on the BIT STRING row, see check_big)
                    model = flag < 0 and kind != "bits" and (L <= 16385 if q else True)
                    cases.append((kind, n, L, flag, rng.choice([0, 0x5a, 0x7f, 1]), 1 + rng.below(1 << 20), model))
    # small neighbours: the one-octet / two-octet determinant switch of the open type itself
    for L in (1, 2, 127, 128, 129):
        for kind in KINDS:
            for n in sizes_for(kind, L)[:1]:
                cases.append((kind, n, L, -1, 0x33, 1 + rng.below(1 << 20), kind != "bits"))
    for i in range(4 if q else 40):
        kind = rng.choice(KINDS)
        n = rng.choice([16000, 16384, 30000, 40000]) + rng.below(3000) if q else 1 + rng.below(90000)
        if kind == "bits":
            n = n * 8 - rng.below(8)
        cases.append((kind, n, inner_len(kind, n), rng.choice([-1, -1, 0, 1]), rng.below(128), 1 + rng.below(1 << 20), False))
    return cases


def check_big(run, rng, model_exe, m, tier, mrun):
    replay0 = {"module": m["text"], "options": m.get("opts")}
    if not m.get("exe"):
        run.violation("build:module", dict(replay0, what="the big-row module does not build", asn1c_out=m.get("asn1c_out", "")[-1500:],
                                           build_log=m.get("build_log", "")[-1500:]))
        return
    cases = plan(rng, tier)
    lines, exp = [], []
    for kind, n, L, flag, tail, seed, wm in cases:
        ty = "Frame" if flag < 0 else "FrameB"
        idv = ROW_ID[kind]
        lines.append("big %s %s %d %d %d %d %d" % (ty, kind, idv, n, seed, tail, flag))
        up, ol = frame_uper(kind, idv, n, seed, tail, flag)
        assert ol == L, (kind, n, L, ol)
        exp.append((up, frame_der(kind, idv, n, seed, tail, flag)))
        run.count("bigrow_%s_L%s" % (kind, L if L in BOUNDARY_L else "small" if L < 16383 else "random"))
        run.count("bigrow_open_type_%s" % ("aligned" if flag < 0 else "bit_offset_1"))
        run.count("bigrow_fragments_%d%s" % (len(frag_sizes(L)), "_empty_last" if L % 16384 == 0 and L else ""))
    outs, crashes, leak = run_resilient(m["exe"], lines)
    if leak is not None:
        run.violation("leak:bigrow", dict(replay0, what="the driver answered every command but exited non-zero", stderr_tail=leak[-2500:]))
    # the model's octets (Frame without the tail member + the tail's octet: every member ends on an octet boundary)
    mlines, midx = [], []
    for i, (kind, n, L, flag, tail, seed, wm) in enumerate(cases):
        if wm:
            mlines.append("c18uper %s I%d; %d %s" % (MODEL_FRAME, ROW_ID[kind], ROW_ID[kind], model_value(kind, n, seed)))
            midx.append(i)
    mouts = dict(zip(midx, mrun(model_exe, mlines)))
    # the loop of uper_open_type_put as modelled in Rt/OpenTypeFrag.v (open_put_c), on the contents Python computed: every row kind (the BIT STRING rows too);
    # quick: the exact multiples of 16K by the BIT STRING row (smallest bit count); thorough: every aligned boundary case
    plines, pidx, seenp = [], [], set()
    for i, (kind, n, L, flag, tail, seed, wm) in enumerate(cases):
        if flag < 0 and L in BOUNDARY_L and (tier != "quick" or (kind == "bits" and L % 16384 == 0 and (kind, L) not in seenp)):
            seenp.add((kind, L))
            plines.append("c18vput c " + inner_bytes(kind, n, seed).hex())
            pidx.append(i)
    pouts = dict(zip(pidx, mrun(model_exe, plines)))
    declines = []
    for i, (case, line, out) in enumerate(zip(cases, lines, outs)):
        kind, n, L, flag, tail, seed, wm = case
        up, der = exp[i]
        run.case(line)
        replay = dict(replay0, command_line=line, row=kind, items=n, inner_encoding_octets=L, fragments=frag_sizes(L), c=out,
                      expected_uper_octets=len(up), expected_uper_crc32=crc(up), expected_uper_head=up[:24].hex(), expected_uper_tail=up[-8:].hex())
        if i in crashes or out == "CRASH":
            run.violation("crash:bigrow", dict(replay, what="the driver died encoding / decoding a frame with a big row value", stderr_tail=crashes.get(i, "")[-2500:]))
            continue
        g = BIG_RE.match(out)
        if not g:
            run.violation("oracle:bigrow_encodes", dict(replay, what="a valid frame with a big row value is not BER-decoded or not UPER-encoded"))
            continue
        ulen, ucrc, rc, consumed, same, dlen, dcrc = int(g.group(1)), g.group(2), g.group(3), int(g.group(4)), g.group(5), int(g.group(6)), g.group(7)
        if (dlen, dcrc) != (len(der), crc(der)):
            run.violation("harness:bigrow_generator", dict(replay, what="the driver's and Python's value builders disagree"), no_input=True)
            continue
        # --- oracle, on the C alone
        if not (rc == "OK" and consumed == ulen and same == "same"):
            run.violation("oracle:roundtrip_fragmented_open_type",
                          dict(replay, what="the library's UPER encoding of a frame whose open type needs fragmentation does not decode back to the value (X.691 11.9.3.8)"))
        if (ulen, ucrc) != (len(up), crc(up)):
            dump = os.path.join(m["dir"], "bigdump.bin")
            run_resilient(m["exe"], [line + " " + dump])
            diff = None
            if os.path.exists(dump):
                cb = open(dump, "rb").read()
                k = next((j for j in range(min(len(cb), len(up))) if cb[j] != up[j]), min(len(cb), len(up)))
                diff = {"first_difference_at_octet": k, "c": cb[max(0, k - 4):k + 8].hex(), "expected": up[max(0, k - 4):k + 8].hex(), "c_octets": len(cb)}
                os.unlink(dump)
            run.violation("oracle:x691_fragmentation", dict(replay, what="the UPER octets of the frame are not the standard's (length determinants / fragments of the open type, X.691 11.9)", difference=diff))
        # --- faithfulness
        if i in mouts:
            mo = mouts[i]
            mb = None if mo == "NONE" else bytes.fromhex(mo) + bytes([tail])
            if mb != up:
                run.violation("model:OpenType.uper_frame", dict(replay, what="the model's uper_frame and Python's X.691 disagree", model=(mo[:60] if mo else mo)), no_input=True)
            if mb is None or (ulen, ucrc) != (len(mb), crc(mb)):
                run.violation("correspondence:OpenType.uper_frame", dict(replay, what="C and model encode the frame differently", model_octets=mb and len(mb), model_crc32=mb and crc(mb)),
                              no_input=(ulen, ucrc) == (len(up), crc(up)))
            src = mb if mb is not None else up
        else:
            src = up
        if i in pouts:
            run.count("bigrow_open_put_model")
            pb = int_octets(ROW_ID[kind])
            pb = bytes([len(pb)]) + pb + bytes.fromhex(pouts[i]) + bytes([tail])
            if pb != up:
                run.violation("model:OpenTypeFrag.open_put", dict(replay, what="the model's open_put_c and Python's X.691 disagree on the open type", model_octets=len(pb)), no_input=True)
            if (ulen, ucrc) != (len(pb), crc(pb)):
                # which rule does the C follow?  (diagnosis only: the seeded rule `empty last fragment only after 64K` is a term of the model)
                alt = mrun(model_exe, ["c18vput 64k " + inner_bytes(kind, n, seed).hex()])[0]
                ab = pb[:1 + pb[0]] + bytes.fromhex(alt) + bytes([tail])
                run.violation("correspondence:OpenTypeFrag.open_put",
                              dict(replay, what="the C's open type is not open_put_c of the row's encoding (the loop of uper_open_type_put with the need_eom decision)",
                                   model_octets=len(pb), model_crc32=crc(pb), c_follows_eom_only_after_64k=((ulen, ucrc) == (len(ab), crc(ab)))),
                              no_input=(ulen, ucrc) == (len(up), crc(up)))
        ty = line.split()[1]
        declines.append((i, "full", "bigdec %s %s" % (ty, src.hex()), "model" if i in mouts else "spec"))
        # --- fault positions: the stream cut at every fragment boundary, and one octet short
        cuts = sorted(set(c for c in fragment_cuts(ROW_ID[kind], flag, L) + [len(up) - 1] if 0 < c < len(up)))
        if tier == "quick" and len(cuts) > 3:
            cuts = [cuts[1], cuts[-2], cuts[-1]]
        for c in cuts:
            declines.append((i, "cut@%d" % c, "bigdec %s %s" % (ty, up[:c].hex()), "cut"))
        # --- the stream WITHOUT the empty last fragment (what an encoder forgetting 11.9.3.8.3 writes) must not decode to the value
        if L % 16384 == 0 and flag < 0:
            declines.append((i, "no-empty-last", "bigdec %s %s" % (ty, (up[:-2] + up[-1:]).hex()), "noeom"))
    douts, dcr, _ = run_resilient(m["exe"], [d[2] for d in declines])
    for j, ((i, what, dl, src), out) in enumerate(zip(declines, douts)):
        kind, n, L, flag, tail, seed, wm = cases[i]
        up, der = exp[i]
        short = "bigdec of [%s] %s" % (lines[i], what)
        run.case(short)
        replay = dict(replay0, command=short, stream_octets=(len(dl.split()[2]) // 2), row=kind, items=n, inner_encoding_octets=L, fragments=frag_sizes(L), c=out)
        if j in dcr or out == "CRASH":
            run.violation("crash:bigrow_decode", dict(replay, what="the driver died decoding a frame with a fragmented open type", stderr_tail=dcr.get(j, "")[-2500:]))
            continue
        t = out.split()
        if what == "full":
            if t != ["OK", str(len(up)), "%d:%s" % (len(der), crc(der))]:
                run.violation("correspondence:OpenType.uper_dec_frame" if src == "model" else "oracle:decode_fragmented_open_type",
                              dict(replay, what="the C decoder does not decode the %s's octets of a frame with a fragmented open type to the value" % ("model" if src == "model" else "standard"),
                                   expected="OK %d %d:%s" % (len(up), len(der), crc(der))))
        else:
            run.count("bigrow_fault_" + what.split("@")[0])
            if t and t[0] == "OK":
                run.violation("oracle:truncated_fragmented_open_type",
                              dict(replay, what="a frame whose fragmented open type is cut short / lacks its last fragment decodes successfully"))


def check_big_oer(run, rng, m, tier):
    """OER, decoder side (no OER encoder for open types in the skeletons): containers whose own length determinant takes 1, 2, 3 and 4 octets.
    Oracle on the C alone: Python's X.696 octets decode to the value (DER length:crc32), all consumed; a stream cut inside / right after the
    open type's length determinant, or one octet short, never decodes."""
    if not m.get("exe"):
        return
    replay0 = {"module": m["text"], "options": m.get("opts")}
    q = tier == "quick"
    cases, lines, meta = [], [], []
    for L in OER_BOUNDARY_L:
        for kind in KINDS:
            n = oer_sizes_for(kind, L)
            if n is None:
                continue
            for flag in ([-1] if q and L not in (128, 256, 65536) else [-1, rng.choice([0, 1])]):
                tail, seed = rng.choice([0, 0x5a, 0x7f, 0x81, 0xff]), 1 + rng.below(1 << 20)
                ty = "Frame" if flag < 0 else "FrameB"
                st, il = frame_oer(kind, ROW_ID[kind], n, seed, tail, flag)
                assert il == L
                der = frame_der(kind, ROW_ID[kind], n, seed, tail & 0x7f, flag) if tail < 128 else None
                desc = "oer %s %s items=%d seed=%d tail=%d flag=%d container=%d" % (ty, kind, n, seed, tail, flag, L)
                lines.append("bigdec %s %s oer" % (ty, st.hex()))
                meta.append((desc, "full", st, der))
                run.count("bigrow_oer_%s_L%d" % (kind, L))
                run.count("bigrow_oer_length_octets_%d" % len(oer_len(L)))
                head = 2 + (0 if flag < 0 else 1)
                for c in sorted(set([head + 1, head + len(oer_len(L)), len(st) - 1])):
                    if 0 < c < len(st):
                        lines.append("bigdec %s %s oer" % (ty, st[:c].hex()))
                        meta.append((desc, "cut@%d" % c, st, None))
    outs, crashes, leak = run_resilient(m["exe"], lines)
    if leak is not None:
        run.violation("leak:bigrow_oer", dict(replay0, what="the driver answered every command but exited non-zero", stderr_tail=leak[-2500:]))
    for j, ((desc, what, st, der), out) in enumerate(zip(meta, outs)):
        short = "bigdec of [%s] %s" % (desc, what)
        run.case(short)
        replay = dict(replay0, command=short, stream_head=st[:16].hex(), stream_octets=len(st), c=out)
        if j in crashes or out == "CRASH":
            run.violation("crash:bigrow_oer", dict(replay, what="the driver died decoding an OER frame with a big open type", stderr_tail=crashes.get(j, "")[-2500:]))
            continue
        t = out.split()
        if what == "full":
            # tail INTEGER (0..255) above 127 takes two DER octets: the DER is then compared by length only through RC and consumed
            want = ["OK", str(len(st))] + (["%d:%s" % (len(der), crc(der))] if der is not None else [])
            if t[:len(want)] != want:
                run.violation("oracle:decode_big_open_type(oer)", dict(replay, what="the C decoder does not decode the standard's OER octets of a frame whose open type has a long-form length to the value",
                                                                       expected=" ".join(want)))
        else:
            run.count("bigrow_oer_fault_cut")
            if t and t[0] == "OK":
                run.violation("oracle:truncated_big_open_type(oer)", dict(replay, what="an OER frame cut inside its open type decodes successfully"))
