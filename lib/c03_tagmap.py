"""c03_tagmap — directed modules, values and queries for the tag-to-member maps searched with bsearch() by
SEQUENCE_decode_ber (the `use_bsearch` branch: an untagged CHOICE member at the current position, or a run of more
than 8 OPTIONAL members to cross), SET_decode_ber and CHOICE_decode_ber.

Region (what the generated corpus of lib/modgen.py never reaches: at most 4 members per SEQUENCE/CHOICE, no SET):
 * SEQUENCE: runs of 0..12 OPTIONAL members (all absent / exactly the j-th present / all present) before, between
   and after mandatory members whose universal tags repeat (INTEGER, OCTET STRING, INTEGER, OCTET STRING, INTEGER);
   untagged CHOICE members (OPTIONAL absent / each alternative present, mandatory, two in a row, nested, with
   universal alternatives) followed by repeated tags; 2..6 occurrences of the incoming tag; maps of 5..30 entries so
   that bsearch's first matching probe lands on every entry of a group of equal tags;
 * CHOICE / SET: maps of 1..40 entries over all four tag classes with tag numbers on both sides of the one-octet
   boundary (class-then-number order of the map differs from the numeric order of ber_tlv_tag_t), nested untagged
   CHOICEs (several map entries for one member), every member looked up; SET components in declaration order, DER
   order, reversed and random orders, OPTIONAL members alone.
The SEQUENCE and CHOICE families are inside the modelled algebra (they go through the whole C03 pipeline with the
Coq codec model); SET is not (text module, oracle on the C alone + the map-level model coq/Rt/TagMap.v)."""
from modgen import resolve, module_text, first_tags, model_str, val_str, type_text, tag_text, tagnum
from c03_util import parse_tlv

F, T = False, True
I = {"k": "int", "con": None}
O = {"k": "oct", "con": None}
B = {"k": "bool"}
N = {"k": "null"}


def tg(cls, j, t):
    return dict(t, tag=(cls, j, None))


def ctx(j, t):
    return tg("CONTEXT", j, t)


TAIL = [("m", I, F), ("s1", O, F), ("n", I, F), ("s2", O, F), ("k", I, F)]
CH_XY = {"k": "choice", "ms": [("x", ctx(0, I), F), ("y", ctx(1, O), F)]}


def run_of(r, base=0, prefix="o"):
    return [("%s%d" % (prefix, base + j), ctx(base + j, B), T) for j in range(r)]


def seq(ms):
    return {"k": "seq", "ms": ms}


def seq_family(tier):
    """[(type name, definition)] in the dict format of lib/modgen.py"""
    out = []
    runs = (0, 1, 2, 7, 8, 9, 10, 12) if tier == "quick" else tuple(range(13))
    for r in runs:
        out.append(("R%d" % r, seq(run_of(r) + TAIL)))
    # the run in the middle: earlier INTEGER entries of the map lie BEFORE the current element
    for r in ((8, 9, 12) if tier == "quick" else (7, 8, 9, 10, 11, 12)):
        out.append(("RM%d" % r, seq([("a", I, F), ("s0", O, F), ("b", I, F)] + run_of(r) + TAIL)))
    # the run at the end (the optional count reaches the end of the member list: linear search only)
    for r in (9, 12):
        out.append(("RT%d" % r, seq([("a", I, F), ("s0", O, F), ("b", I, F)] + run_of(r))))
    out.append(("RR", seq(run_of(9) + [("m", I, F)] + run_of(10, 20, "p") + [("n", I, F), ("s", O, F), ("k", I, F)])))
    # universal tags inside the run as well
    out.append(("RU", seq([("b1", B, T), ("q1", O, T), ("n1", N, T)] + run_of(7) +
                          [("m", I, F), ("s1", O, F), ("n", I, F), ("t", B, F), ("k", I, F), ("u", N, F), ("s2", O, F), ("z", I, F)])))
    # untagged CHOICE members
    out.append(("CA", seq([("c", CH_XY, T)] + [("a", I, F), ("s1", O, F), ("b", I, F), ("s2", O, F), ("d", I, F)])))
    for p in (1, 2, 3):
        pre = []
        for j in range(p):
            pre += [("i%d" % j, I, F), ("q%d" % j, O, F)]
        out.append(("CB%d" % p, seq(pre + [("c", CH_XY, T), ("a", I, F), ("s1", O, F), ("b", I, F), ("s2", O, F), ("d", I, F)])))
    out.append(("CM", seq([("a", I, F), ("c", CH_XY, F), ("b", I, F), ("s", O, F), ("d", I, F)])))
    out.append(("CU", seq([("c", {"k": "choice", "ms": [("x", B, F), ("y", N, F)]}, T), ("a", I, F), ("s1", O, F), ("b", I, F),
                           ("t", B, F), ("d", I, F), ("u", N, F)])))
    out.append(("CC", seq([("c1", CH_XY, T), ("c2", {"k": "choice", "ms": [("z", ctx(2, I), F), ("w", ctx(3, B), F)]}, T),
                           ("a", I, F), ("s", O, F), ("b", I, F), ("s2", O, F), ("d", I, F)])))
    out.append(("CN", seq([("c", {"k": "choice", "ms": [("x", ctx(0, I), F),
                                                          ("nn", {"k": "choice", "ms": [("y", ctx(1, O), F), ("z", ctx(2, B), F)]}, F)]}, T),
                           ("a", I, F), ("s1", O, F), ("b", I, F), ("s2", O, F), ("d", I, F)])))
    # more entries after / more occurrences of the tag: moves bsearch's probe through the group
    for q in ((1, 2, 3, 5, 7) if tier == "quick" else range(1, 10)):
        out.append(("CQ%d" % q, seq([("c", CH_XY, T), ("a", I, F), ("s1", O, F), ("b", I, F), ("s2", O, F), ("d", I, F)] +
                                    [("t%d" % j, ctx(10 + j, N), F) for j in range(q)])))
    for n in ((2, 4, 5, 6) if tier == "quick" else (2, 3, 4, 5, 6, 7, 8)):
        ms = [("c", CH_XY, T)]
        for j in range(n):
            ms += [("i%d" % j, I, F), ("q%d" % j, (O if j % 2 == 0 else B), F)]
        out.append(("CI%d" % n, seq(ms)))
    # a long run AND an untagged CHOICE inside it
    out.append(("RC", seq(run_of(5) + [("c", {"k": "choice", "ms": [("x", ctx(30, I), F), ("y", ctx(31, O), F)]}, T)] + run_of(5, 5) + TAIL)))
    return out


def probe_shape(pn, g, a, b):
    """j0.. (pn INTEGERs), c CHOICE OPTIONAL, i0.. (g INTEGERs), a BOOLEANs (sorted before INTEGER in the map), b [n] NULLs (after)"""
    return seq([("j%d" % i, I, F) for i in range(pn)] + [("c", CH_XY, T)] + [("i%d" % i, I, F) for i in range(g)] +
               [("b%d" % i, B, F) for i in range(a)] + [("n%d" % i, ctx(10 + i, N), F) for i in range(b)])


def probe_family(tier):
    """for every size of the group of INTEGER entries and every entry of the group: a SEQUENCE on which the C library's
    bsearch() (emulated: glibc_bsearch) returns exactly that entry for the lookup (INTEGER, edx) made when the untagged
    CHOICE at edx is absent.  pn > 0: entries of the group that lie before edx (the `el_no < edx` test)."""
    out = []
    want = [(0, g) for g in ((2, 3, 4, 5) if tier == "quick" else (2, 3, 4, 5, 6, 7))] + [(1, 3), (2, 3)] + ([(1, 5), (3, 4)] if tier != "quick" else [])
    itag = tagnum("UNIVERSAL", 2)
    for pn, g in want:
        for o in range(pn, pn + g):          # entries before edx never compare equal
            found = None
            for total in range(0, 14):
                for a in range(0, total + 1):
                    b = total - a
                    t = probe_shape(pn, g, a, b)
                    mp = expected_map(resolve(t, "IMPLICIT", {}))
                    hit = glibc_bsearch(len(mp), seq_cmp(mp, itag, pn))
                    first = min(i for i, e in enumerate(mp) if e[0] == itag)
                    if hit is not None and hit - first == o:
                        found = t
                        break
                if found:
                    break
            if found:
                out.append(("CP%dG%dE%d" % (pn, g, o), found))
    return out


# tags of the big CHOICE / SET maps: all classes, numbers around the octet boundaries; declaration order scrambled
def tag_pool():
    pool = [None] * 4          # the four universal leaf types first
    for num in (0, 1, 2, 3, 30, 31, 32, 127, 128, 16383, 16384, 100000):
        for cls in ("PRIVATE", "CONTEXT", "APPLICATION"):
            pool.append((cls, num))
    return pool


LEAVES = [B, I, O, N]


def big_members(n, scramble):
    """n members with pairwise distinct tags; scramble = multiplier coprime to the pool size"""
    pool = tag_pool()
    ms = []
    for j in range(n):
        e = pool[(j * scramble) % len(pool)] if n > 4 else pool[j % len(pool)]
        if e is None:
            # universal: one of each leaf type only
            k = sum(1 for m in ms if m[1].get("tag") is None)
            if k < 4:
                ms.append(("u%d" % j, LEAVES[k], F))
                continue
            e = ("CONTEXT", 200 + j)
        ms.append(("f%d" % j, tg(e[0], e[1], LEAVES[j % 4]), F))
    return ms


BIG_SIZES_QUICK = (1, 2, 3, 5, 8, 16, 17, 32, 40)
BIG_SIZES = tuple(range(1, 41))


def big_distinct(n):
    """members of big_members(n, 7) have distinct tags? (the pool has 40 entries; 7 is coprime to 40)"""
    return True


def choice_family(tier):
    out = []
    for n in (BIG_SIZES_QUICK if tier == "quick" else BIG_SIZES):
        out.append(("KA%d" % n, {"k": "choice", "ms": big_members(n, 7)}))
    # nested untagged CHOICEs: several map entries lead to one alternative
    inner1 = {"k": "choice", "ms": [("p", ctx(5, I), F), ("q", tg("APPLICATION", 5, O), F), ("r", tg("PRIVATE", 5, B), F)]}
    inner2 = {"k": "choice", "ms": [("s", B, F), ("t", ctx(0, N), F), ("u", tg("PRIVATE", 31, I), F)]}
    out.append(("KN", {"k": "choice", "ms": [("a", I, F), ("n1", inner1, F), ("b", ctx(1, O), F), ("n2", inner2, F), ("c", tg("APPLICATION", 31, N), F)]}))
    return out


def set_family(tier):
    """SET types: outside lib/modgen.py's algebra; kind 'set' is handled by the functions of this file only"""
    out = []
    for n in (BIG_SIZES_QUICK if tier == "quick" else BIG_SIZES):
        out.append(("ST%d" % n, {"k": "set", "ms": big_members(n, 7)}))
    for n in ((3, 8, 17, 40) if tier == "quick" else (1, 2, 3, 5, 8, 9, 16, 17, 24, 33, 40)):
        out.append(("SP%d" % n, {"k": "set", "ms": [(a, b, T) for a, b, _ in big_members(n, 11)]}))
    inner1 = {"k": "choice", "ms": [("p", ctx(5, I), F), ("q", tg("APPLICATION", 5, O), F), ("r", tg("PRIVATE", 5, B), F)]}
    out.append(("SN", {"k": "set", "ms": [("a", I, F), ("n1", inner1, F), ("b", ctx(1, O), T), ("c", tg("APPLICATION", 31, N), F), ("d", B, T)]}))
    return out


# ---------------------------------------------------------------- text / trees (with SET)

def type_text2(t):
    if t["k"] == "set":
        ms = ["%s %s%s" % (name, type_text2(mt), " OPTIONAL" if opt else "") for name, mt, opt in t["ms"]]
        return tag_text(t.get("tag")) + "SET { %s }" % ", ".join(ms)
    if t["k"] in ("seq", "choice"):
        kw = "SEQUENCE" if t["k"] == "seq" else "CHOICE"
        ms = ["%s %s%s" % (name, type_text2(mt), " OPTIONAL" if (opt and t["k"] == "seq") else "") for name, mt, opt in t["ms"]]
        return tag_text(t.get("tag")) + "%s { %s }" % (kw, ", ".join(ms))
    return type_text(t)


def resolve2(t, default, env):
    """modgen.resolve extended with SET at the top ('S', tag, members)"""
    if t["k"] == "set":
        ms = []
        for name, mt, opt in t["ms"]:
            r = resolve(mt, default, env)
            ms.append(("?", r) if opt else r)
        return ("S", tagnum("UNIVERSAL", 17), ms)
    return resolve(t, default, env)


def modules(tier):
    """-> [MT1 (SEQUENCE + CHOICE families; modgen-compatible), MT2 (SET family; text, trees with 'S')]"""
    d1 = seq_family(tier) + probe_family(tier) + choice_family(tier)
    env = dict(d1)
    m1 = {"name": "MT1", "default": "IMPLICIT", "defs": d1, "trees": {n: resolve(t, "IMPLICIT", env) for n, t in d1},
          "text": module_text("MT1", "IMPLICIT", d1)}
    d2 = set_family(tier)
    lines = ["MT2 DEFINITIONS IMPLICIT TAGS ::= BEGIN"] + ["  %s ::= %s" % (n, type_text2(t)) for n, t in d2] + ["END"]
    m2 = {"name": "MT2", "default": "IMPLICIT", "defs": d2, "trees": {n: resolve2(t, "IMPLICIT", dict(d2)) for n, t in d2},
          "text": "\n".join(lines) + "\n"}
    return [m1, m2]


# ---------------------------------------------------------------- directed values

def leaf_value(tree, i):
    k = tree[0]
    if k == "b":
        return i % 2 == 0
    if k == "n":
        return None
    if k == "i":
        return [5, -129, 70000, 0, 255, -1, 2 ** 31, 128][i % 8] + i
    if k == "o":
        return bytes((i * 17 + j) % 256 for j in range(i % 4))
    raise ValueError(k)


def options(tree, i):
    """the ways a member can be present: one per (nested) CHOICE alternative, one for anything else"""
    k = tree[0]
    if k == "?":
        return options(tree[1], i)
    if k == "c":
        out = []
        for ai, a in enumerate(tree[1]):
            out += [("C", ai, v) for v in options(a, i + ai)]
        return out
    if k == "x":
        return options(tree[2], i)
    return [leaf_value(tree, i)]


def struct_values(tree, tier):
    """SEQUENCE / SET tree -> [(label, value)]: no OPTIONAL member present; exactly one; all; every alternative of every
    CHOICE member"""
    ms = tree[2]
    opts = [options(m, i) for i, m in enumerate(ms)]
    is_opt = [m[0] == "?" for m in ms]

    def mk(present, pick):
        out = []
        for i, m in enumerate(ms):
            v = opts[i][pick.get(i, 0) % len(opts[i])]
            if is_opt[i]:
                out.append(("!", v) if i in present else ("_",))
            else:
                out.append(v)
        return ("S", out)

    allp = set(i for i in range(len(ms)) if is_opt[i])
    vals = [("none", mk(set(), {}))]
    for i in range(len(ms)):
        for oi in range(len(opts[i])):
            if is_opt[i]:
                vals.append(("only%d" % i, mk({i}, {i: oi})))
            elif oi > 0:
                vals.append(("alt%d" % i, mk(set(), {i: oi})))
    if allp:
        vals.append(("all", mk(allp, {})))
        vals.append(("all-last", mk(allp, {i: len(opts[i]) - 1 for i in range(len(ms))})))
        if tier != "quick":
            for i in sorted(allp):
                vals.append(("from%d" % i, mk(set(j for j in allp if j >= i), {})))
                vals.append(("but%d" % i, mk(allp - {i}, {})))
    return vals


def choice_values(tree):
    return [("alt", v) for v in options(tree, 0)]


# ---------------------------------------------------------------- DER (own encoder; SET members in the order asked for)

def der_len(n):
    if n <= 127:
        return bytes([n])
    k = (n.bit_length() + 7) // 8
    return bytes([128 + k]) + n.to_bytes(k, "big")


def der_tag(t, cons):
    cls, num = t % 4, t // 4
    first = cls * 64 + (32 if cons else 0)
    if num < 31:
        return bytes([first + num])
    ds = []
    while True:
        ds.insert(0, num % 128)
        num //= 128
        if num == 0:
            break
    return bytes([first + 31] + [d | 128 for d in ds[:-1]] + [ds[-1]])


def tlv(t, cons, body):
    return der_tag(t, cons) + der_len(len(body)) + body


def member_tlvs(tree, v):
    """encodings of the present members of a SEQUENCE/SET value, in declaration order: [(member index, bytes)]"""
    out = []
    for i, (m, x) in enumerate(zip(tree[2], v[1])):
        if m[0] == "?":
            if x[0] == "!":
                out.append((i, der(m[1], x[1])))
        else:
            out.append((i, der(m, x)))
    return out


def der(tree, v, order=None):
    k = tree[0]
    if k == "b":
        return tlv(tree[1], False, b"\xff" if v else b"\x00")
    if k == "n":
        return tlv(tree[1], False, b"")
    if k == "i":
        return tlv(tree[1], False, v.to_bytes((v if v >= 0 else ~v).bit_length() // 8 + 1, "big", signed=True))
    if k == "o":
        return tlv(tree[1], False, v)
    if k == "x":
        return tlv(tree[1], True, der(tree[2], v))
    if k == "c":
        return der(tree[1][v[1]], v[2])
    if k in ("s", "S"):
        parts = [b for _, b in member_tlvs(tree, v)]
        if order is not None:
            parts = [parts[j] for j in order]
        return tlv(tree[1], True, b"".join(parts))
    raise ValueError(k)


def top_children(b):
    """the children TLVs of a definite-length constructed TLV, as byte strings"""
    n, end = parse_tlv(b, 0)
    if end != len(b):
        raise ValueError("trailing bytes")
    out, p = [], len(b) - len(n.content)
    while p < len(b):
        kid, q = parse_tlv(b, p)
        out.append(bytes(b[p:q]))
        p = q
    return out


# ---------------------------------------------------------------- the map, independently

def tkey(t):
    return (t % 4, t // 4)


def expected_map(tree):
    """[(tag, el_no, toff_first, toff_last)] as asn1c must emit it: one entry per first tag of every member, sorted by
    class, number, member index"""
    ms = tree[2] if tree[0] in ("s", "S") else tree[1]
    es = sorted(((t, i) for i, m in enumerate(ms) for t in first_tags(m)), key=lambda e: (tkey(e[0]), e[1]))
    out = []
    for p, (t, i) in enumerate(es):
        f = min(q for q, e in enumerate(es) if e[0] == t)
        l = max(q for q, e in enumerate(es) if e[0] == t)
        out.append((t, i, f - p, l - p))
    return out


def parse_t2m(line):
    """output of the moddrv command t2m -> (kind, [(tag, optional, flags)], [(tag, el_no, toff_first, toff_last)])"""
    f = line.split()
    if len(f) != 3 or f[0] not in ("SEQUENCE", "SET", "CHOICE"):
        return None
    els = [] if f[1] == "els=-" else [tuple(int(x) for x in e.split(":")) for e in f[1][4:].split(",")]
    mp = [] if f[2] == "map=-" else [tuple(int(x) for x in e.split(":")) for e in f[2][4:].split(",")]
    return f[0], els, mp


def map_str(mp):
    return ",".join("%d:%d:%d:%d" % e for e in mp) or "-"


def els_str(els):
    return ",".join("%d:%d" % (e[0], e[1]) for e in els) or "-"


def glibc_bsearch(n, cmp):
    """bsearch() of glibc (stdlib/bsearch.c / bits/stdlib-bsearch.h); cmp(i) = comparison of the key with entry i"""
    l, u = 0, n
    while l < u:
        idx = (l + u) // 2
        c = cmp(idx)
        if c < 0:
            u = idx
        elif c > 0:
            l = idx + 1
        else:
            return idx
    return None


def seq_cmp(mp, tag, edx):
    def cmp(i):
        t, el = mp[i][0], mp[i][1]
        if tkey(tag) == tkey(t):
            return 1 if edx > el else 0
        return -1 if tkey(tag) < tkey(t) else 1
    return cmp


def tag_cmp(mp, tag):
    def cmp(i):
        t = mp[i][0]
        return 0 if tkey(tag) == tkey(t) else (-1 if tkey(tag) < tkey(t) else 1)
    return cmp


def seq_path(els, edx, tag):
    """which branch of SEQUENCE_decode_ber's member search the query takes: ('linear', n) or ('bsearch', why)"""
    count = len(els)
    end = edx + els[edx][1] + 1
    use = None
    if end > count:
        end = count
    elif end - edx > 8:
        end = edx + 8
        use = "long-run"
    for n in range(edx, end):
        if els[n][0] == tag:
            return ("linear", n)
        if els[n][0] == -1:
            return ("bsearch", "untagged-choice")
    return ("bsearch", use) if use else ("none", None)


def walk_queries(tree, v):
    """the (edx, tag, expected member) lookups SEQUENCE_decode_ber makes while reading the DER of v"""
    qs = []
    edx = 0
    for i, b in member_tlvs(tree, v):
        node, _ = parse_tlv(b, 0)
        qs.append((edx, node.tag, i))
        edx = i + 1
    return qs
