"""c13_descr — the translator-style tie of checks/c13.py: the asn_TYPE_descriptor_t tables of every build of a
module are dumped by harness/dumpdescr.c (C10's translator, used as is) and the OPTION-INVARIANT part is
compared across builds.

What the representation options may change in the tables (and nothing else):
  -fwide-types        the op table of INTEGER/ENUMERATED/REAL (KNativeInt <-> KInt, KNativeEnum <-> KEnum; REAL and NativeReal
                      print as KReal), and with it the SHARING of descriptors (an unconstrained member INTEGER points to
                      asn_DEF_INTEGER instead of asn_DEF_NativeInteger): tables are compared up to bisimulation, not index by index
  -findirect-choice   ATF_POINTER on non-optional members (CHOICE alternatives)
  -no-gen-PER/-OER    the PER (OER) records and the PER canonical-order maps are absent: compared only between builds that have the codec
  -fno-constraints    the checker slot (general_constraints): not dumped at all
  -fcompound-names, -fincludes-quoted, -fno-include-deps   nothing (C identifiers and #include lines only)
Everything else — names and XML tags, tag vectors, member tags/tag modes/optional counts, defaults, selectors, the PER and
OER records of types AND members (incl. the presence of a character map), tag2el maps, optional-member maps, extension
positions, enumeration maps, field_unsigned — must be equal.  `erase` below is the Python twin of coq/Rt/Options.v `erase_descr`
(the check compares the two on every table through the extracted model)."""
import os, re
from concurrent.futures import ThreadPoolExecutor
from vlib import *

NATIVE_TO_WIDE = {"KNativeInt": "KInt", "KNativeEnum": "KEnum"}


# ------------------------------------------------------------------ building and running the translator

_DD_OBJ = {}


def dumpdescr_object(skel_inc, san=True):
    """harness/dumpdescr.c includes skeleton headers only (-DUSE_PDU_TABLE): compiled once per run"""
    import subprocess
    key = (skel_inc, san)
    if key not in _DD_OBJ:
        out = os.path.join(scratch(), "dumpdescr_%s.o" % ("san" if san else "plain"))
        flags = ["-std=gnu99", "-w", "-DUSE_PDU_TABLE", "-D" + GUARD, "-I" + skel_inc] + (SAN if san else ["-O1", "-g"])
        p = subprocess.run(["gcc"] + flags + ["-c", os.path.join(HARNESS, "dumpdescr.c"), "-o", out], stdout=subprocess.PIPE, stderr=subprocess.STDOUT, text=True, errors="replace", timeout=300)
        _DD_OBJ[key] = (p.returncode, out, p.stdout[-1500:])
    return _DD_OBJ[key]


def dump_module(m, skel_inc, lib, san=True):
    """link harness/dumpdescr.c against the objects of a built module (lib/modbuild layout) and run it; -> (rc, text, err)"""
    import subprocess
    d = m["dir"]
    rc, obj, log_ = dumpdescr_object(skel_inc, san)
    if rc != 0:
        return rc, "", log_
    objs = sorted(f for f in os.listdir(d) if f.endswith(".o") and f not in ("moddrv.o", "dumpdescr.o"))
    cmd = ["gcc"] + (SAN if san else ["-O1", "-g"]) + [obj] + objs + [lib, "-lm", "-o", "dumpdescr"]
    p = subprocess.run(cmd, cwd=d, stdout=subprocess.PIPE, stderr=subprocess.STDOUT, text=True, errors="replace", timeout=300)
    if p.returncode != 0:
        return p.returncode, "", p.stdout[-1500:]
    q = subprocess.run([os.path.join(d, "dumpdescr")], cwd=d, stdout=subprocess.PIPE, stderr=subprocess.PIPE, text=True, errors="replace", timeout=120,
                       env=dict(SAN_ENV, ASAN_OPTIONS="detect_leaks=0"))
    return q.returncode, q.stdout, q.stderr[-1500:]


def dump_all(variants, names, skel_inc, lib, jobs=NCPU):
    """-> {(variant index, module name): (rc, text, err)} for every built module"""
    work = [(vi, n) for vi, var in enumerate(variants) for n in names if var.mods.get(n) and var.mods[n].get("exe")]
    dumpdescr_object(skel_inc)
    with ThreadPoolExecutor(max_workers=jobs) as ex:
        res = list(ex.map(lambda w: dump_module(variants[w[0]].mods[w[1]], skel_inc, lib), work))
    return dict(zip(work, res))


# ------------------------------------------------------------------ parsing the Gallina terms

_TOK = re.compile(r"\(-\d+\)|[()\[\];,]|[A-Za-z_][A-Za-z_0-9]*|-?\d+")


def _parse_seq(toks, i, stops):
    out = []
    while i < len(toks) and toks[i] not in stops:
        t = toks[i]
        if t == "(":
            items = []
            i += 1
            while True:
                seq, i = _parse_seq(toks, i, (",", ")"))
                items.append(seq)
                if toks[i] == ")":
                    i += 1
                    break
                i += 1
            if len(items) == 1:
                out.append(items[0][0] if len(items[0]) == 1 else tuple(items[0]))
            else:
                out.append(("TUPLE",) + tuple(s[0] if len(s) == 1 else tuple(s) for s in items))
        elif t == "[":
            items = []
            i += 1
            if toks[i] == "]":
                i += 1
            else:
                while True:
                    seq, i = _parse_seq(toks, i, (";", "]"))
                    items.append(seq[0] if len(seq) == 1 else tuple(seq))
                    if toks[i] == "]":
                        i += 1
                        break
                    i += 1
            out.append(items)
        elif t.startswith("(-"):
            out.append(int(t[1:-1]))
            i += 1
        elif re.match(r"-?\d+$", t):
            out.append(int(t))
            i += 1
        else:
            out.append(t)
            i += 1
    return out, i


def parse_term(line):
    toks = _TOK.findall(line)
    seq, i = _parse_seq(toks, 0, ())
    if i != len(toks) or len(seq) != 1:
        raise ValueError("unparsed descriptor term: " + line[:120])
    return seq[0]


def parse_dump(text):
    """-> {"n": count, "roots": r, "d": [ {id, kind, name, xml, tags, all, elems:[{...}], per, oer, spec, bad} ]} or None"""
    lines = text.split("\n")
    if not lines or not lines[0].startswith("#TABLE"):
        return None
    roots = int(re.search(r"roots=(\d+)", lines[0]).group(1))
    names, ds = {}, []
    for l in lines[1:]:
        if l.startswith("#D "):
            mm = re.match(r"#D (\d+) kind=(\w+) name=(.*) xml=(.*)$", l)
            names[int(mm.group(1))] = (mm.group(3), mm.group(4))
        elif l.startswith("(mkD "):
            t = parse_term(l)
            assert t[0] == "mkD" and len(t) == 10, l[:100]
            elems = []
            for e in t[5]:
                assert e[0] == "mkM" and len(e) == 10
                elems.append({"flags": e[1], "opt": e[2], "tag": e[3], "tmode": e[4], "type": e[5], "per": e[6], "oer": e[7], "default": e[8], "selector": e[9]})
            ds.append({"id": t[1], "kind": t[2], "tags": t[3], "all": t[4], "elems": elems, "per": t[6], "oer": t[7], "spec": t[8], "bad": t[9],
                       "name": names[t[1]][0], "xml": names[t[1]][1], "line": l})
        elif l.startswith("#END"):
            if int(l.split()[1]) != len(ds):
                return None
            return {"n": len(ds), "roots": roots, "d": ds}
    return None


# ------------------------------------------------------------------ erasure and comparison

def erase_spec(spec, has_per):
    if isinstance(spec, tuple) and spec[0] == "SChoice" and not has_per:
        return ("SChoice", spec[1], "None", spec[3])
    if isinstance(spec, tuple) and spec[0] == "SInt":
        # field_width / field_unsigned describe the NATIVE representation (long vs unsigned long); an INTEGER_t needs
        # neither, and specifics holding nothing else are the same as no specifics
        e = ("SInt", spec[1], spec[2], spec[3], spec[4], 0, 0)
        return "SNone" if e == ("SInt", [], [], 0, 0, 0, 0) else e
    return spec


def erase(d, has_per=True, has_oer=True):
    """the option-invariant part of one descriptor (member type indices are followed by `bisimilar`, not compared;
    td->name is used by diagnostics only; td->xml_tag is compared where the XER codecs read it, see bisimilar).
    ATF_POINTER is erased on every member: -findirect-choice sets it on CHOICE alternatives, -fwide-types on
    DEFAULT members (INTEGER_t* instead of an inline long); every codec fetches members through the flag."""
    ms = []
    for e in d["elems"]:
        ms.append((e["flags"] & ~1, e["opt"], e["tag"], e["tmode"], e["per"] if has_per else "None", e["oer"] if has_oer else "None", e["default"], e["selector"]))
    return {"kind": NATIVE_TO_WIDE.get(d["kind"], d["kind"]), "xml": d["xml"], "tags": d["tags"], "all": d["all"], "members": ms,
            "per": d["per"] if has_per else "None", "oer": d["oer"] if has_oer else "None", "spec": erase_spec(d["spec"], has_per), "bad": d["bad"]}


def eff_tags(ctx, tags):
    """the tag chain the BER/DER codecs see for a type reached through a member entry (ber_check_tags / der_write_tags:
    tag_mode -1 replaces the type's first tag, +1 puts the member's tag in front, 0 leaves the type's own)"""
    if ctx is None or ctx[1] == 0:
        return list(tags)
    if ctx[1] < 0:
        return [ctx[0]] + list(tags[1:])
    return [ctx[0]] + list(tags)


def bisimilar(ta, tb, has_per=True, has_oer=True):
    """compare two tables from their roots, following member type indices in parallel.
    A type is compared AS SEEN THROUGH the member entry that leads to it: a member whose native representation needs
    INTEGER specifics of its own (unsigned long) gets a descriptor of its own that repeats the member's tag and
    constraint records, while the -fwide-types build points to asn_DEF_INTEGER; what the codecs use is the same:
      tag chain  = member tag applied to the type's tags (eff_tags);
      PER record = the member's if it has one, else the type's (every constructed codec passes elm->encoding_constraints
                   and the leaf takes `constraints ? constraints : td->encoding_constraints`); same for OER;
    all_tags is compared for the PDUs only.  td->xml_tag is compared for the PDUs (outermost XER element) and for the
    element types of SEQUENCE OF / SET OF (an unnamed element's XER tag comes from its type); td->name never (diagnostics).
    -> list of differences [{path, field, a, b}]"""
    diffs = []
    if ta["roots"] != tb["roots"]:
        return [{"path": "", "field": "roots", "a": ta["roots"], "b": tb["roots"]}]
    seen = set()
    stack = [(i, i, True, None, None, ta["d"][i]["name"]) for i in range(ta["roots"])][::-1]
    while stack:
        i, j, xml, ca, cb, path = stack.pop()
        key = (i, j, xml, ca, cb)
        if key in seen:
            continue
        seen.add(key)
        if not (0 <= i < ta["n"] and 0 <= j < tb["n"]):
            diffs.append({"path": path, "field": "type index out of the table", "a": i, "b": j})
            continue
        ea, eb = erase(ta["d"][i], has_per, has_oer), erase(tb["d"][j], has_per, has_oer)
        for e, c in ((ea, ca), (eb, cb)):
            e["tags"] = eff_tags(c, e["tags"])
            if c is not None:
                e["all"] = []
                if c[2] != "None":
                    e["per"] = c[2]
                if c[3] != "None":
                    e["oer"] = c[3]
        bad = [f for f in ("kind", "tags", "all", "per", "oer", "spec", "bad") + (("xml",) if xml else ()) if ea[f] != eb[f]]
        if len(ea["members"]) != len(eb["members"]):
            bad.append("members(count)")
        else:
            for k, (x, y) in enumerate(zip(ea["members"], eb["members"])):
                if x != y:
                    names = ("flags", "optional", "tag", "tag_mode", "per_constraints", "oer_constraints", "default_value_set", "type_selector")
                    for nm, u, v in zip(names, x, y):
                        if u != v:
                            diffs.append({"path": "%s.member[%d]" % (path, k), "field": nm, "a": _show(u), "b": _show(v)})
        for f in bad:
            diffs.append({"path": path, "field": f, "a": _show(ea.get(f)), "b": _show(eb.get(f))})
        if len(ea["members"]) == len(eb["members"]):
            of = ea["kind"] in ("KSeqOf", "KSetOf")
            for k in range(len(ea["members"]) - 1, -1, -1):
                x, y = ta["d"][i]["elems"][k], tb["d"][j]["elems"][k]
                mx, my = ea["members"][k], eb["members"][k]
                stack.append((x["type"], y["type"], of, (mx[2], mx[3], _freeze(mx[4]), _freeze(mx[5])), (my[2], my[3], _freeze(my[4]), _freeze(my[5])), "%s.%d" % (path, k)))
    return diffs


def _freeze(x):
    if isinstance(x, list):
        return tuple(_freeze(y) for y in x)
    if isinstance(x, tuple):
        return tuple(_freeze(y) for y in x)
    return x


def only_char_map_differs(diffs):
    """every difference is a PER record that differs only in the presence of value2code/code2value"""
    def strip(x):
        return re.sub(r"'(true|false)', '(true|false)'\)\)$", "_)", x)
    return bool(diffs) and all(d["field"] in ("per", "per_constraints") and isinstance(d["a"], str) and strip(d["a"]) == strip(d["b"]) and d["a"] != d["b"] for d in diffs)


def _show(x):
    s = repr(x)
    return s if len(s) < 300 else s[:300] + "..."


# ------------------------------------------------------------------ wire format for the extracted model (ocaml/drv_c13.ml `opt_sim`)
# a tree of integers without spaces:  tree := int | '[' tree (',' tree)* ']' | '[]'
KINDS = ["KSeq", "KSet", "KChoice", "KSeqOf", "KSetOf", "KOpenType", "KNativeInt", "KInt", "KNativeEnum", "KEnum", "KBool", "KNull", "KOctets", "KBits", "KAny",
         "KReal", "KOid", "KTime", "KStr", "KOther"]


def _b(x):
    return 1 if x == "true" else 0


def _w_per1(p):
    assert p[0] == "mkP"
    return list(p[1:6])


def _w_per(p):
    if p == "None":
        return []
    pc = p[1]
    assert p[0] == "Some" and pc[0] == "mkPC"
    return [[_w_per1(pc[1]), _w_per1(pc[2]), _b(pc[3]), _b(pc[4])]]


def _w_oer(o):
    if o == "None":
        return []
    assert o[0] == "Some" and o[1][0] == "mkO"
    return [list(o[1][1:4])]


def _w_t2e(l):
    return [list(t[1:5]) for t in l]


def _w_spec(sp):
    if sp == "SNone":
        return [0]
    if sp == "SOther":
        return [6]
    k = sp[0]
    if k == "SSeq":
        return [1, _w_t2e(sp[1]), list(sp[2]), sp[3], sp[4], sp[5]]
    if k == "SSet":
        return [2, _w_t2e(sp[1]), _w_t2e(sp[2]), sp[3], list(sp[4])]
    if k == "SChoice":
        canon = [] if sp[2] == "None" else [[list(sp[2][1][1]), list(sp[2][1][2])]]
        return [3, _w_t2e(sp[1]), canon, sp[3]]
    if k == "SSetOf":
        return [4, sp[1]]
    if k == "SInt":
        return [5, [[t[1], list(t[2])] for t in sp[1]], list(sp[2]), sp[3], sp[4], sp[5], sp[6]]
    raise ValueError(sp)


def _ser(x):
    if isinstance(x, int):
        return str(x)
    return "[" + ",".join(_ser(y) for y in x) + "]"


def wire_table(tab):
    ds = []
    for d in tab["d"]:
        ms = [[e["flags"], e["opt"], e["tag"], e["tmode"], e["type"], _w_per(e["per"]), _w_oer(e["oer"]), _b(e["default"]), _b(e["selector"])] for e in d["elems"]]
        ds.append([d["id"], KINDS.index(d["kind"]), list(d["tags"]), list(d["all"]), ms, _w_per(d["per"]), _w_oer(d["oer"]), _w_spec(d["spec"]), d["bad"],
                   list(d["name"].encode()), list(d["xml"].encode())])
    return _ser([tab["roots"], ds])
