"""c04_tagmap — the member-lookup corpus of checks/c04.py (round 3).

REGION (what seeded/C04-5 showed was never sampled): the branches of the constructed BER decoders that look a
member up by the tag of the next TLV — SEQUENCE_decode_ber's linear scan over the run of OPTIONAL members and
its bsearch in the tag-to-member table (taken with an untagged CHOICE member or a run of more than 8 OPTIONAL
members), SET_decode_ber / CHOICE_decode_ber's bsearch — were reached only by types the random generator of
lib/modgen happened to produce (<= 4 members, never an untagged CHOICE member followed by a re-used tag, never
9 OPTIONAL members in a row), and only with inputs whose damage was positional (bit flips, truncation, one TLV
duplicated somewhere): never with a member TLV of the right shape in the WRONG PLACE.

This file sweeps
   type shape   x  member kind re-used behind a mandatory member  x  presence pattern  x  structural fault
   - optional runs of 0, 1, 2, 7, 8, 9, 10, 12 members between a first member and a later member bearing the SAME
     tag (universal or context), the first one mandatory or OPTIONAL;
   - an untagged CHOICE member (OPTIONAL / mandatory; first, middle, last; two of them) with the same re-use;
   - the same universal tag at several positions;
   - SET with 1..33 members, with an untagged CHOICE member, extensible; CHOICE with 1..40 alternatives, nested
     untagged CHOICE, extensible;
   - each of these as element of SEQUENCE OF, as a member with data around it, under an EXPLICIT tag;
   - random legal SEQUENCE / SET / CHOICE types over 16 member kinds;
   member kinds: primitive without buffer (BOOLEAN, INTEGER, ENUMERATED, NULL), primitive with a heap buffer
   (OBJECT IDENTIFIER, RELATIVE-OID, BIT STRING), kinds whose decoder keeps a context (OCTET STRING, UTF8String,
   PrintableString, IA5String, SEQUENCE, SEQUENCE OF, SET OF, SET, CHOICE);
   faults (BER, at the member level of the target, definite and indefinite framing): a member TLV twice (adjacent,
   with another value first/second, at every distance), two members swapped, a later member early / an earlier
   one late, a run repeated, the whole contents twice, a member deleted, an absent member inserted at every position;
   the same faults on the elements of the XER text; presence-bit / index / count flips for UPER and OER.

Oracle on the C alone (`d4m`): survival, RC, consumed <= size, nothing live after free, no hang; an RC_OK result
re-encodes (DER and input syntax), its DER decodes again to the same DER (`rt`), and NOTHING IS LOST: the TLVs of the
accepted input and of the re-encoding are the same multiset (a member decoded twice keeps one value only).
Faithfulness: coq/Rt/SafetyTagMap.v (`seqmem`, `setmem`, `tagfind` of ocaml/drv_c04.ml) is run on the tables the
driver reads from the emitted descriptors (`tm4`) and on the tags of the TLVs of each BER input: verdict and the set of
members present must agree with the C."""
import re
from c04_util import *

# ------------------------------------------------------------------------------------------ member kinds
# name -> (ASN.1 text, universal tag number, constructed, sample contents: bytes (primitive) or list of nodes)

def P(tag, content):
    return ("p", bytes([tag]), content)


def Cn(tag, kids):
    return ("c", bytes([tag]), list(kids))


KINDS = {
    "bool": ("BOOLEAN", 1, False, [b"\xff", b"\x00"]),
    "int": ("INTEGER", 2, False, [b"\x00", b"\x7f", b"\x00\x80", b"\x80", b"\xff\x7f", b"\x01\x00\x00"]),
    "bits": ("BIT STRING", 3, False, [b"\x00", b"\x07\x80", b"\x00\xa5\x5b"]),       # (no trailing 0 bit: C01-uper-bitstring-trailing-zero)
    "os": ("OCTET STRING", 4, False, [b"", b"\xaa", b"\x01\x02\x03\x04\x05"]),
    "null": ("NULL", 5, False, [b""]),
    "oid": ("OBJECT IDENTIFIER", 6, False, [b"\x2a\x03\x04", b"\x2b\x06\x01\x04\x01", b"\x55\x04"]),
    "enum": ("ENUMERATED { e0(0), e1(1), e5(5) }", 10, False, [b"\x00", b"\x01", b"\x05"]),
    "utf8": ("UTF8String", 12, False, [b"", b"a", b"\xc3\xa9z"]),
    "roid": ("RELATIVE-OID", 13, False, [b"\x01\x02", b"\x81\x01"]),
    "prt": ("PrintableString", 19, False, [b"0", b"12 3"]),      # (map code < 16: C01-uper-printablestring-default-bits is not this layer's subject)
    "ia5": ("IA5String", 22, False, [b"", b"x@y"]),
    "seq": ("SEQUENCE { x INTEGER, y BOOLEAN OPTIONAL }", 16, True,
            [[P(2, b"\x05")], [P(2, b"\x00\xff"), P(1, b"\xff")], [P(2, b"\x80"), P(1, b"\x00")]]),
    "seqof": ("SEQUENCE OF INTEGER", 16, True, [[], [P(2, b"\x01"), P(2, b"\x01")], [P(2, b"\x7f")]]),
    "setof": ("SET OF BOOLEAN", 17, True, [[], [P(1, b"\x00"), P(1, b"\xff")], [P(1, b"\xff")]]),
    "set": ("SET { p [0] INTEGER, q [1] BOOLEAN OPTIONAL }", 17, True,
            [[P(0x80, b"\x09")], [P(0x80, b"\x00"), P(0x81, b"\xff")]]),
}
# kinds whose DER differs from every other kind's at the same universal tag: usable side by side in a run
RUN_KINDS = ["bool", "int", "bits", "os", "null", "oid", "enum", "utf8", "roid", "prt", "ia5", "seq", "setof"]
REUSE_KINDS = ["oid", "os", "int", "seq", "seqof", "roid", "bits", "enum", "ia5", "setof", "null", "bool"]
ALL_KINDS = sorted(KINDS)


def M(name, kind, tag=None, opt=False, alts=None):
    """a member / alternative: kind = a key of KINDS or "choice" (untagged CHOICE with alternatives `alts`)"""
    return {"name": name, "kind": kind, "tag": tag, "opt": opt, "alts": alts}


def member_text(m):
    pre = ""
    if m["tag"]:
        pre = "[%d] %s" % (m["tag"][1], "EXPLICIT " if m["tag"][0] == "e" else "")
    if m["kind"] == "choice":
        body = "CHOICE { %s }" % ", ".join(member_text(a) for a in m["alts"])
    elif m["kind"] == "ref":
        body = m["ref"]
    else:
        body = KINDS[m["kind"]][0]
    return "%s %s%s%s" % (m["name"], pre, body, " OPTIONAL" if m["opt"] else "")


def type_text(t):
    if t["cons"] == "of":
        return "SEQUENCE OF %s" % t["ref"]
    kw = {"seq": "SEQUENCE", "set": "SET", "choice": "CHOICE"}[t["cons"]]
    return "%s { %s%s }" % (kw, ", ".join(member_text(m) for m in t["ms"]), ", ..." if t.get("ext") else "")


def outer_tags(m, types=None):
    """the (class, number) pairs a TLV of this member may start with"""
    if m["tag"]:
        return [(2, m["tag"][1])]
    if m["kind"] == "choice":
        r = []
        for a in m["alts"]:
            r += outer_tags(a, types)
        return r
    if m["kind"] == "ref":
        t = types[m["ref"]]
        if t["cons"] == "choice":
            r = []
            for a in t["ms"]:
                r += outer_tags(a, types)
            return r
        return [(0, 17 if t["cons"] == "set" else 16)]
    return [(0, KINDS[m["kind"]][1])]


def legal(t, types=None):
    """X.680: distinct tags among the alternatives of a CHOICE, the members of a SET, and within every run of OPTIONAL
    members of a SEQUENCE together with the member that follows it"""
    def choices_ok(ms):
        for m in ms:
            if m["kind"] == "choice":
                tg = outer_tags(M("", "choice", None, False, m["alts"]), types)
                if len(tg) != len(set(tg)) or not choices_ok(m["alts"]):
                    return False
        return True
    if not choices_ok(t["ms"]):
        return False
    if t["cons"] in ("set", "choice"):
        tg = [x for m in t["ms"] for x in outer_tags(m, types)]
        return len(tg) == len(set(tg))
    run = []
    for m in t["ms"]:
        tg = outer_tags(m, types)
        if any(x in run for x in tg) or len(tg) != len(set(tg)):
            return False
        run = run + tg if m["opt"] else []
    return True


# ------------------------------------------------------------------------------------------ DER trees

def wrap_tag(node, tag, cons):
    if not tag:
        return node
    if tag[0] == "e":
        return ("x", bytes([0xa0 | tag[1]]), [node])
    return (node[0], bytes([0x80 | tag[1] | (0x20 if cons else 0)]), node[2])


def member_node(m, vi, types=None, depth=0):
    """DER tree of sample value number vi of a member"""
    if m["kind"] == "choice":
        a = m["alts"][vi % len(m["alts"])]
        n = member_node(a, vi // len(m["alts"]), types, depth)
        return ("x", bytes([0xa0 | m["tag"][1]]), [n]) if m["tag"] else n          # a tag on a CHOICE is explicit
    if m["kind"] == "ref":
        t = types[m["ref"]]
        n = value_node(t, pattern_members(t, vi), vi, types)
        if t["cons"] == "choice":
            return ("x", bytes([0xa0 | m["tag"][1]]), [n]) if m["tag"] else n
        return wrap_tag(n, m["tag"], True)
    text, u, cons, vals = KINDS[m["kind"]]
    v = vals[vi % len(vals)]
    base = ("c", bytes([u | 0x20]), list(v)) if cons else ("p", bytes([u]), v)
    return wrap_tag(base, m["tag"], cons)


def tag_key(node):
    b = node[1][0]
    return (b >> 6, b & 31)


def sort_key_member(m, types=None):
    return min(outer_tags(m, types))


def pattern_members(t, pi):
    """which members a value number pi holds (SEQUENCE / SET), or which alternative (CHOICE)"""
    ms = t["ms"]
    if t["cons"] == "choice":
        return [pi % len(ms)]
    opt = [i for i, m in enumerate(ms) if m["opt"]]
    if pi == 0:
        on = set(opt)
    elif pi == 1:
        on = set()
    elif pi == 2:
        on = set(opt[0::2])
    elif pi == 3:
        on = set(opt[1::2])
    elif pi == 4:
        on = set(opt[:1])
    elif pi == 5:
        on = set(opt[-1:])
    else:
        on = set(o for k, o in enumerate(opt) if (pi * 2654435761 >> (k % 24)) & 1)
    return [i for i, m in enumerate(ms) if not m["opt"] or i in on]


def value_node(t, present, vi, types=None):
    """(DER tree, [(member index, child node)])"""
    ms = t["ms"]
    if t["cons"] == "choice":
        i = present[0]
        return member_node(ms[i], vi, types)
    kids = [(i, member_node(ms[i], vi + i, types)) for i in present]
    if t["cons"] == "set":
        kids.sort(key=lambda x: tag_key(x[1]))          # X.690 10.3: by the tag actually encoded (untagged CHOICE: of the alternative)
    return ("c", bytes([0x31 if t["cons"] == "set" else 0x30]), [k[1] for k in kids])


def ser(node, mode="der", target=None, path=(), force=None):
    """serialise a tree: der = definite minimal; indef = every constructed TLV indefinite; mixed = the target
    (a path of child indexes) indefinite, the rest definite.  Nodes: ("p", tag, contents), ("c", tag, children),
    ("x", tag, [child]) = EXPLICIT tag wrapper.  A wrapper takes the form of what it wraps and a wrapped primitive TLV
    keeps its wrapper definite: a tag chain that mixes the two forms is the open finding C04-ber-chain-mixed-lengths,
    not this layer's subject."""
    if node[0] == "p":
        return node[1] + ber_len(len(node[2])) + node[2]
    if node[0] == "x" and len(node[2]) == 1:
        chain = [node]
        paths = [path]
        k, p = node[2][0], path + (0,)
        while k[0] == "x" and len(k[2]) == 1:
            chain.append(k)
            paths.append(p)
            k, p = k[2][0], p + (0,)
        if k[0] == "p":
            form = False
            body = ser(k)
        else:
            form = bool(force) or mode == "indef" or (mode == "mixed" and (p == target or target in paths))
            body = ser(k, mode, target, p, force=form)
        for n in reversed(chain):
            body = n[1] + ((b"\x80" + body + b"\x00\x00") if form else (ber_len(len(body)) + body))
        return body
    indef = (mode == "indef" or (mode == "mixed" and path == target)) if force is None else force
    body = b"".join(ser(k, mode, target, path + (i,)) for i, k in enumerate(node[2]))
    if indef:
        return node[1] + b"\x80" + body + b"\x00\x00"
    return node[1] + ber_len(len(body)) + body


def get_at(node, path):
    for i in path:
        node = node[2][i]
    return node


def put_at(node, path, new):
    if not path:
        return new
    kids = list(node[2])
    kids[path[0]] = put_at(kids[path[0]], path[1:], new)
    return (node[0], node[1], kids)


def tree_nodes(node, out=None):
    """multiset material: (tag octets, contents) for primitive, (tag octets, None) for constructed TLVs"""
    if out is None:
        out = []
    if node[0] == "p":
        out.append((node[1], node[2]))
    else:                       # "c" and "x"; an EMPTY constructed TLV counts as empty contents (a string member
        out.append((node[1], None if node[2] else b""))         # decodes the constructed form: BER allows it)
        for k in node[2]:
            tree_nodes(k, out)
    return out


def ber_nodes(b):
    """the same multiset material read back from octets (any framing); None when the octets are not one TLV"""
    try:
        root = parse_ber_any(b, 0)
    except (ValueError, IndexError, RecursionError):
        return None
    if root.end != len(b):
        return None
    out = []
    stack = [root]
    while stack:
        n = stack.pop()
        if n.cons:
            out.append((n.tag, None if n.kids else b""))
            stack.extend(n.kids)
        else:
            out.append((n.tag, n.content))
    return sorted(out, key=repr)


def tag_value_of(node):
    """ber_tlv_tag_t of a node (number * 4 + class); tag numbers < 31 here"""
    b = node[1][0]
    return (b & 31) * 4 + (b >> 6)


# ------------------------------------------------------------------------------------------ type shapes

def run_members(r, first_ctx, avoid=()):
    """r OPTIONAL members with context tags first_ctx.. over the kinds in rotation"""
    ks = [k for k in RUN_KINDS if k not in avoid]
    return [M("o%d" % i, ks[i % len(ks)], ("i", first_ctx + i), True) for i in range(r)]


def directed_types(rng):
    T = []

    def add(name, cons, ms, ext=False):
        t = {"name": name, "cons": cons, "ms": ms, "ext": ext}
        assert legal(t), (name, type_text(t))
        T.append(t)
    # 1. optional runs of r members between two members bearing the same tag; run longer than 8 -> bsearch
    for n, r in enumerate([0, 1, 2, 7, 8, 9, 10, 12]):
        k = REUSE_KINDS[n % len(REUSE_KINDS)]
        k2 = REUSE_KINDS[(n + 3) % len(REUSE_KINDS)]
        # universal tag re-used; the first bearer OPTIONAL (part of the run) or mandatory
        add("RuO%d" % r, "seq", [M("pre", k, None, True)] + run_members(r, 1) + [M("sep", "bool", ("i", 20)), M("post", k, None, True)])
        add("RuM%d" % r, "seq", [M("pre", k2, None, False)] + run_members(r, 1) + [M("sep", "null", ("i", 20)), M("post", k2, None, True), M("last", "int", ("i", 21), True)])
        # context tag re-used
        add("RcO%d" % r, "seq", [M("pre", k, ("i", 0), True)] + run_members(r, 1) + [M("sep", "bool", ("i", 20)), M("post", k2, ("i", 0), True)])
    # run made of universal tags only (no context tags): all 13 distinct kinds, 12 of them OPTIONAL
    add("RuAll", "seq", [M("u%d" % i, k, None, i != 12) for i, k in enumerate(RUN_KINDS)] + [M("again", "bool", None, True)])
    # 2. an untagged CHOICE member (the shape of the seeded change) for every kind re-used behind the separator
    ch = [M("p", "prt"), M("u", "utf8")]
    for k in REUSE_KINDS:
        sep = "null" if k == "bool" else "bool"
        add("CuK%s" % k, "seq", [M("pre", k, None, True), M("c", "choice", None, True, ch), M("sep", sep), M("post", k, None, True)])
    add("CuMand", "seq", [M("pre", "oid", None, True), M("c", "choice", None, False, ch), M("post", "oid", None, True)])
    add("CuFirst", "seq", [M("c", "choice", None, True, ch), M("a", "os", None, True), M("sep", "bool"), M("b", "os", None, True)])
    add("CuLast", "seq", [M("a", "int"), M("b", "int", None, True), M("sep", "bool"), M("b2", "int", None, True), M("c", "choice", None, True, ch)])
    add("CuTwo", "seq", [M("a", "oid", None, True), M("c", "choice", None, True, ch), M("sep", "enum"), M("a2", "oid", None, True),
                         M("d", "choice", None, True, [M("p", "prt"), M("i", "ia5"), M("n", "choice", None, False, [M("x", "bool"), M("y", "int")])]),
                         M("e", "roid", None, True), M("sep2", "null"), M("f", "roid", None, True)])
    add("CuTagged", "seq", [M("pre", "os", ("i", 0), True), M("c", "choice", ("i", 1), True, ch), M("c2", "choice", None, True, [M("q", "ia5"), M("r", "bits")]),
                            M("sep", "bool", ("i", 2)), M("post", "os", ("i", 0), True)])
    add("CuExt", "seq", [M("pre", "oid", None, True), M("c", "choice", None, True, ch), M("sep", "bool"), M("post", "oid", None, True)], ext=True)
    # 3. the same universal tag at several positions
    add("Same1", "seq", [M("a", "int"), M("b", "int"), M("c", "bool"), M("d", "int", None, True), M("e", "bool"), M("f", "int", None, True)])
    add("Same2", "seq", [M("a", "seq"), M("b", "seqof"), M("c", "seq", None, True), M("d", "os"), M("e", "os", None, True), M("f", "seqof", None, True), M("g", "bool"), M("h", "seq")])
    add("Same3", "seq", [M("a", "oid"), M("b", "oid"), M("c", "oid", None, True), M("d", "roid"), M("e", "oid", None, True), M("f", "roid", None, True)])
    # 4. SET
    for n in (1, 2, 5, 9, 17, 33):
        if n <= 31:
            ms = [M("m%d" % i, ALL_KINDS[i % len(ALL_KINDS)], ("i", (i * 7) % 31), i % 3 == 1) for i in range(n)]
        else:
            ms = [M("m%d" % i, ALL_KINDS[i % len(ALL_KINDS)], ("i", i), i % 3 == 1) for i in range(31)] + [M("m31", "prt", None, True), M("m32", "utf8", None, False)]
        add("St%d" % n, "set", ms)
    add("StUniv", "set", [M("u%d" % i, k, None, i % 2 == 1) for i, k in enumerate(RUN_KINDS)])
    add("StCh", "set", [M("a", "int", ("i", 0)), M("c", "choice", None, False, ch), M("b", "oid", None, True), M("d", "choice", None, True, [M("x", "bool"), M("y", "os")])])
    add("StExt", "set", [M("a", "oid", ("i", 0), True), M("b", "os", ("i", 1)), M("c", "seq", ("i", 2), True)], ext=True)
    # 5. CHOICE
    for n in (1, 2, 9, 17, 31):
        add("Ch%d" % n, "choice", [M("a%d" % i, ALL_KINDS[i % len(ALL_KINDS)], ("i", (i * 11) % 31)) for i in range(n)])
    add("ChUniv", "choice", [M("u%d" % i, k) for i, k in enumerate(RUN_KINDS[:11])] + [M("n", "choice", None, False, [M("x", "seq"), M("y", "setof")])])
    add("ChExt", "choice", [M("a", "oid"), M("b", "os", ("i", 0)), M("c", "choice", None, False, ch)], ext=True)
    return T


def wrapper_types(base, types):
    """a target type as element of SEQUENCE OF, as a member with data around it, under an EXPLICIT tag"""
    out = []
    n = base["name"]
    out.append({"name": "Of" + n, "cons": "of", "ref": n, "ms": [], "wraps": n, "path": (1,)})
    out.append({"name": "In" + n, "cons": "seq", "ms": [M("h", "int"), M("x", "ref", ("i", 0), False), M("t", "os", ("i", 1), True)], "wraps": n,
                "path": (1,) if base["cons"] != "choice" else (1, 0)})
    out[-1]["ms"][1]["ref"] = n
    out.append({"name": "Ex" + n, "cons": "seq", "ms": [M("x", "ref", ("e", 5), False)], "wraps": n, "path": (0, 0)})
    out[-1]["ms"][0]["ref"] = n
    return out


def random_types(rng, count):
    out = []
    tries = 0
    while len(out) < count and tries < count * 200:
        tries += 1
        cons = rng.choice(["seq", "seq", "seq", "set", "choice"])
        n = rng.choice([2, 3, 4, 5, 6, 8, 11, 14])
        ms = []
        for i in range(n):
            if rng.chance(1, 7):
                alts = [M("a%d" % j, rng.choice(ALL_KINDS), ("i", 10 + j) if rng.chance(1, 3) else None) for j in range(rng.range(2, 3))]
                m = M("m%d" % i, "choice", ("i", i) if rng.chance(1, 4) else None, cons == "seq" and rng.chance(1, 2), alts)
            else:
                tg = rng.choice([None, None, ("i", rng.below(6)), ("i", i), ("e", rng.below(6))])
                kd = rng.choice(ALL_KINDS)
                if kd == "enum" and tg and tg[0] == "e":
                    # an inline ENUMERATED gets a descriptor of its own, and under an EXPLICIT tag asn1c then writes the tag
                    # twice (type's tags AND member table): the site of the open finding C02-explicit-tag-unsigned-member,
                    # whose recorded predicate (unsigned INTEGER) is narrower than the defect; valid DER is rejected
                    tg = ("i", tg[1])
                m = M("m%d" % i, kd, tg, cons != "choice" and rng.chance(3, 5))
            ms.append(m)
        t = {"name": "Rn%d" % len(out), "cons": cons, "ms": ms, "ext": rng.chance(1, 8)}
        if legal(t):
            out.append(t)
    return out


def gen_modules(rng, tier):
    """-> [module dict for modbuild.build_modules] with m["tm"] = {type name: type}"""
    d = directed_types(rng)
    r = random_types(rng, 10 if tier == "quick" else 40)
    types = {t["name"]: t for t in d + r}
    bases = [types[n] for n in ("RuO9", "RuM10", "CuKoid", "CuKos", "CuTwo", "St9", "StCh", "Ch9", "ChUniv")] + r[:3]
    w = []
    for b in bases:
        w += wrapper_types(b, types)
    for t in w:
        types[t["name"]] = t
    groups = [("TMA", d[:len(d) // 2]), ("TMB", d[len(d) // 2:]), ("TMC", r)]
    mods = []
    for name, ts in groups:
        ts = list(ts)
        # a wrapper lives in the module of the type it wraps
        ts += [x for x in w if any(x["wraps"] == t["name"] for t in ts)]
        text = "%s DEFINITIONS IMPLICIT TAGS ::= BEGIN\n%sEND\n" % (name, "".join("  %s ::= %s\n" % (t["name"], type_text(t)) for t in ts))
        mods.append({"name": name, "text": text, "defs": [(t["name"], None) for t in ts], "tm": {t["name"]: t for t in ts}, "types": types, "trees": {}})
    return mods


# ------------------------------------------------------------------------------------------ values

def values_of(t, types, tier):
    """values of a type with the place the structural faults are applied to:
    {label, tree, path: the target TLV inside tree, base: the type of the target, kids: [(member index, node)] the
    children of the target (for a CHOICE: the one TLV itself), vi}"""
    out = []

    def rec(label, tree, path, b, vi):
        kids = target_children(b, pattern_members(b, vi), vi, types)
        tgt = get_at(tree, path)
        if b["cons"] == "choice":
            assert tgt == kids[0][1], (t["name"], label)
        else:
            assert tgt[0] == "c" and tgt[2] == [k[1] for k in kids], (t["name"], label)
        out.append({"label": label, "tree": tree, "path": path, "base": b, "kids": kids, "vi": vi})
    if t["cons"] == "of":
        b = types[t["ref"]]
        for pi in range(3):
            els = [value_node(b, pattern_members(b, pi + e), pi + e, types) for e in range(pi + 1)]
            rec("of%d" % pi, ("c", b"\x30", els), (pi,), b, 2 * pi)
        return out
    if t.get("wraps"):
        b = types[t["wraps"]]
        xi = [i for i, m in enumerate(t["ms"]) if m["kind"] == "ref"][0]
        for pi in range(4):
            rec("w%d" % pi, value_node(t, pattern_members(t, pi % 2), pi, types), t["path"], b, pi + xi)
        return out
    npat = (6 if tier == "quick" else 10) if t["cons"] != "choice" else min(len(t["ms"]) * 2, 24)
    seen = set()
    for pi in range(npat):
        pres = tuple(pattern_members(t, pi))
        if (pres, pi % 3) in seen:
            continue
        seen.add((pres, pi % 3))
        rec("p%d" % pi, value_node(t, list(pres), pi, types), (), t, pi)
    return out


def target_children(b, present, vi, types):
    """the children of the target TLV as (member index, node), in the order of value_node"""
    if b["cons"] == "choice":
        return [(present[0], member_node(b["ms"][present[0]], vi, types))]
    kids = [(i, member_node(b["ms"][i], vi + i, types)) for i in present]
    if b["cons"] == "set":
        kids.sort(key=lambda x: tag_key(x[1]))
    return kids


def rebuild(v, newkids, mode="der"):
    """octets of the value with the children of its target replaced (a CHOICE target: the TLV itself replaced by the
    list, spliced into what encloses it; at top level the TLVs are simply put one behind the other)"""
    nodes = [k[1] for k in newkids]
    path = v["path"]
    if v["base"]["cons"] != "choice":
        tgt = get_at(v["tree"], path)
        return ser(put_at(v["tree"], path, (tgt[0], tgt[1], nodes)), mode, path)
    if not path:
        return b"".join(ser(n, mode, ()) for n in nodes)
    par = get_at(v["tree"], path[:-1])
    kids = list(par[2])
    kids[path[-1]:path[-1] + 1] = nodes
    return ser(put_at(v["tree"], path[:-1], (par[0], par[1], kids)), mode, path[:-1])


def rebuilt_tree_nodes(v, newkids):
    """the multiset material of rebuild(v, newkids), from the trees"""
    nodes = [k[1] for k in newkids]
    path = v["path"]
    out = []
    if v["base"]["cons"] != "choice":
        tgt = get_at(v["tree"], path)
        tree_nodes(put_at(v["tree"], path, (tgt[0], tgt[1], nodes)), out)
    elif not path:
        for n in nodes[:1]:
            tree_nodes(n, out)
    else:
        par = get_at(v["tree"], path[:-1])
        kids = list(par[2])
        kids[path[-1]:path[-1] + 1] = nodes
        tree_nodes(put_at(v["tree"], path[:-1], (par[0], par[1], kids)), out)
    return out


# ------------------------------------------------------------------------------------------ structural faults

def struct_faults(kids, b, vi, types, rng, q):
    """kids = [(member index, node)] of the target.  -> [(kind, [(member index, node)])]"""
    n = len(kids)
    out = []
    ms = b["ms"]

    def alt(i):
        mi = kids[i][0]
        return (mi, member_node(ms[mi], vi + mi + 1, types))
    cap_pairs = 10 if q else 30
    for i in range(n):
        out.append(("dupadj", kids[:i + 1] + [kids[i]] + kids[i + 1:]))
        out.append(("dupalt", kids[:i + 1] + [alt(i)] + kids[i + 1:]))
        out.append(("dupaltrev", kids[:i] + [alt(i)] + kids[i:]))
        out.append(("del", kids[:i] + kids[i + 1:]))
    pairs = [(i, j) for i in range(n) for j in range(n) if i != j]
    direct = [(0, n - 1), (n - 1, 0), (0, 1), (1, 0), (0, 2), (2, 0)] if n >= 3 else pairs
    chosen = [p for p in direct if p in pairs] + cap(pairs, cap_pairs, rng)
    for (i, j) in sorted(set(chosen)):
        # a copy of member i behind member j (j > i: at distance behind; j < i: in front of its own place)
        c = list(kids)
        c.insert(j + 1, kids[i] if rng.chance(1, 2) else alt(i))
        out.append(("dupdist", c))
        if i < j:
            c = list(kids)
            c[i], c[j] = c[j], c[i]
            out.append(("swap", c))
            c = list(kids)
            x = c.pop(j)
            c.insert(i, x)
            out.append(("early", c))
            c = list(kids)
            x = c.pop(i)
            c.insert(j, x)
            out.append(("late", c))
    runs = [(i, j) for i in range(n) for j in range(i + 1, n)]
    for (i, j) in cap(runs, 6 if q else 16, rng):
        out.append(("reprun", kids[:j + 1] + kids[i:j + 1] + kids[j + 1:]))
    if n:
        out.append(("all2", kids + kids))
    # absent members of the type put in at every position ("a member of a later position early")
    here = set(k[0] for k in kids)
    absent = [i for i in range(len(ms)) if i not in here]
    spots = [(a, p) for a in absent for p in range(n + 1)]
    for (a, p) in cap(spots, 12 if q else 40, rng):
        out.append(("foreign", kids[:p] + [(a, member_node(ms[a], vi + a, types))] + kids[p:]))
    if b["cons"] == "choice":
        # the TLV of every alternative where one is expected (valid), and two of them
        for a in range(len(ms)):
            out.append(("otheralt", [(a, member_node(ms[a], vi + 1, types))]))
    return out


def index_faults(n, rng, q):
    """the faults that only re-arrange the children a value has, as lists of child indexes (what can be done to the
    XER text of the same value)"""
    out = []
    base = list(range(n))
    for i in range(n):
        out.append(("dupadj", base[:i + 1] + [i] + base[i + 1:]))
        out.append(("del", base[:i] + base[i + 1:]))
    pairs = [(i, j) for i in range(n) for j in range(n) if i != j]
    direct = [p for p in [(0, n - 1), (n - 1, 0), (0, 1), (1, 0), (0, 2), (2, 0)] if p in pairs]
    for (i, j) in sorted(set(direct + cap(pairs, 6 if q else 20, rng))):
        c = list(base)
        c.insert(j + 1, i)
        out.append(("dupdist", c))
        if i < j:
            c = list(base)
            c[i], c[j] = c[j], c[i]
            out.append(("swap", c))
            c = list(base)
            c.insert(i, c.pop(j))
            out.append(("early", c))
    if n:
        out.append(("all2", base + base))
    return out


def member_sig(m):
    """what decides whether the TLV of one member can be decoded by another: kind, tagging, alternatives"""
    if m["kind"] == "choice":
        return ("choice", m["tag"], tuple(member_sig(a) for a in m["alts"]))
    return (m["kind"], m["tag"], m.get("ref"))


# ------------------------------------------------------------------------------------------ XER elements

def xer_children(x):
    """split <Root>child...child</Root> into (open tag, [child element text], close tag); None when the text is not
    of that form (a leaf type)"""
    m = re.match(rb"^<([A-Za-z0-9_-]+)>(.*)</\1>\s*$", x, re.S)
    if not m:
        return None
    body = m.group(2)
    kids = []
    pos = 0
    while pos < len(body):
        if body[pos:pos + 1] != b"<":
            return None
        mm = re.match(rb"<([A-Za-z0-9_-]+)(/?)>", body[pos:])
        if not mm:
            return None
        name = mm.group(1)
        if mm.group(2):
            end = pos + mm.end()
        else:
            depth = 0
            end = None
            for t in re.finditer(rb"<(/?)([A-Za-z0-9_-]+)(/?)>", body[pos:]):
                if t.group(3):
                    continue
                if t.group(2) == name:
                    depth += -1 if t.group(1) else 1
                    if depth == 0:
                        end = pos + t.end()
                        break
            if end is None:
                return None
        kids.append((name.decode(), body[pos:end]))
        pos = end
    return (b"<" + m.group(1) + b">", kids, b"</" + m.group(1) + b">")


def parse_d4m(o):
    """d4m line -> (d4 part, pres, rt)"""
    m = re.match(r"^(.*) pres=(\S+) rt=(\S+)( ATEXIT)?$", o)
    if not m:
        return None
    return m.group(1) + (m.group(4) or ""), m.group(2), m.group(3)


def parse_tm4(o):
    f = o.split()
    if len(f) != 5 or f[0] not in ("SEQ", "SET", "CHOICE"):
        return None
    d = {"kind": f[0], "count": int(f[1].split("=")[1]), "ext": f[2].split("=")[1], "els": f[3].split("=")[1], "map": f[4].split("=")[1]}
    d["opt"] = [int(e.split(":")[1]) for e in d["els"].split(",")] if d["els"] != "-" else []
    return d
