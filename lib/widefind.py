"""widefind — the wide layer of C01 made usable: an AST-returning generator over
the wide type algebra (same algebra and constants as lib/widegen.py) and the
classifier of the known defects of vlm/asn1c that the round-trip property meets
there.  Built from the triage in notes/design/C01-wide.md (driver:
notes/wide_triage.py).

  FEATURES                 the WGen features the wide layer of C01 uses
  WideGen(rng, features)   .module(name, ntypes) -> {name, default, defs, text, asts, wide}
  generate(rng, n)         n modules
  classify(module, typename, syntax, status, stderr) -> finding id | None

AST of a type (dict, key "k"):
  BOOLEAN NULL REAL OID ROID UTCTime GeneralizedTime          leaves without parameters
  INTEGER  {cons, lo, hi, ext, multi}        lo/hi None = MIN/MAX or unconstrained (cons == "")
  OCTET STRING / BIT STRING {cons, smin, smax, sext}          smax None = MAX/unconstrained
  STRING   {stype, cons, smin, smax, sext, alpha}
  ENUMERATED {items [(name, value)], ext (bool), extitems [(name, value)]}
  REF      {name}
  SEQUENCE / SET / CHOICE {comps [ {name, tag, type, optional, default, self} ], extpos (index of "..." | None)}
  SEQUENCE OF / SET OF {cons, smin, smax, sext, elem}
"""
import re, os
from vlib import Rng
from widegen import STRS, INT_CONS, SIZE_CONS, ALPHA

EXTRA = os.path.join(os.path.dirname(os.path.dirname(os.path.abspath(__file__))), "harness", "moddrv_wide.inc")
ALL_FEATURES = ["ext", "default", "set", "recursion", "real", "time", "oid", "strings", "bits", "enum"]


def parse_int_cons(c):
    """-> lo, hi, ext, multi (several ranges)"""
    if not c:
        return None, None, False, False
    body = c.strip()[1:-1]
    ext = body.endswith(",...")
    if ext:
        body = body[:-4]
    parts = [p.strip() for p in body.split("|")]
    los, his = [], []
    for p in parts:
        a, b = p.split("..")
        los.append(None if a == "MIN" else int(a))
        his.append(None if b == "MAX" else int(b))
    lo = None if None in los else min(los)
    hi = None if None in his else max(his)
    return lo, hi, ext, len(parts) > 1


def parse_size_cons(c):
    """-> smin, smax, sext"""
    if not c:
        return 0, None, False
    m = re.match(r"\(SIZE\((\d+)(?:\.\.(\d+|MAX))?(,\.\.\.)?\)\)$", c)
    lo = int(m.group(1))
    hi = lo if m.group(2) is None else (None if m.group(2) == "MAX" else int(m.group(2)))
    return lo, hi, bool(m.group(3))


def int_needs_specifics(t):
    """INTEGER mapped to unsigned long / kept with specifics: non-negative range reaching beyond 2^31-1"""
    return t["lo"] is not None and t["lo"] >= 0 and (t["hi"] is None or t["hi"] > 2**31 - 1)


# ---------------------------------------------------------------------------
# permitted alphabets at the case-split boundaries of the UPER string codec (OCTET_STRING_per_put/get_characters):
# N characters need b = ceil(log2 N) bits; the code of a character is the character itself when the highest one is
# <= 2^b - 1 (X.691 30.5.4), its index otherwise.  Boundaries: N = 2^k - 1, 2^k, 2^k + 1 and highest = 2^b - 1, 2^b, 2^b + 1.

# Generated modules use the quoted notation only: asn1c cannot parse ANY number after a Tuple/Quadruple ({0,1}, {0,0,1,0}) in the same
# module (asn1p_l.l:_lex_atoi leaves errno = ERANGE behind, the next number token is then refused; a parser defect, property C10/C12),
# so such alphabets live in the hand-made module WB1 only, after every type that needs a number.
SWEEP = {"IA5String": (0x20, 0x7e, 6), "VisibleString": (0x20, 0x7e, 6), "BMPString": (0x20, 0x7e, 6), "UniversalString": (0x20, 0x7e, 6)}
ALPHA_MORE = {"NumericString": ['(FROM("0".."8"))', '(FROM(" "))', '(FROM("0".."7"))'], "PrintableString": ['(FROM("0".."9"))', '(FROM("a"))', '(FROM("A".."Z" | "a".."z"))'],
              "IA5String": ['(FROM(" ".."@"))'], "VisibleString": ['(FROM(" ".."@"))', '(FROM("~"))']}


def chr_lit(stype, c, quoted_ok=True):
    """ASN.1 notation of the one-character value c of the string type"""
    if quoted_ok and 0x20 <= c <= 0x7e and c != 0x22:
        return '"%s"' % chr(c)
    if stype == "IA5String":
        return "{%d,%d}" % (c // 16, c % 16)
    assert stype in ("BMPString", "UniversalString"), (stype, c)
    return "{%d,%d,%d,%d}" % (c >> 24, (c >> 16) & 255, (c >> 8) & 255, c & 255)


def alpha_text(stype, ranges):
    """(FROM(a..b | c..d)) for a list of inclusive code ranges"""
    q = all(0x20 <= x <= 0x7e and x != 0x22 for ab in ranges for x in ab)
    parts = []
    for a, b in ranges:
        parts.append(chr_lit(stype, a, q) if a == b else "%s..%s" % (chr_lit(stype, a, q), chr_lit(stype, b, q)))
    return "(FROM(%s))" % " | ".join(parts)


def bits_for(n):
    b = 0
    while (1 << b) < n:
        b += 1
    return b


def rand_alpha(r, stype):
    lo_c, hi_c, maxb = SWEEP[stype]
    for _ in range(50):
        b = r.range(0, maxb)
        n = max(1, (1 << b) + r.choice([-1, 0, 1]))
        bb = bits_for(n)
        hi = r.choice([(1 << bb) - 1, 1 << bb, (1 << bb) + 1, r.range(lo_c, hi_c)])
        lo = hi - n + 1
        if lo < lo_c or hi > hi_c:
            continue
        if 0x22 in (lo, hi):
            continue
        if n >= 4 and r.chance(1, 4):         # a hole: asn1c emits a character map
            m = r.range(lo + 1, hi - 1)
            if 0x22 in (m - 1, m + 1):
                continue
            return alpha_text(stype, [(lo, m - 1), (m + 1, hi)])
        return alpha_text(stype, [(lo, hi)])
    return ""


class WideGen:
    """same algebra and the same constant tables as widegen.WGen, but every type
    comes back as (AST, kind) and the text is rendered from the AST"""

    def __init__(self, rng, maxdepth=3, features=None, avoid_c10=True):
        self.rng = rng
        self.maxdepth = maxdepth
        self.f = set(features if features is not None else ALL_FEATURES)
        self.n = 0
        # two constructs asn1c cannot compile (known, property C10/C12; lib/modgen.py avoids them too):
        # an anonymous X OF directly inside an X OF (parser assertion with an inner SIZE, Member__Member structs)
        # and a nested X OF whose anonymous INTEGER element needs its own specifics (undeclared asn_DEF_Member_N)
        self.avoid_c10 = avoid_c10

    def ident(self, p="c"):
        self.n += 1
        return "%s%d" % (p, self.n)

    def leaf(self):
        r = self.rng
        kinds = ["BOOLEAN", "NULL", "INTEGER", "INTEGER", "OCTET STRING"]
        for f, k in (("enum", "ENUMERATED"), ("real", "REAL"), ("bits", "BIT STRING"), ("strings", "STR"), ("oid", "OID"), ("time", "TIME")):
            if f in self.f:
                kinds.append(k)
        k = r.choice(kinds)
        if k == "INTEGER":
            c = r.choice(INT_CONS)
            lo, hi, ext, multi = parse_int_cons(c)
            return {"k": "INTEGER", "cons": c, "lo": lo, "hi": hi, "ext": ext, "multi": multi}, "int"
        if k in ("OCTET STRING", "BIT STRING"):
            c = r.choice(SIZE_CONS if k == "OCTET STRING" else SIZE_CONS[:9])
            lo, hi, ext = parse_size_cons(c)
            return {"k": k, "cons": c, "smin": lo, "smax": hi, "sext": ext}, ("oct" if k == "OCTET STRING" else "bits")
        if k == "ENUMERATED":
            n = r.range(1, 5)
            vals = sorted(set(r.choice([0, 1, 2, 3, 5, 10, 100, 127, 128, -1, -5, 255, 256]) for _ in range(n)))
            items = [("e%d" % i, v) for i, v in enumerate(vals)]
            ext, extitems = False, []
            if "ext" in self.f and r.chance(1, 3):
                ext = True
                if r.chance(1, 2):
                    extitems = [("x1", 1000)]
            return {"k": "ENUMERATED", "items": items, "ext": ext, "extitems": extitems}, "enum"
        if k == "STR":
            s = r.choice(STRS)
            if r.chance(1, 2):
                c = r.choice(SIZE_CONS[:8])
                lo, hi, ext = parse_size_cons(c)
                return {"k": "STRING", "stype": s, "cons": c, "smin": lo, "smax": hi, "sext": ext, "alpha": ""}, "str"
            a = rand_alpha(r, s) if (s in SWEEP and r.chance(1, 2)) else r.choice(ALPHA[s] + ALPHA_MORE.get(s, []))
            if a and r.chance(1, 4):           # SIZE and FROM together (two constraints in series)
                c = r.choice(SIZE_CONS[2:8])
                lo, hi, ext = parse_size_cons(c)
                return {"k": "STRING", "stype": s, "cons": c + " " + a, "smin": lo, "smax": hi, "sext": ext, "alpha": a}, "str"
            return {"k": "STRING", "stype": s, "cons": a, "smin": 0, "smax": None, "sext": False, "alpha": a}, "str"
        if k == "OID":
            return {"k": r.choice(["OID", "ROID"])}, "oid"
        if k == "TIME":
            return {"k": r.choice(["UTCTime", "GeneralizedTime"])}, "time"
        if k == "REAL":
            return {"k": "REAL"}, "real"
        return {"k": k}, k.lower()

    def default_for(self, kind, ast):
        r = self.rng
        if kind == "int" and ast["cons"] == "":
            v = r.choice([0, 1, -1, 5, 255])
            # INTEGER DEFAULT <negative>: asn1c emits the identifier asn_DFL_n_cmp_-1 (does not compile; C10)
            return "%d" % (5 if (v < 0 and self.avoid_c10) else v)
        if kind == "boolean":
            return r.choice(["TRUE", "FALSE"])
        return None

    def ty(self, depth, default, refs, selfname=None):
        r = self.rng
        if depth >= self.maxdepth or r.chance(2, 5):
            if refs and r.chance(1, 4):
                return {"k": "REF", "name": r.choice(refs)}, "ref"
            return self.leaf()
        ks = ["SEQUENCE", "SEQUENCE", "CHOICE", "SEQUENCE OF", "SET OF"] + (["SET"] if "set" in self.f else [])
        k = r.choice(ks)
        if k in ("SEQUENCE OF", "SET OF"):
            el, _ = self.ty(depth + 1, default, refs, selfname)
            for _ in range(20):
                if not (self.avoid_c10 and (el["k"] in ("SEQUENCE OF", "SET OF") or (el["k"] == "INTEGER" and int_needs_specifics(el)))):
                    break
                el, _ = self.ty(depth + 1, default, refs, selfname)
            else:
                el = {"k": "BOOLEAN"}
            c = r.choice(SIZE_CONS[:8])
            lo, hi, ext = parse_size_cons(c)
            return {"k": k, "cons": c, "smin": lo, "smax": hi, "sext": ext, "elem": el}, "of"
        n = r.range(1, 5)
        comps = []
        extpos = r.range(1, n) if ("ext" in self.f and r.chance(1, 3)) else None
        for i in range(n):
            name = self.ident()
            c = {"name": name, "tag": None if default == "AUTOMATIC" else i, "optional": False, "default": None, "self": False}
            if selfname and "recursion" in self.f and k != "CHOICE" and r.chance(1, 8):
                c["type"], c["optional"], c["self"] = {"k": "REF", "name": selfname}, True, True
            else:
                t, kind = self.ty(depth + 1, default, refs, selfname)
                c["type"] = t
                if k != "CHOICE":
                    if r.chance(1, 3):
                        c["optional"] = True
                    elif "default" in self.f and r.chance(1, 4):
                        c["default"] = self.default_for(kind, t)
            comps.append(c)
        return {"k": k, "comps": comps, "extpos": extpos}, k.lower()

    def module(self, name, ntypes):
        r = self.rng
        default = r.choice(["EXPLICIT", "IMPLICIT", "AUTOMATIC", "AUTOMATIC"])
        lines = ["%s DEFINITIONS %s TAGS ::= BEGIN" % (name, default)]
        names, asts = [], {}
        for i in range(ntypes):
            tn = "W%d" % (i + 1)
            t, _ = self.ty(0, default, list(names), tn)
            lines.append("  %s ::= %s" % (tn, render(t)))
            names.append(tn)
            asts[tn] = t
        lines.append("END")
        return {"name": name, "default": default, "defs": [(n, None) for n in names], "trees": {}, "asts": asts,
                "text": "\n".join(lines) + "\n", "wide": True}


def render(t):
    k = t["k"]
    if k in ("BOOLEAN", "NULL", "REAL", "UTCTime", "GeneralizedTime"):
        return k
    if k == "OID":
        return "OBJECT IDENTIFIER"
    if k == "ROID":
        return "RELATIVE-OID"
    if k in ("INTEGER", "OCTET STRING", "BIT STRING"):
        return (k + " " + t["cons"]).strip()
    if k == "STRING":
        return (t["stype"] + " " + t["cons"]).strip()
    if k == "ENUMERATED":
        items = ["%s(%d)" % tuple(iv) for iv in t["items"]]
        if t["ext"]:
            items.append("...")
            items += ["%s(%d)" % tuple(iv) for iv in t["extitems"]]
        return "ENUMERATED { %s }" % ", ".join(items)
    if k == "REF":
        return t["name"]
    if k in ("SEQUENCE OF", "SET OF"):
        kw = k.split()[0]
        return "%s %s OF %s" % (kw, t["cons"], render(t["elem"])) if t["cons"] else "%s OF %s" % (kw, render(t["elem"]))
    comps = []
    for i, c in enumerate(t["comps"]):
        if t["extpos"] is not None and i == t["extpos"]:
            comps.append("...")
        suffix = " OPTIONAL" if c["optional"] else (" DEFAULT " + c["default"] if c["default"] is not None else "")
        tag = "" if c["tag"] is None else "[%d] " % c["tag"]
        comps.append("%s %s%s%s" % (c["name"], tag, render(c["type"]), suffix))
    if t["extpos"] is not None and t["extpos"] >= len(t["comps"]):
        comps.append("...")
    return "%s { %s }" % (k, ", ".join(comps))


def generate(rng, n, ntypes=5, features=None, prefix="W", maxdepth=3):
    g = WideGen(rng, maxdepth=maxdepth, features=FEATURES if features is None else features)
    return [g.module("%s%d" % (prefix, i), ntypes) for i in range(n)]


def boundary_module(name="WB0"):
    """hand-made module + hand-made DER values for corners that asn_random_fill reaches rarely: every item of an
    ENUMERATED with two extension items, extension alternatives/additions of CHOICE and SEQUENCE, BIT STRINGs with
    1..7 unused bits (last bit 1: the trailing-zero finding stays out), the REAL special values and a few exact ones.
    AUTOMATIC TAGS.  Returns a module dict with "fixed_values" {type: [der hex]}"""
    def comp(name, t, optional=False):
        return {"name": name, "tag": None, "type": t, "optional": optional, "default": None, "self": False}
    enum = {"k": "ENUMERATED", "items": [("a", 0), ("b", 5)], "ext": True, "extitems": [("x", 10), ("y", 20)]}
    enum2 = {"k": "ENUMERATED", "items": [("p", 1)], "ext": True, "extitems": [("q", 2)]}
    bits = lambda c: dict({"k": "BIT STRING", "cons": c}, **dict(zip(("smin", "smax", "sext"), parse_size_cons(c))))
    ia5 = {"k": "STRING", "stype": "IA5String", "cons": "", "smin": 0, "smax": None, "sext": False, "alpha": ""}
    integer = {"k": "INTEGER", "cons": "", "lo": None, "hi": None, "ext": False, "multi": False}
    asts = {
        "W1": enum,
        "W2": {"k": "SEQUENCE", "extpos": 2, "comps": [comp("c1", {"k": "REF", "name": "W1"}), comp("c2", enum2, True), comp("c3", {"k": "REF", "name": "W1"}, True)]},
        "W3": bits(""),
        "W4": bits("(SIZE(1..2,...))"),
        "W5": {"k": "REAL"},
        "W6": {"k": "CHOICE", "extpos": 1, "comps": [comp("c4", {"k": "NULL"}), comp("c5", integer), comp("c6", {"k": "BOOLEAN"})]},
        "W7": {"k": "SEQUENCE", "extpos": 1, "comps": [comp("c7", integer), comp("c8", ia5, True), comp("c9", {"k": "BOOLEAN"}, True)]},
        "W8": {"k": "SEQUENCE OF", "cons": "", "smin": 0, "smax": None, "sext": False, "elem": {"k": "REF", "name": "W1"}},
    }
    names = sorted(asts)
    text = "%s DEFINITIONS AUTOMATIC TAGS ::= BEGIN\n" % name + "".join("  %s ::= %s\n" % (n, render(asts[n])) for n in names) + "END\n"
    fixed = {
        "W1": ["0a0100", "0a0105", "0a010a", "0a0114"],
        "W2": ["3003800100", "300980010a810102820114", "3006800105820100", "3006800114810101"],
        "W3": ["030100", "03020780", "030201fe", "030303fff8", "030204f0", "030205e8", "030206c0", "030202fc"],
        "W4": ["03020780", "030206c0"],      # sizes outside the root of SIZE(1..2,...) are rejected by the generated checker (C08)
        "W5": ["0900", "0903800003", "090380fb05", "0903c00003", "0909c0d003243f6a8885a3", "090140", "090141", "090142", "090380ff01", "0903800a01"],
        "W6": ["8000", "810105", "8102ff7f", "8201ff", "820100"],
        "W7": ["3003800107", "300780010781026162", "300a80010781026162820100", "30068001078201ff"],
        "W8": ["3000", "300c0a01000a01050a010a0a0114", "30030a0114"],
    }
    return {"name": name, "default": "AUTOMATIC", "defs": [(n, None) for n in names], "trees": {}, "asts": asts, "text": text,
            "wide": True, "fixed_values": fixed}


STR_TAG = {"IA5String": 22, "VisibleString": 26, "UTF8String": 12, "BMPString": 30, "UniversalString": 28, "GeneralString": 27, "GraphicString": 25,
           "TeletexString": 20, "VideotexString": 21, "ObjectDescriptor": 7, "PrintableString": 19, "NumericString": 18}


def der_tlv(tag, body):
    n = len(body)
    if n < 128:
        ln = bytes([n])
    else:
        b = n.to_bytes((n.bit_length() + 7) // 8, "big")
        ln = bytes([0x80 | len(b)]) + b
    return (bytes([tag]) + ln + body).hex()


def str_body(stype, cps):
    if stype == "BMPString":
        return b"".join(c.to_bytes(2, "big") for c in cps)
    if stype == "UniversalString":
        return b"".join(c.to_bytes(4, "big") for c in cps)
    if stype == "UTF8String":
        return "".join(chr(c) for c in cps).encode("utf-8")
    return bytes(cps)


def str_der(stype, cps):
    return der_tlv(STR_TAG[stype], str_body(stype, cps))


def _str_ast(stype, cons="", alpha=""):
    return {"k": "STRING", "stype": stype, "cons": cons, "smin": 0, "smax": None, "sext": False, "alpha": alpha}


def _finish_module(name, asts, fixed):
    names = sorted(asts, key=lambda n: int(n[1:]))
    text = "%s DEFINITIONS AUTOMATIC TAGS ::= BEGIN\n" % name + "".join("  %s ::= %s\n" % (n, render(asts[n])) for n in names) + "END\n"
    return {"name": name, "default": "AUTOMATIC", "defs": [(n, None) for n in names], "trees": {}, "asts": asts, "text": text,
            "wide": True, "fixed_values": fixed}


def boundary_module_alpha(name="WB1"):
    """permitted alphabets at the boundaries of the UPER character codec: for b bits per character the alphabets
    (N, highest) = (2^b, 2^b) (2^b, 2^b - 1) (2^b - 1, 2^b) (2^b + 1, 2^b + 1); one-character alphabets; alphabets with a hole
    (character map); each with the values [lowest] [highest] [lowest, middle, highest, highest, lowest] and the empty string"""
    asts, fixed = {}, {}

    def add(stype, ranges, cons_prefix=""):
        tn = "W%d" % (len(asts) + 1)
        a = alpha_text(stype, ranges)
        asts[tn] = _str_ast(stype, (cons_prefix + " " + a).strip(), a)
        chars = [c for lo, hi in ranges for c in range(lo, hi + 1)]
        lo, hi, mid = chars[0], chars[-1], chars[len(chars) // 2]
        vals = [[lo], [hi], [lo, mid, hi, hi, lo]] + ([] if cons_prefix else [[]])
        fixed[tn] = [str_der(stype, v) for v in vals]
    # (types that need a number outside a Tuple/Quadruple first: see SWEEP)
    add("IA5String", [(0x78, 0x78)], "(SIZE(1..5))")
    add("IA5String", [(0x20, 0x40)], "(SIZE(1..5))")
    for stype, bs in (("IA5String", (1, 2, 3, 4, 5, 6)), ("BMPString", (1, 7, 8)), ("UniversalString", (8, 16))):
        for b in bs:
            p = 1 << b
            for n, hi in ((p, p), (p, p - 1), (p - 1, p), (p + 1, p + 1)):
                if n < 1 or hi - n + 1 < 0 or (stype == "IA5String" and hi > 127):
                    continue
                add(stype, [(hi - n + 1, hi)])
    for lo, hi in ((0x20, 0x40), (0x20, 0x3f), (0x21, 0x40), (0x23, 0x41)):
        add("VisibleString", [(lo, hi)])
    add("BMPString", [(0x20, 0x40)])
    add("IA5String", [(0x61, 0x61)])                 # one character: 0 bits per character
    add("BMPString", [(0x61, 0x61)])
    add("NumericString", [(0x20, 0x20)])
    add("IA5String", [(1, 7), (9, 16)])               # 15 characters with a hole, highest = 2^4
    add("IA5String", [(0x30, 0x39), (0x40, 0x40)])    # 11 characters with a hole, highest = 2^6 > 2^4: mapped
    add("BMPString", [(1, 100), (102, 128)])          # 127 characters with a hole, highest = 2^7
    add("PrintableString", [(0x30, 0x39), (0x41, 0x5a)])
    return _finish_module(name, asts, fixed)


XER_SPECIALS = ["<", ">", "&", "a<b>c&d", "&amp;", "&lt;", "&gt;", "&#65;", "&#x41;", "&#1A;", "<nul/>", "<!--x-->", "]]>", "<![CDATA[x]]>", "&#;", "&#0;", "&#x110000;",
                "\x00", "\x01", "\t\n\r", "\x0b\x1b\x1f", "\x7f", " lead trail ", "", "\"'", "\u00a0\u20ac", "\U0001f600", "'()+,-./:=?", "0 1"]
STR_LEGAL = {"IA5String": lambda c: c < 128, "VisibleString": lambda c: 0x20 <= c <= 0x7e, "UTF8String": lambda c: True, "BMPString": lambda c: c < 0x10000,
             "UniversalString": lambda c: True, "GeneralString": lambda c: c < 256, "GraphicString": lambda c: 0x20 <= c <= 0x7e, "TeletexString": lambda c: c < 256,
             "VideotexString": lambda c: c < 256, "ObjectDescriptor": lambda c: 0x20 <= c <= 0x7e,
             "PrintableString": lambda c: chr(c) in "ABCDEFGHIJKLMNOPQRSTUVWXYZabcdefghijklmnopqrstuvwxyz0123456789 '()+,-./:=?", "NumericString": lambda c: chr(c) in "0123456789 "}


def boundary_module_xer(name="WB2"):
    """every character string type asn1c knows with the values whose XML text needs escaping (or looks like markup the XER
    decoder expands), alone and inside constructed types; SEQUENCEs with MANDATORY extension additions next to OPTIONAL /
    DEFAULT ones (OER presence bitmap vs the compiler's count of additions); an INTEGER with named numbers"""
    def comp(name, t, optional=False, default=None):
        return {"name": name, "tag": None, "type": t, "optional": optional, "default": default, "self": False}
    asts, fixed = {}, {}
    vals = {}
    for stype in ("IA5String", "VisibleString", "UTF8String", "BMPString", "UniversalString", "GeneralString", "GraphicString", "TeletexString",
                  "VideotexString", "ObjectDescriptor", "PrintableString", "NumericString"):
        tn = "W%d" % (len(asts) + 1)
        asts[tn] = _str_ast(stype)
        vals[stype] = [[ord(c) for c in v] for v in XER_SPECIALS if all(STR_LEGAL[stype](ord(c)) for c in v)]
        fixed[tn] = [str_der(stype, v) for v in vals[stype]]
    integer = {"k": "INTEGER", "cons": "", "lo": None, "hi": None, "ext": False, "multi": False}
    # strings inside constructed types: W13 SEQUENCE, W14 SEQUENCE OF, W15 CHOICE with an extension alternative
    asts["W13"] = {"k": "SEQUENCE", "extpos": None, "comps": [comp("b", _str_ast("BMPString")), comp("u", _str_ast("UniversalString"), True), comp("i", _str_ast("IA5String"), True)]}
    ctx = lambda n, stype, v: bytes.fromhex(der_tlv(0x80 | n, str_body(stype, [ord(c) for c in v])))
    fixed["W13"] = [der_tlv(0x30, ctx(0, "BMPString", a) + ctx(1, "UniversalString", b) + ctx(2, "IA5String", c))
                    for a, b, c in (("<", "<", "<"), ("x", "&amp;", "&amp;"), ("a<b", "y", "&"), ("plain", "plain", "<nul/>"))]
    asts["W14"] = {"k": "SEQUENCE OF", "cons": "", "smin": 0, "smax": None, "sext": False, "elem": _str_ast("BMPString")}
    fixed["W14"] = [der_tlv(0x30, b"".join(bytes.fromhex(str_der("BMPString", [ord(c) for c in v])) for v in vs)) for vs in (("a", "<", "b"), ("&lt;",), ("ok", ">"))]
    asts["W15"] = {"k": "CHOICE", "extpos": 1, "comps": [comp("n", {"k": "NULL"}), comp("u", _str_ast("UniversalString")), comp("t", _str_ast("UTF8String"))]}
    fixed["W15"] = [ctx(1, "UniversalString", "<&>").hex(), ctx(2, "UTF8String", "<&>").hex(), ctx(1, "UniversalString", "fine").hex()]
    # SEQUENCE with mandatory extension additions
    boolean = {"k": "BOOLEAN"}
    dfl5 = dict(integer)
    asts["W16"] = {"k": "SEQUENCE", "extpos": 1, "comps": [comp("a", boolean), comp("m", integer)]}
    fixed["W16"] = ["30038001ff", "30068001ff810107"]
    asts["W17"] = {"k": "SEQUENCE", "extpos": 1, "comps": [comp("a", boolean), comp("m", integer), comp("o", integer, True)]}
    fixed["W17"] = ["30038001ff", "30068001ff810107", "30098001ff810107820108", "30068001ff820108"]
    asts["W18"] = {"k": "SEQUENCE", "extpos": 1, "comps": [comp("a", boolean), comp("o", integer, True), comp("m", integer)]}
    fixed["W18"] = ["30068001ff820107", "30098001ff810107820108", "30068001ff810107"]
    asts["W19"] = {"k": "SEQUENCE", "extpos": 1, "comps": [comp("a", boolean), comp("m1", integer), comp("m2", boolean), comp("m3", {"k": "NULL"})]}
    fixed["W19"] = ["300b8001ff8101078201ff8300", "30038001ff", "30058001ff8300", "30068001ff8201ff"]
    asts["W20"] = {"k": "SEQUENCE", "extpos": 1, "comps": [comp("a", boolean), comp("d", dfl5, default="5"), comp("m", integer)]}
    fixed["W20"] = ["30068001ff820107", "30098001ff810106820107"]
    asts["W21"] = {"k": "SEQUENCE", "extpos": 0, "comps": [comp("m", integer), comp("n", _str_ast("BMPString"))]}
    fixed["W21"] = ["3000", "3003800107", "3009800107810400610062"]
    # 9 additions: the presence bitmap crosses an octet boundary
    asts["W22"] = {"k": "SEQUENCE", "extpos": 1, "comps": [comp("a", boolean)] + [comp("e%d" % i, boolean, optional=(i % 2 == 1)) for i in range(9)]}
    fixed["W22"] = [der_tlv(0x30, bytes.fromhex("8001ff") + b"".join(bytes([0x81 + i, 1, 0xff]) for i in sel)) for sel in ((), (0,), (8,), (7, 8), tuple(range(9)), (0, 2, 4, 6, 8))]
    asts["W23"] = {"k": "INTEGER", "cons": "{ one(1), two(2) }", "lo": None, "hi": None, "ext": False, "multi": False}
    fixed["W23"] = ["020101", "020102", "020103", "0201ff"]
    return _finish_module(name, asts, fixed)


# ---------------------------------------------------------------------------
# running a driver that may crash or hang on single command lines

import subprocess, select, time, tempfile
from vlib import SAN_ENV

WIDE_ENV = dict(SAN_ENV, ASAN_OPTIONS=SAN_ENV["ASAN_OPTIONS"] + ":hard_rss_limit_mb=3000")


def run_robust(exe, lines, line_timeout=15, env=None, hang_key=None):
    """feed command lines to a line-protocol driver; a line that kills the driver
    yields "CRASH", one that does not answer within line_timeout seconds "HANG";
    the driver is restarted on the next line.  hang_key(line): after a HANG, later lines with the same key are not
    run at all (answer "SKIPPED"), so that one hostile type cannot cost line_timeout per command.
    Returns (outputs, events) with events = [(line index, "CRASH"|"HANG"|"EXIT", rc, stderr tail)]"""
    env = env or WIDE_ENV
    results = [None] * len(lines)
    events = []
    hung = set()
    todo = list(range(len(lines)))
    while todo:
        if hang_key:
            keep = []
            for k in todo:
                if hang_key(lines[k]) in hung:
                    results[k] = "SKIPPED"
                else:
                    keep.append(k)
            todo = keep
            if not todo:
                break
        outs, kind, rc, err = _run_once(exe, [lines[k] for k in todo], line_timeout, env)
        for k, o in zip(todo, outs):
            results[k] = o
        if kind is None:
            break
        if kind == "EXIT":
            events.append((todo[-1], "EXIT", rc, err))
            break
        bad = todo[len(outs)]
        results[bad] = kind
        events.append((bad, kind, rc, err))
        if kind == "HANG" and hang_key:
            hung.add(hang_key(lines[bad]))
        todo = todo[len(outs) + 1:]
    return results, events


def _run_once(exe, lines, line_timeout, env):
    """one driver process over the lines; returns (outputs got, None | "EXIT" | "CRASH" | "HANG", rc, stderr)"""
    outs = []
    if True:
        i = 0
        ef = tempfile.TemporaryFile()
        p = subprocess.Popen([exe], stdin=subprocess.PIPE, stdout=subprocess.PIPE, stderr=ef, env=env)
        # the driver reads line by line and flushes after every command: feed everything from a thread-free
        # non-blocking loop (the pipe buffer is small compared with the input)
        data = ("\n".join(lines[i:]) + "\n").encode()
        os.set_blocking(p.stdin.fileno(), False)
        os.set_blocking(p.stdout.fileno(), False)
        sent, buf, got, hang = 0, b"", 0, False
        last = time.time()
        want = len(lines) - i
        while got < want:
            wl = [p.stdin] if sent < len(data) else []
            r, w, _ = select.select([p.stdout], wl, [], 1.0)
            if w:
                try:
                    sent += os.write(p.stdin.fileno(), data[sent:sent + 65536])
                    if sent >= len(data):
                        p.stdin.close()
                except BlockingIOError:
                    pass
                except (BrokenPipeError, OSError):
                    sent = len(data)
            if r:
                chunk = os.read(p.stdout.fileno(), 1 << 16)
                if not chunk:
                    break           # driver died
                buf += chunk
                while b"\n" in buf:
                    l, buf = buf.split(b"\n", 1)
                    outs.append(l.decode("utf-8", "replace"))
                    got += 1
                    last = time.time()
            elif time.time() - last > line_timeout:
                hang = True
                break
        if hang:
            p.kill()
        try:
            if sent < len(data):
                p.stdin.close()
        except OSError:
            pass
        rc = p.wait()
        ef.seek(0)
        err = ef.read().decode("utf-8", "replace")
        if len(err) > 6500:          # keep the head (error line, frame #0) and the tail of a long sanitizer report
            err = err[:4000] + "\n[...]\n" + err[-2500:]
        ef.close()
        if got >= want:
            return outs[:want], ("EXIT" if rc != 0 else None), rc, err
        return outs[:got], ("HANG" if hang else "CRASH"), rc, err



# ---------------------------------------------------------------------------
# AST walking


def walk(module, t, seen=None, path=()):
    """yield (node, path) for every node reachable from t, following references
    (each referenced definition once).  path = tuple of ancestor kinds with the
    member flags: ("SEQUENCE", comp) ... ; used by predicates that need context"""
    if seen is None:
        seen = set()
    yield t, path
    k = t["k"]
    if k == "REF":
        if t["name"] not in seen:
            seen.add(t["name"])
            tgt = module["asts"].get(t["name"])
            if tgt is not None:
                for x in walk(module, tgt, seen, path + (("REF", t),)):
                    yield x
    elif k in ("SEQUENCE OF", "SET OF"):
        for x in walk(module, t["elem"], seen, path + ((k, t),)):
            yield x
    elif k in ("SEQUENCE", "SET", "CHOICE"):
        for c in t["comps"]:
            for x in walk(module, c["type"], seen, path + ((k, t, c),)):
                yield x


def resolve(module, t):
    """follow references to the defining non-reference node"""
    n = 0
    while t["k"] == "REF" and n < 50:
        t = module["asts"][t["name"]]
        n += 1
    return t


def contains(module, tn, pred):
    t = module["asts"][tn]
    return any(pred(n, p) for n, p in walk(module, t, {tn}))


# every feature of the wide algebra is on: all failure classes met over the triage seeds are classified
# (notes/design/C01-wide.md).  "recursion" needed one harness rule: asn_random_fill has no depth control, values
# nested deeper than WIDE_MAX_DEPTH (harness/moddrv_wide.inc) are discarded like the other unusable ones.
FEATURES = list(ALL_FEATURES)


# ---------------------------------------------------------------------------
# predicates on the AST of the failing TYPE (references followed)


def top_kind(module, tn):
    return resolve(module, module["asts"][tn])["k"]


def nested_sets(module, tn):
    """SET types strictly inside the type (not the type itself after following references):
    list of the kind of the construct holding each one ("SEQUENCE", "SET", "CHOICE", "SEQUENCE OF", "SET OF")"""
    out = []
    for n, path in walk(module, module["asts"][tn], {tn}):
        if n["k"] != "SET":
            continue
        holders = [p[0] for p in path if p[0] != "REF"]
        if holders:
            out.append(holders[-1])
    return out


def has_node(module, tn, pred):
    return any(pred(n) for n, _ in walk(module, module["asts"][tn], {tn}))


def has_comp(module, tn, pred):
    """pred(component dict, holder kind) for some component reachable from the type"""
    for n, _ in walk(module, module["asts"][tn], {tn}):
        if n["k"] in ("SEQUENCE", "SET", "CHOICE") and any(pred(c, n["k"]) for c in n["comps"]):
            return True
    return False


def classify(module, typename, syntax, status, stderr="", facts=()):
    """one non-OK outcome of the round-trip battery -> id of the known finding whose predicate it satisfies, or None.
    status: "NL" (BASIC-XER newline), "ENCFAIL:<errno>", "DEC:<rc>:<consumed>/<produced>", "NEQ", "CMP", "CRASH", "HANG";
    facts: value-level predicates computed by the driver (harness/moddrv_wide.inc, `wrt`)"""
    facts = set(facts or ())
    if syntax == "xer" and status == "NL":
        return "C01-xer-trailing-newline"
    per_oer = syntax in ("cper", "coer")
    # asn_OP_SET has no uper/oer encoder and decoder.  At the top level asn_encode answers ENOENT.  Below the top level
    # the VALUE must contain a SET value (fact set_nested): every caller tests the pointer and fails with EBADF.
    if per_oer and status == "ENCFAIL:ENOENT" and top_kind(module, typename) == "SET":
        return "C01-set-no-per-oer"
    if per_oer and status == "ENCFAIL:EBADF" and "set_nested" in facts and nested_sets(module, typename):
        return "C01-set-no-per-oer"
    if syntax == "cper" and status == "NEQ" and "bits_trail0" in facts:
        return "C01-uper-bitstring-trailing-zero"
    if status == "NEQ" and "bool_dfl_raw" in facts and syntax in ("cper", "xer", "cxer"):
        return "C01-boolean-default-true"
    if syntax == "cper" and status == "ENCFAIL:EBADF" and "semi_lb" in facts:
        return "C01-uper-semiconstrained-lb"
    if syntax == "cper" and status == "NEQ" and "km_map_ovf" in facts and has_node(module, typename, lambda n: n["k"] == "STRING" and n["stype"] == "PrintableString" and not n["cons"]):
        return "C01-uper-printablestring-default-bits"
    if status == "CMP" and "setof_dfl" in facts and syntax in ("cper", "coer", "xer", "cxer"):
        return "C01-compare-absent-default-order"
    if syntax == "cper" and status == "NEQ" and "km_nomap" in facts:
        return "C01-uper-numericstring-range"
    if syntax == "xer" and status == "NEQ" and "real_f15" in facts:
        return "C01-xer-real-basic-lossy"
    if syntax == "coer" and status == "CMP" and "wide_int" in facts:
        return "C01-wide-integer-compare"
    # (no branch for the permitted-alphabet boundary, one-character alphabet, BMPString/UniversalString XER escaping and
    #  ObjectDescriptor OER defects: repaired by notes/fixes/H; the driver still prints their value-level facts km_ub_pow2, km_bits0,
    #  ustr_xer_lt, ustr_xer_entref, ustr_xer_charref0, no_oer_codec as diagnostics in a violation's replay)
    return None
