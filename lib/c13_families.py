"""c13_families — directed module families of checks/c13.py: for EACH representation option a module
family made of the constructs whose generated representation that option changes, with directed
boundary values (every CHOICE path, every side of every constraint bound, REAL specials ...).

  option              what it changes in the generated code          family
  -findirect-choice   CHOICE alternatives become pointers            FIE/FII/FIA (model algebra: inner CHOICE untagged /
                      (ATF_POINTER) when they are constructed         tagged / by reference / 3 levels deep / in SEQUENCE,
                                                                      OPTIONAL, SEQUENCE OF), FRE/FRI/FRA (recursive, text only)
  -fno-constraints    checker functions dropped; the PER/OER         FNI/FNA (model algebra: every INTEGER range and SIZE shape
                      records must stay                               on named types, members, alternatives, OF elements,
                                                                      references), FNW (text only: BIT STRING, strings, unions,
                                                                      narrowed references, ENUMERATED)
  -fwide-types        long/double -> INTEGER_t/REAL_t/ENUMERATED_t   FWT (REAL specials incl. -0, ENUMERATED extremes,
                                                                      INTEGER ranges either side of the "fits long" decision)
  -fcompound-names    identifiers of anonymous inner types           FCN (anonymous SEQUENCE/CHOICE/SET OF/ENUMERATED nested three
                                                                      deep with the same member names in different parents)
  -fno-include-deps,  #include lines                                 FDP (forward references, mutual recursion, two modules with
  -fincludes-quoted                                                   IMPORTS in one file)
  -no-gen-PER/-OER    codec tables absent from the descriptors       every family (builds made without a codec are compared on the others)

Model-algebra families are lib/modgen dicts (the extracted codec model supplies DER/UPER/OER bytes);
text-only families get values as hand-made DER (leaf types, no tagging involved), as XER converted by the
baseline build (recursive types: XER does not depend on the tagging mode), or from asn_random_fill."""
import math, struct
from modgen import *

# ------------------------------------------------------------------ modgen shorthands


def _t(k, tag=None, **kw):
    d = dict({"k": k}, **kw)
    if tag:
        d["tag"] = tag
    return d


def BOOL(tag=None):
    return _t("bool", tag)


def NUL(tag=None):
    return _t("null", tag)


def INT(con=None, tag=None):
    return _t("int", tag, con=con)


def OCT(con=None, tag=None):
    return _t("oct", tag, con=con)


def REF(n, tag=None):
    return _t("ref", tag, ref=n)


def SEQ(ms, tag=None):
    return _t("seq", tag, ms=[(m[0], m[1], len(m) > 2 and m[2]) for m in ms])


def CH(ms, tag=None):
    return _t("choice", tag, ms=[(m[0], m[1], False) for m in ms])


def SEQOF(el, con=None, tag=None):
    return _t("seqof", tag, el=el, con=con)


def SETOF(el, con=None, tag=None):
    return _t("setof", tag, el=el, con=con)


def C(n, mode=None):
    return ("CONTEXT", n, mode)


def A(n, mode=None):
    return ("APPLICATION", n, mode)


def strip_member_tags(t):
    """AUTOMATIC TAGS applies only to SEQUENCE/CHOICE types none of whose components is tagged by hand"""
    t = dict(t)
    if t["k"] in ("seq", "choice"):
        t["ms"] = [(n, strip_member_tags(dict(mt, tag=None)), o) for (n, mt, o) in t["ms"]]
    elif t["k"] in ("seqof", "setof"):
        t["el"] = strip_member_tags(t["el"])
    return t


def mk_module(name, default, defs):
    env = dict(defs)
    trees = {}
    for n, t in defs:
        trees[n] = resolve(t, default, env)
        if not tree_valid(trees[n]):
            raise ValueError("family module %s: type %s violates the distinct-tag rules" % (name, n))
    return {"name": name, "default": default, "defs": defs, "trees": trees, "text": module_text(name, default, defs), "family": True}


# ------------------------------------------------------------------ -findirect-choice

def indirect_defs(default):
    d = [
        # an untagged CHOICE whose alternatives are a string, a constrained number, a SEQUENCE (constructed -> pointer)
        ("In", CH([("t", OCT()), ("n", INT((0, 7, False))), ("p", SEQ([("a", BOOL()), ("b", INT())]))])),
        ("In3", CH([("u", BOOL(C(1))), ("v", NUL(C(2))), ("w", SEQ([("k", INT((-5, 5, False)))], tag=C(3)))])),
        ("In2", CH([("z", NUL()), ("w", REF("In3"))])),                 # untagged CHOICE inside an untagged CHOICE
        ("Out", CH([("num", BOOL()),
                    ("inner", REF("In")),                               # selected alternative = untagged CHOICE by reference
                    ("deep", REF("In2")),                               # ... whose selected alternative is an untagged CHOICE again
                    ("sq", SEQ([("x", REF("In")), ("y", REF("In2"), True)], tag=C(0))),
                    ("tg", REF("In", tag=C(7))),                        # tagged (hence EXPLICIT) CHOICE alternative
                    ("lst", SEQOF(REF("In"), tag=C(8))),
                    ("anon", CH([("k", INT(None, A(1))), ("l", REF("In3", tag=A(2)))]))])),   # anonymous inline untagged CHOICE
        ("Sq", SEQ([("c", REF("In")), ("f", REF("In2")), ("d", REF("Out"), True), ("e", REF("In", tag=C(13)), True)])),
        ("Lst", SEQOF(REF("Out"), (0, 4, False))),
        ("Wr", REF("Out", tag=A(9))),
        ("Ws", SEQ([("o", REF("Out", tag=C(0))), ("p", REF("Out", tag=C(1)), True)])),
    ]
    if default == "AUTOMATIC":
        d = [(n, strip_member_tags(t)) for n, t in d]
    return d


def indirect_modules():
    return [mk_module("FI" + dflt[0], dflt, indirect_defs(dflt)) for dflt in ("EXPLICIT", "IMPLICIT", "AUTOMATIC")]


def recursive_text(default):
    auto = default == "AUTOMATIC"
    tg = (lambda s: "") if auto else (lambda s: s + " ")
    return """FR%s DEFINITIONS %s TAGS ::= BEGIN
  Tree ::= CHOICE { leaf INTEGER, node SEQUENCE { l Tree, r Tree OPTIONAL }, many %sSEQUENCE OF Tree, alt Alt }
  Alt ::= CHOICE { s IA5String, b BOOLEAN, back %sTree, pair %sSEQUENCE { x Alt OPTIONAL, y INTEGER (0..7) } }
  Lnk ::= SEQUENCE { v INTEGER (0..255), next Lnk OPTIONAL, t %sTree OPTIONAL }
  Mut1 ::= CHOICE { a NULL, m %sMut2 }
  Mut2 ::= CHOICE { b BOOLEAN, m %sMut1, q %sSEQUENCE OF Mut1 }
END
""" % (default[0], default, tg("[0]"), tg("[9]"), tg("[10]"), tg("[5]"), tg("[1]"), tg("[2]"), tg("[3]"))


def xer(s):
    return s.encode().hex()


def recursive_values():
    """(type, XER text) — the same text for the three tagging modes"""
    leaf = lambda n: "<leaf>%d</leaf>" % n
    T = lambda body: "<Tree>%s</Tree>" % body
    vals = [("Tree", T(leaf(5))), ("Tree", T(leaf(-129))),
            ("Tree", T("<node><l>%s</l></node>" % leaf(1))),
            ("Tree", T("<node><l><alt><s>hi</s></alt></l><r>%s</r></node>" % leaf(7))),
            ("Tree", T("<many></many>")),
            ("Tree", T("<many>%s<alt><b><true/></b></alt><many>%s</many></many>" % (leaf(3), leaf(4)))),   # an element that is a CHOICE has no wrapper of its own in XER
            ("Tree", T("<alt><s></s></alt>")), ("Tree", T("<alt><b><false/></b></alt>")),
            ("Tree", T("<alt><back>%s</back></alt>" % leaf(9))),
            ("Tree", T("<alt><back><alt><back><alt><s>deep</s></alt></back></alt></back></alt>")),
            ("Tree", T("<alt><pair><y>7</y></pair></alt>")),
            ("Tree", T("<alt><pair><x><pair><x><b><true/></b></x><y>0</y></pair></x><y>3</y></pair></alt>")),
            ("Tree", T("<node><l><node><l>%s</l><r><alt><pair><x><s>q</s></x><y>1</y></pair></alt></r></node></l><r><many><alt><back>%s</back></alt></many></r></node>" % (leaf(0), leaf(2)))),
            ("Alt", "<Alt><s>abc</s></Alt>"), ("Alt", "<Alt><back>%s</back></Alt>" % leaf(1)), ("Alt", "<Alt><pair><y>5</y></pair></Alt>"),
            ("Lnk", "<Lnk><v>0</v></Lnk>"), ("Lnk", "<Lnk><v>255</v><next><v>1</v><next><v>2</v><t>%s</t></next></next></Lnk>" % leaf(6)),
            ("Lnk", "<Lnk><v>7</v><t><alt><back><many></many></back></alt></t></Lnk>"),
            ("Mut1", "<Mut1><a></a></Mut1>"), ("Mut1", "<Mut1><m><b><true/></b></m></Mut1>"),
            ("Mut1", "<Mut1><m><m><m><m><a></a></m></m></m></m></Mut1>"),
            ("Mut2", "<Mut2><q></q></Mut2>"), ("Mut2", "<Mut2><q><a></a><m><q><m><b><false/></b></m></q></m></q></Mut2>")]
    return vals


def recursive_modules():
    out = []
    for dflt in ("EXPLICIT", "IMPLICIT", "AUTOMATIC"):
        out.append({"name": "FR" + dflt[0], "default": dflt, "defs": [(n, None) for n in ("Tree", "Alt", "Lnk", "Mut1", "Mut2")], "trees": {},
                    "text": recursive_text(dflt), "wide": True, "family": True, "xer_values": recursive_values(), "rfill": 3})
    return out


# ------------------------------------------------------------------ -fno-constraints

# every PER/OER-visible INTEGER constraint shape: width boundaries of OER (1/2/4/8 octets, signed and unsigned),
# range_bits boundaries of PER, single value, semi-constrained either side, extensible, unconstrained
NC_INT = [(0, 7, False), (0, 255, False), (0, 256, False), (-128, 127, False), (-129, 127, False), (0, 65535, False), (0, 65536, False),
          (-32768, 32767, False), (0, 4294967295, False), (-2147483648, 2147483647, False), (5, 5, False), (1, 100, False),
          (100, 100000, False), (0, None, False), (5, None, False), (None, 10, False), (-3, None, False), (0, 7, True), (-1, 254, True), (0, 2147483648, False)]
NC_SIZE = [(0, 4, False), (3, 3, False), (0, 0, False), (1, 2, True), (0, 255, False), (2, 300, False), (1, None, False), (4, 4, True), (0, 65535, False)]


def noconstr_defs(default):
    d = []
    for i, c in enumerate(NC_INT):
        d.append(("I%d" % i, INT(c)))                                    # constraint on the named type itself (emit_type_DEF)
    for i, c in enumerate(NC_SIZE):
        d.append(("O%d" % i, OCT(c)))
    for i, c in enumerate(NC_SIZE[:6]):
        d.append(("Q%d" % i, SEQOF(BOOL(), c)))
    d.append(("T0", SETOF(INT((0, 7, False)), (0, 3, False))))
    # the same constraints written directly on members / alternatives / elements (emit_member_table)
    signed = [c for c in NC_INT if not (c[0] is not None and c[0] >= 0 and (c[1] is None or c[1] >= 2**31))]
    semi = [c for c in NC_INT if c[0] not in (None, 0) and c[1] is None and not c[2]]       # UPER cannot encode these at all (C02's finding): kept apart
    d.append(("SM", SEQ([("m%d" % i, INT(c, C(i)), i % 3 == 2) for i, c in enumerate(NC_INT) if c not in semi])))
    d.append(("SN", SEQ([("n%d" % i, INT(c, C(i)), i % 2 == 1) for i, c in enumerate(semi)])))
    d.append(("SO", SEQ([("o%d" % i, OCT(c, C(i)), i % 2 == 1) for i, c in enumerate(NC_SIZE)])))
    d.append(("CM", CH([("a%d" % i, INT(c, C(i))) for i, c in enumerate(signed)] + [("b%d" % i, OCT(c, C(40 + i))) for i, c in enumerate(NC_SIZE[:5])])))
    d.append(("QE", SEQOF(INT((0, 7, False)))))
    d.append(("QF", SEQOF(OCT((3, 3, False)), (1, 2, False))))
    d.append(("QG", SEQOF(SEQ([("g", INT((-5, 5, False))), ("h", OCT((0, 4, False)), True)]), (0, 3, False))))
    # references to constrained named types as members (the member shares the named type's descriptor)
    d.append(("SR", SEQ([("r0", REF("I0")), ("r3", REF("I3")), ("r8", REF("I8", tag=C(0)), True), ("r13", REF("I13")), ("ro", REF("O1")), ("rq", REF("Q0"), True)])))
    d.append(("CR", CH([("c0", REF("I0", tag=C(0))), ("c17", REF("I17", tag=C(1))), ("co", REF("O3", tag=C(2))), ("cs", REF("SM", tag=C(3)))])))
    if default == "AUTOMATIC":
        # the AUTOMATIC twin keeps only what the tagging default touches: the structured types and what they refer to
        keep = {"SM", "SN", "SO", "CM", "QG", "SR", "CR", "I0", "I3", "I8", "I13", "I17", "O1", "O3", "Q0"}
        d = [(n, strip_member_tags(t)) for n, t in d if n in keep]
    return d


def noconstr_modules():
    return [mk_module("FN" + dflt[0], dflt, noconstr_defs(dflt)) for dflt in ("IMPLICIT", "AUTOMATIC")]


NCW_TEXT = """FNW DEFINITIONS AUTOMATIC TAGS ::= BEGIN
  B6 ::= BIT STRING (SIZE(6))
  B016 ::= BIT STRING (SIZE(0..16))
  B4x ::= BIT STRING (SIZE(4,...))
  BN ::= BIT STRING { one(0), three(2) } (SIZE(3))
  A14 ::= IA5String (SIZE(1..4))
  A3 ::= IA5String (SIZE(3))
  V2x ::= VisibleString (SIZE(2,...))
  P0 ::= PrintableString (SIZE(0..255))
  U3 ::= UTF8String (SIZE(3))
  BM ::= BMPString (SIZE(1..2))
  IU ::= INTEGER (0..7 | 10..12)
  II ::= INTEGER (0..100) (10..20)
  IE ::= INTEGER (0..7, ..., 10..12)
  IM ::= INTEGER (MIN..MAX)
  IN ::= INTEGER { one(1), seven(7) } (0..7)
  I07 ::= INTEGER (0..7)
  IR ::= I07 (1..3)
  IA ::= I07
  En ::= ENUMERATED { a, b, c, ..., d }
  EnR ::= En (a | b)
  O2 ::= OCTET STRING (SIZE(2))
  OR ::= O2
  Q3 ::= SEQUENCE (SIZE(0..3)) OF I07
  QR ::= Q3 (SIZE(1..2))
  Rec ::= SEQUENCE { b6 B6, b016 B016 OPTIONAL, a14 A14, a3 A3 OPTIONAL, iu IU, ir IR, ia IA, e En, er EnR OPTIONAL, o O2, q Q3, qr QR,
                     mb BIT STRING (SIZE(2..5)) OPTIONAL, ms IA5String (SIZE(2)) , mi INTEGER (-100..100,...), me ENUMERATED { x, y, z },
                     ..., xi INTEGER (0..255) OPTIONAL }
  Pick ::= CHOICE { n INTEGER (0..7), s IA5String (SIZE(1..4)), b BIT STRING (SIZE(6)), r I07, l SEQUENCE (SIZE(1..2)) OF INTEGER (0..15), ... }
END
"""


def noconstr_wide_module():
    names = ["B6", "B016", "B4x", "BN", "A14", "A3", "V2x", "P0", "U3", "BM", "IU", "II", "IE", "IM", "IN", "I07", "IR", "IA", "En", "EnR",
             "O2", "OR", "Q3", "QR", "Rec", "Pick"]
    s = lambda tag, b: der_tlv(tag, b)
    vals = [("B6", der_bits("101101")), ("B6", der_bits("000000")), ("B016", der_bits("")), ("B016", der_bits("1")), ("B016", der_bits("1" * 16)),
            ("B016", der_bits("10000000" "1")), ("B4x", der_bits("1001")), ("B4x", der_bits("10011")), ("BN", der_bits("101")),
            ("A14", s(0x16, b"a")), ("A14", s(0x16, b"abcd")), ("A3", s(0x16, b"xyz")), ("V2x", s(0x1a, b"ab")), ("V2x", s(0x1a, b"abc")),
            ("P0", s(0x13, b"")), ("P0", s(0x13, b"Hello 9")), ("U3", s(0x0c, b"abc")), ("BM", s(0x1e, b"\x00a")), ("BM", s(0x1e, b"\x01\x02\x00z")),
            ("O2", s(0x04, b"\x00\xff")), ("OR", s(0x04, b"\x80\x01")),
            ("Q3", s(0x30, b"")), ("Q3", s(0x30, der_int(0) + der_int(7) + der_int(3))), ("QR", s(0x30, der_int(5))), ("QR", s(0x30, der_int(0) + der_int(7)))]
    for tn, vs in (("IU", (0, 7, 10, 12)), ("II", (10, 15, 20)), ("IE", (0, 7, 10, 12, 9, 300, -1)), ("IM", (0, -1, 128, 2**31, -2**63, 2**63 - 1)),
                   ("IN", (0, 1, 7)), ("I07", (0, 5, 7)), ("IR", (1, 2, 3)), ("IA", (0, 7))):
        vals += [(tn, der_int(v).hex()) for v in vs]
    for tn, vs in (("En", (0, 1, 2, 3)), ("EnR", (0, 1))):
        vals += [(tn, der_int(v, 0x0a).hex()) for v in vs]
    return {"name": "FNW", "default": "AUTOMATIC", "defs": [(n, None) for n in names], "trees": {}, "text": NCW_TEXT, "wide": True, "family": True,
            "der_values": vals, "rfill": 6, "rfill_types": ["Rec", "Pick", "Q3", "QR"]}


# ------------------------------------------------------------------ -fwide-types

WT_TEXT = """FWT DEFINITIONS ::= BEGIN
  R ::= REAL
  E ::= ENUMERATED { lo(-2147483648), m1(-1), z(0), p(1), hi(2147483647), big(4294967295) }
  EH ::= ENUMERATED { lo(-9223372036854775808), z(0), hi(9223372036854775807) }
  EX ::= ENUMERATED { a(0), b(1), m(-5), ..., c(300), d(70000) }
  I ::= INTEGER
  IL ::= INTEGER (-2147483648..2147483647)
  IU ::= INTEGER (0..4294967295)
  IB ::= INTEGER (0..4294967296)
  IS ::= INTEGER (-9223372036854775808..9223372036854775807)
  IX ::= INTEGER (0..7, ...)
  IN ::= INTEGER { one(1), two(2) }
  I8 ::= INTEGER (-128..127)
  IP ::= INTEGER (0..MAX)
  SP ::= SEQUENCE { a INTEGER (0..MAX), b BOOLEAN OPTIONAL, c INTEGER (0..MAX) }
  RS ::= SEQUENCE { r REAL, e E, i INTEGER, o REAL OPTIONAL, d INTEGER DEFAULT 5, de E DEFAULT z }
  RC ::= CHOICE { r REAL, i INTEGER, e E, x [0] EX }
  RL ::= SEQUENCE OF REAL
  EL ::= SET OF E
  IQ ::= SEQUENCE OF INTEGER
END
"""

REAL_SPECIALS = ["+0", "-0", "+inf", "-inf", "nan"]
REAL_NUMBERS = [1.0, -1.0, 0.5, -0.5, 2.0, 3.0, 0.1, -0.1, 1e300, -1e300, 1e-300, 3.141592653589793, 255.0, 256.0, 65535.0, 1.5, 0.75, 2.0**52, 2.0**53, 2.0**63, -2.0**63,
                2.0**64, 2.0**100, 2.0**-100, 2.0**127, 2.0**128, 2.0**-126, 2.0**-127, 2.0**-1022, 1.7976931348623157e308, 123456789.0, 1e10, 7.0, 10.0, 100.0,
                float(2**53 - 1), 1.0 + 2.0**-52, 2.0**1023, 2.0**-1021,
                2.0**-1074, 2.0**-1023, 3 * 2.0**-1074, 2.0**-1022 - 2.0**-1074]


def der_len(n):
    if n < 128:
        return bytes([n])
    b = n.to_bytes((n.bit_length() + 7) // 8, "big")
    return bytes([0x80 | len(b)]) + b


def der_tlv(tag, content):
    """hex of a TLV with a one-octet identifier"""
    return (bytes([tag]) + der_len(len(content)) + content).hex()


def der_tlv_b(tag, content_hex_list):
    return bytes.fromhex(content_hex_list)


def twos_min(v):
    n = 1
    while not (-(1 << (8 * n - 1)) <= v < (1 << (8 * n - 1))):
        n += 1
    return (v % (1 << (8 * n))).to_bytes(n, "big")


def der_int(v, tag=0x02):
    """bytes (not hex): for composing"""
    c = twos_min(v)
    return bytes([tag]) + der_len(len(c)) + c


def der_bits(bits):
    """hex of a DER BIT STRING from a string of 0/1"""
    n = len(bits)
    pad = (8 - n % 8) % 8
    b = bits + "0" * pad
    body = bytes([pad]) + bytes(int(b[i:i + 8], 2) for i in range(0, len(b), 8))
    return der_tlv(0x03, body)


def real_contents(x):
    """X.690 8.5 contents octets, DER form (8.5.7: base 2, mantissa odd, minimal exponent and mantissa octets)"""
    if x == "+0":
        return b""
    if x == "-0":
        return b"\x43"
    if x == "+inf":
        return b"\x40"
    if x == "-inf":
        return b"\x41"
    if x == "nan":
        return b"\x42"
    neg = x < 0
    m, e = math.frexp(abs(x))
    mant = int(m * (1 << 53))
    exp = e - 53
    assert mant > 0 and math.ldexp(mant, exp) == abs(x)
    while mant % 2 == 0:
        mant //= 2
        exp += 1
    eo = twos_min(exp)
    mo = mant.to_bytes((mant.bit_length() + 7) // 8, "big")
    assert len(eo) <= 3
    return bytes([0x80 | (0x40 if neg else 0) | (len(eo) - 1)]) + eo + mo


def der_real(x):
    c = real_contents(x)
    return bytes([0x09]) + der_len(len(c)) + c


def widetypes_module(rng, tier):
    names = ["R", "E", "EH", "EX", "I", "IL", "IU", "IB", "IS", "IX", "IN", "I8", "IP", "SP", "RS", "RC", "RL", "EL", "IQ"]
    seq = lambda *items: bytes([0x30]) + der_len(sum(len(i) for i in items)) + b"".join(items)
    vals, meta = [], {}

    def add(tn, b, reals=()):
        vals.append((tn, b.hex()))
        if reals:
            meta[(tn, b.hex())] = {"reals": list(reals)}
    reals = REAL_SPECIALS + REAL_NUMBERS + [-x for x in REAL_NUMBERS[6:14]]
    for _ in range(6 if tier == "quick" else 60):
        # random doubles with a short significand
        reals.append(math.ldexp(float(rng.range(1, 1 << rng.range(1, 30)) * 2 + 1), rng.range(-80, 80)) * (-1 if rng.chance(1, 2) else 1))
    # the native path (asn_double2REAL) against the wide path (octets kept as decoded): every make-odd shift 0..7 at
    # several mantissa lengths (a shift of 5..7 empties the first kept octet), full significands, subnormals with
    # leading zero octets in the fraction
    for k in range(53):
        if tier != "quick" or k % 3 == rng.below(3) or 44 <= k:
            reals.append(math.ldexp(float((1 << 52) + (1 << k)), rng.range(-1074, 900)))
    for _ in range(8 if tier == "quick" else 80):
        reals.append(math.ldexp(float((1 << 52) + rng.below(1 << 52)), rng.range(-1074, 900)) * (-1 if rng.chance(1, 2) else 1))
        reals.append(math.ldexp(float(rng.range(1, (1 << rng.range(1, 52)) - 1)), -1074) * (-1 if rng.chance(1, 2) else 1))
    for x in reals:
        add("R", der_real(x), [x])
    for v in (-2147483648, -1, 0, 1, 2147483647, 4294967295):
        add("E", der_int(v, 0x0a))
    for v in (-2**63, 0, 2**63 - 1):
        add("EH", der_int(v, 0x0a))
    for v in (0, 1, 300, -5, 70000):
        add("EX", der_int(v, 0x0a))
    edges = [0, 1, -1, 127, 128, -128, -129, 255, 256, 32767, 32768, -32768, -32769, 65535, 65536, 2**31 - 1, 2**31, -2**31, -2**31 - 1, 2**32 - 1, 2**32,
             2**63 - 1, -2**63, 2**62, -2**62]
    for v in edges:
        add("I", der_int(v))
        add("IS", der_int(v))
        if -2**31 <= v < 2**31:
            add("IL", der_int(v))
        if 0 <= v < 2**32:
            add("IU", der_int(v))
        if 0 <= v <= 2**32:
            add("IB", der_int(v))
        if -128 <= v <= 127:
            add("I8", der_int(v))
    for v in (0, 7, 8, -1, 300, 2**31, -2**63, 2**63 - 1):
        add("IX", der_int(v))
    # semi-constrained (lb..MAX): `unsigned long` + field_unsigned natively, INTEGER_t without specifics under -fwide-types; values whose
    # minimal two's-complement form starts with a 00 octet (128.., 32768.., 2^23.., 2^31..) either side of every octet boundary, below 2^63
    # (from 2^63 on: C13-unsigned-native-ge-2^63, witness layer)
    semi = [0, 1, 127, 128, 255, 256, 32767, 32768, 65535, 65536, 2**23 - 1, 2**23, 2**24 - 1, 2**24, 2**31 - 1, 2**31, 2**32 - 1, 2**32, 2**39, 2**47, 2**55, 2**62, 2**63 - 1]
    for v in semi:
        add("IP", der_int(v))
    for k, v in enumerate(semi):
        add("SP", seq(der_int(v), *([bytes([1, 1, 255])] if k % 2 else []), der_int(semi[-1 - k])))
    for v in (0, 1, 2, 3, -1):
        add("IN", der_int(v))
    E = lambda v: der_int(v, 0x0a)
    add("RS", seq(der_real("-0"), E(0), der_int(0)), ["-0"])
    add("RS", seq(der_real(1.5), E(-2147483648), der_int(-2**63), der_real("-inf"), der_int(6), E(4294967295)), [1.5, "-inf"])
    add("RS", seq(der_real("nan"), E(2147483647), der_int(2**63 - 1), der_real("+0")), ["nan", "+0"])
    add("RS", seq(der_real(0.1), E(1), der_int(128), der_int(-5)), [0.1])
    add("RS", seq(der_real("+inf"), E(-1), der_int(-129), der_real(-0.5), E(1)), ["+inf", -0.5])
    for x in ("-0", "+0", 3.0, "nan", -1e300):
        add("RC", der_real(x), [x])
    for v in (0, -2**63, 2**63 - 1, 128):
        add("RC", der_int(v))
    for v in (4294967295, -2147483648):
        add("RC", E(v))
    add("RL", seq())
    add("RL", seq(*[der_real(x) for x in REAL_SPECIALS]), REAL_SPECIALS)
    add("RL", seq(*[der_real(x) for x in (1.0, -1.0, 0.5, 1e300, 2.0**-1022, 2.0**1023)]), (1.0, -1.0, 0.5, 1e300, 2.0**-1022, 2.0**1023))
    setof = lambda *items: bytes([0x31]) + der_len(sum(len(i) for i in items)) + b"".join(sorted(items))
    add("EL", setof())
    add("EL", setof(E(0), E(-1), E(4294967295), E(-2147483648), E(1), E(2147483647)))
    add("IQ", seq())
    add("IQ", seq(*[der_int(v) for v in (0, -1, 127, 128, -2**63, 2**63 - 1, 2**32)]))
    return {"name": "FWT", "default": "EXPLICIT", "defs": [(n, None) for n in names], "trees": {}, "text": WT_TEXT, "wide": True, "family": True,
            "der_values": vals, "value_meta": meta, "rfill": 0}


# ------------------------------------------------------------------ -fcompound-names

CN_TEXT = """FCN DEFINITIONS AUTOMATIC TAGS ::= BEGIN
  P1 ::= SEQUENCE { inner SEQUENCE { deep SEQUENCE { leaf INTEGER (0..7), kind ENUMERATED { red, green } }, pick CHOICE { one BOOLEAN, two SEQUENCE { leaf2 NULL } } },
                    items SEQUENCE OF SEQUENCE { v INTEGER }, flag BOOLEAN }
  P2 ::= SEQUENCE { inner2 SEQUENCE { deep2 SEQUENCE { leafb OCTET STRING (SIZE(2)), kindb ENUMERATED { blue, yellow, ... } }, pickb CHOICE { oneb INTEGER, twob SET OF El } },
                    itemsb SET OF Ec }
  El ::= SEQUENCE { w BOOLEAN }
  Ec ::= CHOICE { ia INTEGER, ib BOOLEAN }
  P3 ::= CHOICE { first SEQUENCE { a P1 OPTIONAL, b INTEGER }, second SEQUENCE OF Ec, third ENUMERATED { on, off }, fourth CHOICE { c1 NULL, c2 SEQUENCE { z REAL } } }
  P4 ::= SEQUENCE { my-member INTEGER, my-enum ENUMERATED { val-one, val-two }, class INTEGER OPTIONAL, int BOOLEAN DEFAULT TRUE }
END
"""


def compound_module():
    return {"name": "FCN", "default": "AUTOMATIC", "defs": [(n, None) for n in ("P1", "P2", "El", "Ec", "P3", "P4")], "trees": {}, "text": CN_TEXT, "wide": True, "family": True,
            "rfill": 12}


# ------------------------------------------------------------------ -fno-include-deps / -fincludes-quoted

DP_TEXT = """FDP DEFINITIONS AUTOMATIC TAGS ::= BEGIN
  IMPORTS Ext1, Ext2, ExtE FROM FDQ;
  Top ::= SEQUENCE { f Fwd, e Ext1, l SEQUENCE OF Later, c CHOICE { x Ext2, y Later, z ExtE }, o Opt OPTIONAL, d Ext2 DEFAULT 3 }
  Fwd ::= SEQUENCE { l Later OPTIONAL, n INTEGER (0..255) }
  Later ::= CHOICE { i INTEGER, t Top2 }
  Top2 ::= SEQUENCE { b BOOLEAN, back Fwd OPTIONAL, e ExtE }
  Opt ::= SET OF Ext1
END
FDQ DEFINITIONS AUTOMATIC TAGS ::= BEGIN
  EXPORTS Ext1, Ext2, ExtE;
  Ext1 ::= SEQUENCE { s UTF8String, k Ext2 }
  Ext2 ::= INTEGER (0..100)
  ExtE ::= ENUMERATED { p, q, r }
END
"""


def deps_module():
    return {"name": "FDP", "default": "AUTOMATIC", "defs": [(n, None) for n in ("Top", "Fwd", "Later", "Top2", "Opt", "Ext1", "Ext2", "ExtE")], "trees": {}, "text": DP_TEXT,
            "wide": True, "family": True, "rfill": 10}


# ------------------------------------------------------------------ directed values of the model algebra

def leaf_values(tree):
    k = tree[0]
    if k == "b":
        return [True, False]
    if k == "n":
        return [None]
    if k == "i":
        lo, hi, ext = tree[2], tree[3], tree[4]
        cand = [0, 1, -1, 127, 128, -128, -129, 255, 256, 65535, 65536, 2**31 - 1, -2**31, 2**32 - 1, 2**63 - 1, -2**63]
        for b in (lo, hi):
            if b is not None:
                cand += [b, b + 1, b - 1]
        if lo is not None and hi is not None:
            cand.append((lo + hi) // 2)
        inr = sorted(set(c for c in cand if (lo is None or c >= lo) and (hi is None or c <= hi) and -2**63 <= c < 2**63))
        if ext:
            inr += [c for c in ((lo - 1) if lo is not None else None, (hi + 1) if hi is not None else None, 300, -300) if c is not None]
        return inr
    if k == "o":
        lo, hi, ext = tree[2], tree[3], tree[4]
        ns = [lo, lo + 1, 2, 127, 128] + ([hi, hi - 1] if hi is not None else [lo + 3])
        ns = sorted(set(n for n in ns if n >= lo and (hi is None or n <= hi) and n <= 300))
        if ext:
            ns += [n for n in (lo - 1, (hi + 1) if hi is not None else None) if n is not None and n >= 0]
        return [bytes((i * 37 + n) % 256 for i in range(n)) for n in ns]
    raise ValueError(k)


def directed_values(tree, cap=40):
    """values that take every alternative of every CHOICE (every path through nested CHOICEs), both states of every
    OPTIONAL member, the boundary sizes of every OF and the boundary values of every leaf; members of a SEQUENCE cycle
    through their own lists in parallel (no cartesian product)"""
    k = tree[0]
    if k in ("b", "n", "i", "o"):
        return leaf_values(tree)[:cap]
    if k == "x":
        return directed_values(tree[2], cap)
    if k == "c":
        out = []
        per = max(2, cap // max(1, len(tree[1])))
        for i, a in enumerate(tree[1]):
            out += [("C", i, v) for v in directed_values(a, per)]
        return out
    if k == "s":
        lists = []
        for m in tree[2]:
            if m[0] == "?":
                vs = directed_values(m[1], cap)
                l = []
                for j, v in enumerate(vs):
                    l.append(("!", v))
                    if j % 2 == 0:
                        l.append(("_",))
                lists.append(l)
            else:
                lists.append(directed_values(m, cap))
        n = min(cap, max([len(l) for l in lists] + [1]))
        return [("S", [l[j % len(l)] for l in lists]) for j in range(n)]
    if k in ("q", "t"):
        lo, hi, ext = tree[2]
        els = directed_values(tree[3], cap)
        ns = [lo, lo + 1] + ([hi, hi - 1] if hi is not None else [lo + 3, len(els)])
        ns = sorted(set(n for n in ns if n >= lo and (hi is None or n <= hi) and n <= 40))
        if ext:
            ns += [n for n in (lo - 1, (hi + 1) if hi is not None else None) if n is not None and 0 <= n <= 40]
        out = []
        off = 0
        for n in ns:
            out.append(("L", [els[(off + j) % len(els)] for j in range(n)]))
            off += n
        # every element value appears at least once
        if hi is None or hi >= 1:
            width = max(1, min(hi if hi is not None else 8, 8))
            width = max(width, lo)
            for s in range(0, len(els), width):
                chunk = [els[(s + j) % len(els)] for j in range(width)]
                if len(out) < cap:
                    out.append(("L", chunk))
        return out
    raise ValueError(k)


def model_cases(model_exe, mods, rng, nrandom, run_lines):
    """cases of the model-algebra family modules: directed values first, random after; the extracted codec model
    supplies DER, UPER (faithful and standard reading) and OER.  Same shape as modcorpus.build_corpus cases."""
    cases = []
    for m in mods:
        for tn, _t in m["defs"]:
            tree = m["trees"][tn]
            ts = model_str(tree)
            vals = directed_values(tree) + [value(tree, rng) for _ in range(nrandom)]
            seen = set()
            for v in vals:
                vs = val_str(v)
                if vs in seen:
                    continue
                seen.add(vs)
                cases.append({"mod": m, "tn": tn, "ts": ts, "vs": vs})
    lines = ["der %s %s" % (c["ts"], c["vs"]) for c in cases]
    rcm, mo, me = run_lines(model_exe, lines, timeout=1200)
    if rcm != 0 or len(mo) != len(lines):
        raise RuntimeError("model driver failed: %s %s" % (rcm, me))
    for c, d in zip(cases, mo):
        c["der"] = d
    cases = [c for c in cases if c["der"] != "NONE"]
    need = [c for c in cases if "t" in c["ts"]]
    rcm, mo, me = run_lines(model_exe, ["berdec %s %s" % (c["ts"], c["der"]) for c in need], timeout=1200)
    for c, d in zip(need, mo):
        f = d.split()
        if f[0] != "OK" or int(f[1]) * 2 != len(c["der"]):
            raise RuntimeError("model does not decode its own DER: %s %s -> %s" % (c["ts"], c["vs"], d))
        c["vs"] = f[2]
    lines = []
    for c in cases:
        lines += ["uper 0 %s %s" % (c["ts"], c["vs"]), "uper 1 %s %s" % (c["ts"], c["vs"]), "oer %s %s" % (c["ts"], c["vs"])]
    rcm, mo, me = run_lines(model_exe, lines, timeout=1200)
    if rcm != 0 or len(mo) != len(lines):
        raise RuntimeError("model driver failed: %s %s" % (rcm, me))
    for i, c in enumerate(cases):
        c["uper"], c["uperstd"], c["oer"] = mo[3 * i:3 * i + 3]
    # distinct DER only (SET OF sorting may merge values)
    seen, out = set(), []
    for c in cases:
        key = (c["mod"]["name"], c["tn"], c["der"])
        if key not in seen:
            seen.add(key)
            out.append(c)
    return out


ABOUT = {"FI": ["-findirect-choice"], "FR": ["-findirect-choice"],
         "FNI": ["-fno-constraints", "-no-gen-OER", "-no-gen-PER"], "FNA": ["-fno-constraints"], "FNW": ["-fno-constraints", "-no-gen-OER"],
         "FWT": ["-fwide-types"], "FCN": ["-fincludes-quoted", "-fno-include-deps", "no -fcompound-names"],
         "FDP": ["-fincludes-quoted", "-fno-include-deps", "no -fcompound-names"]}


def about(m):
    """the options a family module is about"""
    return ABOUT.get(m["name"]) or ABOUT[m["name"][:2]]


def relevant(m, opts):
    """quick tier: a family module is built under the option sets that contain one of the options it is about"""
    a = about(m)
    return any(o in opts for o in a) or ("no -fcompound-names" in a and "-fcompound-names" not in opts)


def model_family_modules():
    return indirect_modules() + noconstr_modules()


def text_family_modules(rng, tier):
    return recursive_modules() + [noconstr_wide_module(), widetypes_module(rng, tier), compound_module(), deps_module()]
