"""C03 — the NUMBER of length octets of a long-form BER length (X.690 8.1.3.5: 1..126 subsequent octets, the
minimum number is NOT required, so any count of leading zero octets is valid; 0xFF is reserved).

Region this file closes (seeded/C03-10): the variant generator of lib/c03_util.py / checks/c03.py padded long
forms with at most min+3..6 octets, i.e. never beyond sizeof(ber_tlv_len_t) = 8 octets; a decoder that bounds the
COUNT of length octets by the width of its length type (instead of bounding the VALUE) was never contradicted.

Three parts:
 plan_variants   the modelled algebra (generated modules): extra members of the BerVariants family with k length
                 octets on the outermost TLV / a member / an EXPLICIT wrapper / a leaf / every TLV; they run through
                 ber_part of checks/c03.py (C oracle, reference decoder Der.ber_dec, spec encoder ber_var);
 ML8             a hand-written module with extensible SEQUENCE / SET (unknown extension additions are skipped by
                 ber_skip_length, also nested ones), EXPLICIT wrappers, CHOICE, SEQUENCE OF / SET OF, every primitive
                 decoder (ber_decode_primitive), constructed OCTET STRING segments; values are raw TLV trees, the expected
                 DER is computed here; oracle on the C alone: OK, full length, same value; k = 127 (0xFF) is refused;
 leaf tie        ber_fetch_length and ber_skip_length themselves (harness/leafdrv: len_fetch, skiplen) against the
                 extracted models (Leaf/BerTL.v fetch_length, Rt/SafetySkip.v ber_skip_length) for EVERY k = 1..127,
                 plus the oracle "OK n k+1" evaluated directly.
"""
import os
from vlib import log

DIRECTED = [1, 2, 3, 4, 7, 8, 9, 10, 16, 63, 125, 126]


def ks_for(rng, tier):
    n = 4 if tier == "quick" else 16
    ks = list(DIRECTED)
    while n:
        k = rng.range(1, 126)
        if k not in ks:
            ks.append(k)
            n -= 1
    return ks


# ------------------------------------------------------------------ part 1: the modelled algebra

_rot = [0, 0]


def _next_k(lo=1):
    """directed values in rotation (deterministic: the order of the cases is)"""
    for _ in range(len(DIRECTED)):
        k = DIRECTED[_rot[0] % len(DIRECTED)]
        _rot[0] += 1
        if k >= lo:
            return k
    return 126


def plan_variants(plan, rng, tier, emit, light=False):
    """emit(label) encodes the plan's current choices.  A long form too short for the actual length falls back to the minimal form
    on both sides (U.len_octets / BerVariants.len_var), so constructed nodes get k >= 3."""
    nodes = plan.nodes
    if not nodes or len(nodes) > 400:
        return
    # (no draw from the check's main stream: the corpus of the earlier rounds stays what it was; rotation instead)
    _rot[1] += 1
    pick = lambda l, salt=0: l[(_rot[1] * 7 + salt) % len(l)]
    roles = [("outer", nodes[0])]
    xs = [n for n in nodes if n.kind == "x"]
    leaves = [n for n in nodes[1:] if not n.cons]
    members = [n for n in nodes[1:] if n.cons and n.kind != "x"]
    if xs:
        roles.append(("explicit", pick(xs)))
    if leaves:
        roles.append(("leaf", pick(leaves, 1)))
    if members:
        roles.append(("member", pick(members, 2)))
    if light:
        roles = roles[:1] + roles[-1:]
    for role, n in roles:
        plan.reset()
        n.lf = "l%d" % _next_k(3 if n.cons else max(1, (len(n.content).bit_length() + 7) // 8))
        emit("lenk-" + role)
    if len(nodes) <= 40:
        # every TLV with more than 8 length octets
        for k in ([pick([9, 10, 16])] if (light or tier == "quick") else [9, 16]) + [pick([63, 125, 126, 11 + (_rot[1] * 13) % 115], 3)]:
            plan.reset()
            for n in nodes:
                n.lf = "l%d" % k
            emit("lenk-all")


# ------------------------------------------------------------------ part 2: the directed module ML8

def module(name="ML8"):
    text = """%s DEFINITIONS IMPLICIT TAGS ::= BEGIN
  KI ::= INTEGER
  KB ::= BOOLEAN
  KO ::= OCTET STRING
  KN ::= NULL
  KE ::= ENUMERATED { e0, e1, e2 }
  KU ::= UTF8String
  KS ::= BIT STRING
  KD ::= OBJECT IDENTIFIER
  KX ::= [5] EXPLICIT INTEGER
  KY ::= [7] EXPLICIT OCTET STRING
  KXX ::= [APPLICATION 3] EXPLICIT KY
  KQ ::= SEQUENCE { a [0] INTEGER, b [1] BOOLEAN OPTIONAL, x [2] EXPLICIT OCTET STRING, ... }
  KT ::= SET { a [0] INTEGER, b [5] BOOLEAN, ... }
  KL ::= SEQUENCE OF INTEGER
  KM ::= SET OF OCTET STRING
  KC ::= CHOICE { i [0] INTEGER, q [1] KQ, l [2] KL }
  KW ::= SEQUENCE { c KC, t [9] KT, o OCTET STRING }
END
""" % name
    defs = ["KI", "KB", "KO", "KN", "KE", "KU", "KS", "KD", "KX", "KY", "KXX", "KQ", "KT", "KL", "KM", "KC", "KW"]
    return {"name": name, "default": "IMPLICIT", "defs": [(d, None) for d in defs], "trees": {}, "text": text}


class T:
    """one TLV of a hand-written value: tag octets (without the constructed bit), content or children; unk = an unknown extension
    addition (dropped by the older reader); exp = the TLV the decoder's DER re-encoding has in its place"""

    def __init__(self, tag, body, role, unk=False, exp=None):
        self.tag = bytes([tag]) if isinstance(tag, int) else bytes(tag)
        self.cons = isinstance(body, list)
        self.body = body
        self.role, self.unk, self.exp = role, unk, exp

    def walk(self, inside_unk=False):
        yield self, inside_unk or self.unk
        if self.cons:
            for kid in self.body:
                for x in kid.walk(inside_unk or self.unk):
                    yield x


def length_octets(n, k):
    """k = None: the minimal form; k: long form with exactly k subsequent octets (leading zeros, then the true length)"""
    if k is None:
        return bytes([n]) if n <= 127 else bytes([128 + (n.bit_length() + 7) // 8]) + n.to_bytes((n.bit_length() + 7) // 8, "big")
    if k == 127:
        return bytes([255]) + n.to_bytes(127, "big")        # reserved first octet (X.690 8.1.3.5 c)
    return bytes([128 + k]) + n.to_bytes(k, "big")


def enc(t, sel):
    """sel: {id(node): k}"""
    body = b"".join(enc(kid, sel) for kid in t.body) if t.cons else t.body
    tagb = bytes([t.tag[0] | (32 if t.cons else 0)]) + t.tag[1:]
    return tagb + length_octets(len(body), sel.get(id(t))) + body


def expected(t):
    if t.exp is not None:
        return expected(t.exp)
    body = b"".join(expected(kid) for kid in t.body if not kid.unk) if t.cons else t.body
    tagb = bytes([t.tag[0] | (32 if t.cons else 0)]) + t.tag[1:]
    return tagb + length_octets(len(body), None) + body


def values():
    P = lambda tag, content, role="leaf", **kw: T(tag, bytes(content), role, **kw)
    C = lambda tag, kids, role, **kw: T(tag, list(kids), role, **kw)
    big = bytes([1] + [(7 * i + 3) & 255 for i in range(299)])
    kq = lambda: [P(0x80, [5], "member"), P(0x81, [255], "member"), C(0x82, [P(4, b"hi")], "explicit-member"),
                  P(0x83, b"zz", "unknown-ext", unk=True),
                  C(0x84, [P(2, [1], "unknown-ext-nested"), C(0x10, [P(4, b"q", "unknown-ext-nested")], "unknown-ext-nested")], "unknown-ext", unk=True)]
    out = [
        ("KI", P(2, [5], "outer-leaf")), ("KI", P(2, [0x80, 0, 0, 1], "outer-leaf")),     # (INTEGER is a native long here: no long contents)
        ("KB", P(1, [255], "outer-leaf")), ("KN", P(5, [], "outer-leaf")), ("KE", P(10, [1], "outer-leaf")),
        ("KO", P(4, [], "outer-leaf")), ("KO", P(4, b"abc", "outer-leaf")), ("KO", P(4, big[:200], "outer-leaf")), ("KO", P(4, big, "outer-leaf")),
        ("KO", C(4, [P(4, b"ab", "segment"), P(4, b"", "segment"), P(4, b"cd", "segment")], "outer-segmented", exp=P(4, b"abcd"))),
        ("KU", P(12, "héllo".encode("utf-8"), "outer-leaf")), ("KS", P(3, [0, 0xa5], "outer-leaf")), ("KD", P(6, [0x2a, 3], "outer-leaf")),
        ("KX", C(0x85, [P(2, [0x7f])], "outer-explicit")),
        ("KXX", C(0x43, [C(0x87, [P(4, b"xyz")], "explicit")], "outer-explicit")),
        ("KQ", C(0x10, kq(), "outer")),
        ("KQ", C(0x10, [P(0x80, [0x7f, 0xff], "member"), C(0x82, [P(4, big[:130])], "explicit-member"), P(0x86, big[:140], "unknown-ext", unk=True)], "outer")),
        ("KT", C(0x11, [P(0x80, [5], "member"), P(0x82, b"u", "unknown-ext", unk=True), P(0x85, [255], "member"),
                        C(0x88, [P(4, b"", "unknown-ext-nested")], "unknown-ext", unk=True)], "outer")),
        ("KL", C(0x10, [P(2, [1], "element"), P(2, [2], "element"), P(2, [3], "element")], "outer")),
        ("KL", C(0x10, [], "outer")),
        ("KM", C(0x11, [P(4, b"a", "element"), P(4, b"b", "element")], "outer")),
        ("KC", P(0x80, [9], "outer-alternative")),
        ("KC", C(0x81, kq(), "outer-alternative")),
        ("KC", C(0x82, [P(2, [1], "element")], "outer-alternative")),
        ("KW", C(0x10, [C(0x81, kq()[:3], "alternative"), C(0x89, [P(0x80, [1], "member"), P(0x85, [0], "member")], "member"), P(4, b"end", "member")], "outer")),
    ]
    return out


def fits(n, k):
    return n < 256 ** k


def docs(rng, tier):
    """-> (type, label, role, bytes, expected DER | None = must be refused)"""
    ks = ks_for(rng, tier)
    out = []
    for tn, t in values():
        exp = expected(t)
        nodes = list(t.walk())
        out.append((tn, "der", "-", enc(t, {}), exp))
        for n, inside in nodes:
            ln = len(b"".join(enc(kid, {}) for kid in n.body) if n.cons else n.body)
            for k in ks:
                if fits(ln, k):
                    out.append((tn, "one:k=%d" % k, n.role, enc(t, {id(n): k}), exp))
            if not inside or n.unk:       # (the contents of a skipped definite-length TLV are not looked at)
                out.append((tn, "reserved:k=127", n.role, enc(t, {id(n): 127}), None))
        for k in ks:
            # (the length of an inner TLV grows with k: the outer ones need more octets; k >= 3 always suffices here)
            if k >= 3:
                out.append((tn, "all:k=%d" % k, "all", enc_all(t, k), exp))
        for _ in range(4 if tier == "quick" else 16):
            out.append((tn, "mix", "mix", enc_mix(t, rng), exp))
    return out


def enc_all(t, k):
    body = b"".join(enc_all(kid, k) for kid in t.body) if t.cons else t.body
    tagb = bytes([t.tag[0] | (32 if t.cons else 0)]) + t.tag[1:]
    return tagb + length_octets(len(body), k) + body


def enc_mix(t, rng):
    body = b"".join(enc_mix(kid, rng) for kid in t.body) if t.cons else t.body
    tagb = bytes([t.tag[0] | (32 if t.cons else 0)]) + t.tag[1:]
    lo = max(1, (len(body).bit_length() + 7) // 8)
    k = rng.choice([None, rng.range(lo, 126), rng.range(lo, 126), rng.choice([x for x in DIRECTED if x >= lo])])
    return tagb + length_octets(len(body), k) + body


# ------------------------------------------------------------------ part 3: the leaf functions

def leaf_lines(rng, tier):
    """-> [(command line, expected answer | None)]: ber_fetch_length / ber_skip_length on 0x80+k, zeros, the true length"""
    out = []
    lens = [0, 1, 6, 127, 128, 255, 256, 65535, 65536, 2 ** 24 - 1, 2 ** 32 - 1, 2 ** 32, 2 ** 55 - 1, 2 ** 55, 2 ** 62 - 1]
    for _ in range(6 if tier == "quick" else 40):
        lens.append(rng.below(2 ** rng.range(1, 62)))
    for n in lens:
        lo = max(1, (n.bit_length() + 7) // 8)
        for k in range(lo, 127):
            if tier == "quick" and k not in DIRECTED and k not in (lo, lo + 1) and (k + n) % 5:
                continue
            lo_b = length_octets(n, k)
            for cons in (0, 1):
                out.append(("len_fetch %d %s" % (cons, lo_b.hex()), "OK %d %d" % (n, k + 1)))
            out.append(("len_fetch %d %s" % (k & 1, (lo_b + bytes([rng.below(256), 0])).hex()), "OK %d %d" % (n, k + 1)))
            if k > 1:
                out.append(("len_fetch 0 %s" % lo_b[:rng.range(1, k)].hex(), "MORE"))
    # values that do not fit ssize_t / RSSIZE_MAX are refused whatever the number of octets (no expectation of ours: model = C)
    for n in (2 ** 62, 2 ** 63 - 1, 2 ** 63, 2 ** 64 - 1, 2 ** 64, 2 ** 71 + 5):
        for k in (8, 9, 10, 16, 126):
            if fits(n, k):
                out.append(("len_fetch 0 %s" % length_octets(n, k).hex(), None))
    for cons in (0, 1):
        out.append(("len_fetch %d %s" % (cons, length_octets(6, 127).hex()), "ERR"))
        out.append(("len_fetch %d ff" % cons, "ERR"))
    # ber_skip_length: a primitive TLV body of n octets after a k-octet length; a constructed one holding padded TLVs
    for n in (0, 1, 6, 200, 300):
        for k in range(max(1, (n.bit_length() + 7) // 8), 127):
            if tier == "quick" and k not in DIRECTED and (k + n) % 7:
                continue
            body = bytes((i * 5 + 1) & 255 for i in range(n))
            out.append(("skiplen 0 %s" % (length_octets(n, k) + body).hex(), "OK %d" % (k + 1 + n)))
            out.append(("skiplen 0 %s" % (length_octets(n, k) + body + b"\x30\x00").hex(), "OK %d" % (k + 1 + n)))
            inner = b"\x04" + length_octets(n, k) + body
            k2 = DIRECTED[(k + n) % len(DIRECTED)]
            if fits(len(inner) * 2, k2):
                out.append(("skiplen 1 %s" % (length_octets(len(inner) * 2, k2) + inner + inner).hex(), "OK %d" % (k2 + 1 + 2 * len(inner))))
            out.append(("skiplen 1 %s" % (b"\x80" + inner + b"\x00\x00").hex(), "OK %d" % (1 + len(inner) + 2)))
    return out


def run_part(run, model, ml8, rng, tier, run_mod, correspond, build_leafdrv):
    import time
    t0 = time.time()
    # ---- ML8: oracle on the C alone
    if not ml8.get("exe"):
        run.violation("build:module", {"what": "the directed module of the length-octet sweep was rejected or its code does not compile", "module": ml8["text"],
                                       "asn1c_out": ml8.get("asn1c_out", "")[-1200:], "build_log": ml8.get("build_log", "")[-1200:]})
    else:
        ds = docs(rng, tier)
        lines = ["dec %s ber %s" % (tn, b.hex()) for (tn, lab, role, b, exp) in ds]
        out = run_mod(run, ml8, lines, "C03-lenk")
        for (tn, lab, role, b, exp), l, o in zip(ds, lines, out):
            run.case(l)
            kind = lab.split(":")[0]
            run.count("lenk_%s_%s" % (kind, role))
            if ":k=" in lab:
                k = int(lab.split("=")[1])
                run.count("lenk_octets_%s" % ("1..8" if k <= 8 else "9..16" if k <= 16 else "17..126" if k <= 126 else "127"))
            replay = {"module": ml8["text"], "type": tn, "variant_kind": lab, "tlv_role": role, "command_line": l, "c": o}
            if exp is None:
                if o.startswith("OK "):
                    run.violation("oracle:ber_length_reserved", dict(replay, what="a TLV whose first length octet is 0xFF (reserved, X.690 8.1.3.5 c) is accepted"))
                continue
            want = "OK %d %s ck=" % (len(b), exp.hex())
            if not o.startswith(want):
                run.violation("oracle:ber_length_octets", dict(replay, expected=want, what="the C BER decoder does not return OK / full length / the value on a valid encoding "
                                                                                         "whose long-form length has leading zero octets (X.690 8.1.3.5: up to 126 length octets, the minimum is not required)"))
        if ds:
            run.sample({"lenk": lines[len(lines) // 2][:160]})
    t1 = time.time()
    # ---- the leaf functions: model = C, and the oracle on the C answer
    ll = leaf_lines(rng, tier)
    try:
        cdrv = build_leafdrv()
    except Exception as e:          # BuildError
        run.violation("build:leafdrv", {"what": str(e)[-2000:]}, no_input=True)
        return
    cmds = [l for l, _ in ll]
    mo, co = correspond(run, "C03-lenk-leaf", cmds, model, cdrv)
    for (l, want), m, c in zip(ll, mo, co):
        run.case(l)
        run.count("lenk_leaf_" + l.split()[0])
        if m != c:
            run.violation("correspondence:BerTL.fetch_length" if l.startswith("len_fetch") else "correspondence:SafetySkip.ber_skip_length",
                          {"what": "the model of the length fetcher / skipper and the C disagree", "command_line": l, "model": m, "c": c, "expected": want},
                          no_input=(want is None or c == want))
        elif want is not None and c != want:
            run.violation("oracle:ber_length_octets", {"what": "ber_fetch_length / ber_skip_length does not read a valid long-form length with leading zero octets",
                                                       "command_line": l, "model": m, "c": c, "expected": want})
    log("C03: length-octet sweep: ML8 %d lines %.1fs, leaf %d lines %.1fs" % (len(ds) if ml8.get("exe") else 0, t1 - t0, len(ll), time.time() - t1))
