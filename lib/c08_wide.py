"""c08_wide — C08's oracle-only layer: constraint shapes outside the Coq model's algebra, checked
against a Python reading of X.680 alone.  One generated module `MW0`:
  * INTEGER constraints applied to type references (intersection of the layers), nested three deep,
    written as intersections / unions-then-restricted, and through parameterised types;
  * BOOLEAN (TRUE) / (FALSE), ENUMERATED value sets, REAL ranges with integer bounds (and one with
    real-number bounds), NULL, the time types' and OBJECT IDENTIFIER's built-in checks;
  * restricted strings (IA5 / Visible / Printable / Numeric / UTF8 / BMP / Universal): permitted alphabets
    of a single character, a one-character range, ranges at the edges of the built-in alphabet, unions of
    adjacent / gapped ranges, each combined with SIZE(0), SIZE(1), SIZE(0..1), SIZE(1..MAX), unions;
  * each leaf also as a SEQUENCE member, a SET member, a CHOICE alternative, the element of a SET OF, and
    three levels down (SEQUENCE { SEQUENCE OF CHOICE { .. } }).
A leaf is (name, ASN.1 text usable inline, samples); a sample is (label, DER, violated-constraint names, known).
`known` names the finding that excuses the C when it ACCEPTS this invalid sample."""
import re
from c08_util import tlv, in_parts, parts_text, int_content, PRINTABLE, NUMERIC, VISIBLE, IA5

UTAG = {"BOOLEAN": 1, "INTEGER": 2, "BIT STRING": 3, "OCTET STRING": 4, "NULL": 5, "OID": 6, "REAL": 9, "ENUMERATED": 10,
        "UTF8String": 12, "NumericString": 18, "PrintableString": 19, "IA5String": 22, "UTCTime": 23, "GeneralizedTime": 24,
        "VisibleString": 26, "UniversalString": 28, "BMPString": 30}
WIDTH = {"BMPString": 2, "UniversalString": 4}
BUILTIN = {"IA5String": IA5, "PrintableString": PRINTABLE, "NumericString": NUMERIC, "VisibleString": VISIBLE,
           "BMPString": set(range(0, 0xfffe))}      # the two non-characters FFFE / FFFF are not BMPString characters


def prim(name, content):
    return tlv(UTAG[name] * 4, False, bytes(content))


class Leaf:
    def __init__(self, name, text, samples, pre=(), inline=True, note=""):
        self.name, self.text, self.samples, self.pre, self.inline, self.note = name, text, samples, list(pre), inline, note

    def valid(self):
        for s in self.samples:
            if not s[2]:
                return s
        return None


# ---------------------------------------------------------------- INTEGER through references / parameters
def int_samples(layers, exc=()):
    """layers: list of parts lists, all of which must hold (intersection)"""
    vals = set([0])
    for ps in layers:
        for a, b in ps:
            for x in (a, b):
                if x is not None:
                    vals.update([x - 1, x, x + 1])
    fin = [x for ps in layers for p in ps for x in p if x is not None]
    vals.update([min(fin) - 1000, max(fin) + 1000])
    out = []
    for v in sorted(vals):
        bad = ["layer%d" % i for i, ps in enumerate(layers) if not in_parts(ps, v)]
        known = None
        if not bad and in_parts(list(exc), v):
            bad, known = ["except"], "C08-except-ignored"
        out.append(("int:%d" % v, prim("INTEGER", int_content(v)), bad, known))
    return out


def integer_leaves():
    L = []
    L.append(Leaf("WI1", "INTEGER (0..100)", int_samples([[(0, 100)]])))
    L.append(Leaf("WI2", "WI1 (10..20)", int_samples([[(0, 100)], [(10, 20)]])))
    L.append(Leaf("WI3", "WI2 (15..MAX)", int_samples([[(0, 100)], [(10, 20)], [(15, None)]])))
    L.append(Leaf("WI4", "INTEGER ((0..100) ^ (50..200))", int_samples([[(0, 100)], [(50, 200)]])))
    L.append(Leaf("WI5", "INTEGER (0..100 | 200..300) (50..250)", int_samples([[(0, 100), (200, 300)], [(50, 250)]])))
    L.append(Leaf("WI6", "WI1 (MIN..0)", int_samples([[(0, 100)], [(None, 0)]])))
    L.append(Leaf("WI7", "INTEGER (MIN..0)", int_samples([[(None, 0)]])))
    L.append(Leaf("WI8", "WI7 (-5..MAX)", int_samples([[(None, 0)], [(-5, None)]])))
    L.append(Leaf("WI9", "WI7 (MIN..-1 | 0)", int_samples([[(None, 0)], [(None, -1), (0, 0)]])))
    L.append(Leaf("WI10", "INTEGER (-128..127) (0..MAX)", int_samples([[(-128, 127)], [(0, None)]])))
    L.append(Leaf("WI11", "INTEGER ((MIN..0) ^ (0..MAX))", int_samples([[(None, 0)], [(0, None)]])))
    L.append(Leaf("WI12", "INTEGER (0..10 | 20..30) (5..25) (MIN..8 | 22..MAX)", int_samples([[(0, 10), (20, 30)], [(5, 25)], [(None, 8), (22, None)]])))
    # parameterised types
    pre = ["WP {INTEGER:hi} ::= INTEGER (MIN..hi)", "WM {Type, INTEGER:low} ::= Type (low..MAX)"]
    L.append(Leaf("WPa", "WP {0}", int_samples([[(None, 0)]]), pre=pre, inline=False))
    L.append(Leaf("WPb", "WP {-1}", int_samples([[(None, -1)]]), inline=False))
    L.append(Leaf("WPc", "WP {127}", int_samples([[(None, 127)]]), inline=False))
    L.append(Leaf("WMa", "WM {INTEGER, -1}", int_samples([[(-1, None)]]), inline=False))
    L.append(Leaf("WMb", "WM {INTEGER, -128}", int_samples([[(-128, None)]]), inline=False))
    L.append(Leaf("WMc", "WM {WI1, 50}", int_samples([[(0, 100)], [(50, None)]]), inline=False))
    return L


def list_leaves():
    """a named (and a parameterised) list type used through a reference that adds SIZE: the generated checker has to
    walk the elements after its own SIZE test"""
    def mk(size, elem, kind=16):
        out = []
        for vs in ([], [3], [3, 4], [0, 7], [3, 99], [99, 3], [-1, 3], [3, 4, 5], [3, 99, 5], [3, 4, 99], [8, 4, 5], [3, 4, 5, 6]):
            bad = []
            if size and not in_parts(size, len(vs)):
                bad.append("size")
            if any(not in_parts(elem, v) for v in vs):
                bad.append("element")
            items = [prim("INTEGER", int_content(v)) for v in vs]
            out.append(("list:%s" % ",".join(map(str, vs)), tlv(kind * 4, True, b"".join(sorted(items) if kind == 17 else items)), bad, None))
        return out
    pre = ["WLq ::= SEQUENCE OF INTEGER (0..7)", "WLt ::= SET OF INTEGER (0..7)", "WLp {INTEGER:hi} ::= SEQUENCE OF INTEGER (0..hi)",
           "WLs {INTEGER:n} ::= WLq (SIZE(n))"]
    # inline=False: kept out of the wrappers (a constrained reference as the element of an anonymous SET OF is C10's subject)
    L = [Leaf("WL1", "WLq (SIZE(2))", mk([(2, 2)], [(0, 7)]), pre=pre, inline=False)]
    L.append(Leaf("WL2", "WLt (SIZE(1..3))", mk([(1, 3)], [(0, 7)], 17), inline=False))
    L.append(Leaf("WL3", "WLq", mk([], [(0, 7)]), inline=False))
    L.append(Leaf("WL4", "WLp {7} (SIZE(1..2))", mk([(1, 2)], [(0, 7)]), inline=False))
    L.append(Leaf("WL5", "WLp {98}", mk([], [(0, 98)]), inline=False))
    L.append(Leaf("WL6", "WLs {3}", mk([(3, 3)], [(0, 7)]), inline=False))
    L.append(Leaf("WL7", "WL2 (SIZE(2))", mk([(2, 2)], [(0, 7)], 17), inline=False))
    return L


# ---------------------------------------------------------------- BOOLEAN / ENUMERATED / REAL / NULL / time / OID
def bool_leaves():
    T, F = ("bool:TRUE", prim("BOOLEAN", b"\xff")), ("bool:FALSE", prim("BOOLEAN", b"\x00"))
    mk = lambda ok_t, ok_f: [(T[0], T[1], [] if ok_t else ["value"], None), (F[0], F[1], [] if ok_f else ["value"], None)]
    # a constrained BOOLEAN directly in front of another int-sized member (no padding between the two)
    pair = lambda a, b: tlv(16 * 4, True, bytes([0x80, 1, 0xff if a else 0, 0x81, 1, 0xff if b else 0]))
    wbs = Leaf("WBS", "SEQUENCE { wbsa BOOLEAN (FALSE), wbsb BOOLEAN }",
               [("boolpair:FT", pair(0, 1), [], None), ("boolpair:FF", pair(0, 0), [], None),
                ("boolpair:TF", pair(1, 0), ["value"], None), ("boolpair:TT", pair(1, 1), ["value"], None)], inline=False)
    return [wbs, Leaf("WB1", "BOOLEAN (TRUE)", mk(True, False)), Leaf("WB2", "BOOLEAN (FALSE)", mk(False, True)),
            Leaf("WB3", "BOOLEAN (TRUE | FALSE)", mk(True, True)), Leaf("WB4", "BOOLEAN", mk(True, True))]


ENUM = [("red", 0), ("green", 1), ("blue", 5), ("neg", -3), ("big", 128), ("huge", 2147483647)]


def enum_leaves():
    pre = ["WE ::= ENUMERATED { %s }" % ", ".join("%s(%d)" % e for e in ENUM)]

    def mk(allowed, known=None):
        return [("enum:%s" % n, prim("ENUMERATED", int_content(v)), [] if n in allowed else ["value"], known) for n, v in ENUM]
    names = [n for n, _ in ENUM]
    L = [Leaf("WE0", "WE", mk(names), pre=pre)]
    L.append(Leaf("WE1", "WE (red)", mk(["red"])))
    L.append(Leaf("WE2", "WE (red | blue)", mk(["red", "blue"])))
    L.append(Leaf("WE3", "WE (neg | big)", mk(["neg", "big"])))
    L.append(Leaf("WE4", "WE (green | blue | neg | big | huge)", mk(["green", "blue", "neg", "big", "huge"])))
    L.append(Leaf("WE5", "WE (ALL EXCEPT red)", mk(["green", "blue", "neg", "big", "huge"], "C08-except-ignored")))
    L.append(Leaf("WE6", "WE (huge)", mk(["huge"])))
    L.append(Leaf("WE7", "WE2 (blue)", mk(["blue"])))
    return L


def real_der(m, e):
    """DER of m * 2^e (m an integer); the mantissa is made odd"""
    if m == 0:
        return prim("REAL", b"")
    neg = m < 0
    m = abs(m)
    while m % 2 == 0:
        m //= 2
        e += 1
    eb = int_content(e)
    assert len(eb) <= 3
    first = 0x80 | (0x40 if neg else 0) | (len(eb) - 1)
    return prim("REAL", bytes([first]) + eb + m.to_bytes((m.bit_length() + 7) // 8, "big"))


REALS = [("0", 0, 0), ("1", 1, 0), ("-1", -1, 0), ("0.5", 1, -1), ("-0.5", -1, -1), ("1.5", 3, -1), ("2", 2, 0), ("5", 5, 0), ("4.75", 19, -2),
         ("5.25", 21, -2), ("10", 10, 0), ("9.5", 19, -1), ("10.5", 21, -1), ("11", 11, 0), ("tiny", 1, -40), ("-tiny", -1, -40),
         ("2^100", 1, 100), ("-2^100", -1, 100), ("2^1000", 1, 1000), ("-2^1000", -1, 1000)]
REAL_SPECIAL = [("+inf", prim("REAL", b"\x40"), float("inf")), ("-inf", prim("REAL", b"\x41"), float("-inf"))]


def real_leaves():
    def mk(pred, known=None):
        out = []
        for n, m, e in REALS:
            x = m * (2.0 ** e) if abs(e) < 1000 else float(m) * float(2 ** 1000)
            out.append(("real:" + n, real_der(m, e), [] if pred(x) else ["value"], known))
        for n, d, x in REAL_SPECIAL:
            out.append(("real:" + n, d, [] if pred(x) else ["value"], known))
        return out
    L = [Leaf("WR0", "REAL", mk(lambda x: True))]
    L.append(Leaf("WR1", "REAL (0..10)", mk(lambda x: 0 <= x <= 10)))
    L.append(Leaf("WR2", "REAL (MIN..0)", mk(lambda x: x <= 0)))
    L.append(Leaf("WR3", "REAL (0..MAX)", mk(lambda x: x >= 0)))
    L.append(Leaf("WR4", "REAL (-1..1)", mk(lambda x: -1 <= x <= 1)))
    L.append(Leaf("WR5", "REAL (5)", mk(lambda x: x == 5)))
    L.append(Leaf("WR6", "REAL (MIN..-1 | 1..MAX)", mk(lambda x: x <= -1 or x >= 1)))
    L.append(Leaf("WR7", "REAL (0.5..1.5)", mk(lambda x: 0.5 <= x <= 1.5, "C08-real-bounds-unchecked")))
    return L


def misc_leaves():
    L = [Leaf("WN1", "NULL", [("null", prim("NULL", b""), [], None)])]
    L.append(Leaf("WU1", "UTCTime", [("utc:full", prim("UTCTime", b"250101120000Z"), [], None), ("utc:nosec", prim("UTCTime", b"2501011200Z"), [], None),
                                     ("utc:offset", prim("UTCTime", b"250101120000+0100"), [], None),
                                     ("utc:letters", prim("UTCTime", b"hello, world"), ["format"], None), ("utc:empty", prim("UTCTime", b""), ["format"], None),
                                     ("utc:month13", prim("UTCTime", b"251301120000Z"), ["format"], "C08-time-fields-unchecked")]))
    L.append(Leaf("WG1", "GeneralizedTime", [("gt:full", prim("GeneralizedTime", b"20250101120000Z"), [], None), ("gt:frac", prim("GeneralizedTime", b"20250101120000.5Z"), [], None),
                                             ("gt:letters", prim("GeneralizedTime", b"not a time at all"), ["format"], None),
                                             ("gt:empty", prim("GeneralizedTime", b""), ["format"], None)]))
    L.append(Leaf("WO1", "OBJECT IDENTIFIER", [("oid:1.2.3", prim("OID", b"\x2a\x03"), [], None), ("oid:2.999", prim("OID", b"\x88\x37"), [], None)]))
    return L


def bits_leaves():
    """BIT STRING SIZE: the size is counted in bits (8 * octets - unused)"""
    def der(n):
        nb = (n + 7) // 8
        un = 8 * nb - n
        body = (bytes([0xff] * (nb - 1)) + bytes([(0xff << un) & 0xff])) if nb else b""
        return prim("BIT STRING", bytes([un]) + body)
    L = []
    for i, size in enumerate([[(0, 0)], [(1, 1)], [(0, 1)], [(8, 8)], [(7, 9)], [(1, None)], [(0, 0), (9, 9)], [(0, 7), (9, None)], [(16, 16)], [(0, 65535)]]):
        ns = set([0, 1, 2, 7, 8, 9, 10, 15, 16, 17])
        for a, b in size:
            ns.update([max(a - 1, 0), a, a + 1] + ([b - 1, b, b + 1] if b is not None else []))
        samples = [("bits:%d" % n, der(n), [] if in_parts(size, n) else ["size"], None) for n in sorted(x for x in ns if x >= 0)]
        L.append(Leaf("WZ%d" % i, "BIT STRING (SIZE(%s))" % parts_text(size), samples))
    return L


# ---------------------------------------------------------------- restricted strings
def alpha_text(runs):
    """runs: [(lo, hi)] of code points, printable ASCII only"""
    q = lambda c: '"%s"' % chr(c)
    return "FROM(%s)" % " | ".join(q(a) if a == b else "%s..%s" % (q(a), q(b)) for a, b in runs)


def runs_set(runs):
    s = set()
    for a, b in runs:
        s.update(range(a, b + 1))
    return s


def enc_chars(base, cps):
    if base == "UTF8String":
        return "".join(chr(c) for c in cps).encode("utf-8")
    w = WIDTH.get(base, 1)
    return b"".join(c.to_bytes(w, "big") for c in cps)


def string_samples(base, size, runs, rng):
    """contents around every SIZE edge and, per FROM run, the characters at, just inside and just outside its edges
    in first / middle / last position"""
    builtin = BUILTIN.get(base)
    allowed = runs_set(runs) if runs else None
    if builtin is not None:
        pool = sorted((allowed & builtin) if allowed is not None else builtin)
    else:
        pool = sorted(allowed) if allowed is not None else [0x61, 0x5a, 0xe9, 0x20ac]
    pool = [c for c in pool if 0x20 <= c < 0x7f] or pool
    lens = set([0, 1, 2, 3])
    for a, b in size:
        lens.update([max(a - 1, 0), a, a + 1] + ([b - 1, b, b + 1] if b is not None else [a + 5]))
    lens = sorted(n for n in lens if 0 <= n <= 300)
    out, seen = [], set()

    def add(label, cps):
        content = enc_chars(base, cps)
        if content in seen:
            return
        seen.add(content)
        bad = []
        if size and not in_parts(size, len(cps)):
            bad.append("size")
        if builtin is not None and any(c not in builtin for c in cps):
            bad.append("builtin")
        if allowed is not None and any(c not in allowed for c in cps):
            bad.append("from")
        known = None
        if base == "UTF8String" and bad == ["from"] and len(runs) == 1:
            known = "C08-utf8-from-unchecked"
        out.append((label, prim(base, content), bad, known))

    for n in lens:
        add("len:%d" % n, [rng.choice(pool) for _ in range(n)])
    good_n = [n for n in lens if n >= 1 and (not size or in_parts(size, n))][:2]
    edge = set()
    for a, b in runs or []:
        edge.update([a - 1, a, a + 1, b - 1, b, b + 1])
    if builtin is not None:
        lo, hi = min(builtin), max(builtin)
        edge.update([lo - 1, lo, hi, hi + 1, 0x40, 0x2a, 0x80, 0xff, 0xffff])
    else:
        edge.update([0x41, 0xe9, 0x7f, 0x80] + ([0x20ac, 0xffff] if base != "UTF8String" else [0x20ac, 0x1f600]))
    maxcp = 0xffff if base == "BMPString" else 0xff if builtin is not None else 0x10ffff
    for c in sorted(x for x in edge if 0 <= x <= maxcp and not (0xd800 <= x <= 0xdfff)):
        for n in good_n or [1]:
            for pos in sorted(set([0, n // 2, n - 1])):
                cps = [rng.choice(pool) for _ in range(n)]
                cps[pos] = c
                add("char:%x@%d/%d" % (c, pos, n), cps)
    return out


SIZES_FOR_STRINGS = [[], [(0, 0)], [(1, 1)], [(0, 1)], [(1, None)], [(2, 3)], [(0, 0), (2, 2)], [(0, 2), (4, None)]]


def string_leaves(rng):
    plan = [
        ("IA5String", [[(0x61, 0x61)], [(0x61, 0x62)], [(0x61, 0x61), (0x63, 0x63)], [(0x61, 0x63), (0x64, 0x66)], [(0x61, 0x63), (0x65, 0x67)],
                       [(0x20, 0x21)], [(0x7d, 0x7e)], [(0x7e, 0x7e)], [(0x20, 0x7e)], None]),
        ("VisibleString", [[(0x20, 0x20)], [(0x20, 0x21)], [(0x7d, 0x7e)], [(0x7e, 0x7e)], [(0x41, 0x5a), (0x61, 0x7a)], None]),
        ("PrintableString", [[(0x41, 0x41)], [(0x7a, 0x7a)], [(0x30, 0x39)], [(0x41, 0x5a), (0x61, 0x7a)], [(0x20, 0x20)], None]),
        ("NumericString", [[(0x30, 0x30)], [(0x20, 0x20)], [(0x30, 0x39)], [(0x31, 0x33), (0x35, 0x37)], [(0x39, 0x39)], None]),
        ("UTF8String", [[(0x61, 0x61)], [(0x61, 0x61), (0x63, 0x63)], [(0x61, 0x63), (0x65, 0x67)], [(0x20, 0x7e)], None]),
        ("BMPString", [[(0x61, 0x61)], [(0x61, 0x63)], [(0x61, 0x61), (0x63, 0x63)], None]),
        ("UniversalString", [[(0x61, 0x61)], [(0x61, 0x63)], None]),
    ]
    L, k = [], 0
    for base, alphas in plan:
        for j, runs in enumerate(alphas):
            for size in ([SIZES_FOR_STRINGS[(k + j) % len(SIZES_FOR_STRINGS)]] + ([[(0, 0)]] if j == 0 else []) + ([[]] if j == 1 else [])):
                cs = []
                if size:
                    cs.append("SIZE(%s)" % parts_text(size))
                if runs:
                    cs.append(alpha_text(runs))
                if not cs and runs is None and j != len(alphas) - 1:
                    continue
                text = base + (" (%s)" % " ^ ".join(cs) if cs else "")
                L.append(Leaf("WX%d" % k, text, string_samples(base, size, runs, rng)))
                k += 1
    return L


# ---------------------------------------------------------------- wrappers
def retag(der, n):
    """[n] IMPLICIT on a TLV with a one-octet tag"""
    assert n < 31
    return bytes([(der[0] & 0x20) | 0x80 | n]) + der[1:]


def wrappers(leaves, rng, group=6):
    """[(type name, text, [(label, DER, bad, known)])] - each inline leaf once as SEQUENCE member, SET member,
    CHOICE alternative, SET OF element, and inside SEQUENCE { SEQUENCE OF CHOICE }"""
    use = [l for l in leaves if l.inline and l.valid() is not None and any(s[2] for s in l.samples)]
    out = []
    for gi in range(0, len(use), group):
        g = use[gi:gi + group]
        i = gi // group
        names = ["w%dm%d" % (i, j) for j in range(len(g))]
        valid = [l.valid()[1] for l in g]

        def picks(l):
            bad = [s for s in l.samples if s[2]]
            good = [s for s in l.samples if not s[2]]
            return rng.shuffle(bad)[:3] + rng.shuffle(good)[:2]
        # SEQUENCE member
        cases = []
        for j, l in enumerate(g):
            for lab, der, bad, known in picks(l):
                body = b"".join(retag(der if k == j else valid[k], k) for k in range(len(g)))
                cases.append(("seq-member:" + lab, tlv(16 * 4, True, body), bad, known))
        out.append(("WS%d" % i, "SEQUENCE { %s }" % ", ".join("s%s %s" % (n, l.text) for n, l in zip(names, g)), cases))
        # SET member
        cases = []
        for j, l in enumerate(g):
            for lab, der, bad, known in picks(l):
                body = b"".join(retag(der if k == j else valid[k], k) for k in range(len(g)))
                cases.append(("set-member:" + lab, tlv(17 * 4, True, body), bad, known))
        out.append(("WT%d" % i, "SET { %s }" % ", ".join("t%s %s" % (n, l.text) for n, l in zip(names, g)), cases))
        # CHOICE alternative
        cases = []
        for j, l in enumerate(g):
            for lab, der, bad, known in picks(l):
                cases.append(("choice-alt:" + lab, retag(der, j), bad, known))
        out.append(("WC%d" % i, "CHOICE { %s }" % ", ".join("c%s %s" % (n, l.text) for n, l in zip(names, g)), cases))
        # three levels down: SEQUENCE { SEQUENCE OF CHOICE { .. } }, the bad element first / last
        cases = []
        for j, l in enumerate(g):
            for lab, der, bad, known in picks(l):
                other = retag(valid[(j + 1) % len(g)], (j + 1) % len(g))
                items = [retag(der, j), other] if (j % 2) else [other, retag(der, j)]
                cases.append(("deep:" + lab, tlv(16 * 4, True, tlv(2, True, b"".join(items))), bad, known))
        out.append(("WD%d" % i, "SEQUENCE { d%sa SEQUENCE OF CHOICE { %s } }" % (names[0], ", ".join("d%s %s" % (n, l.text) for n, l in zip(names, g))), cases))
    # SET OF element, one type per leaf (a share)
    for li, l in enumerate(use):
        if li % 3:
            continue
        v = l.valid()[1]
        cases = []
        for lab, der, bad, known in [s for s in l.samples if s[2]][:3] + [s for s in l.samples if not s[2]][:1]:
            items = sorted([der, v, v])
            cases.append(("setof-elem:" + lab, tlv(17 * 4, True, b"".join(items)), bad, known))
        out.append(("WQ%d" % li, "SET OF %s" % l.text, cases))
    return out


def wide_module(rng, name="MW0"):
    leaves = integer_leaves() + list_leaves() + bool_leaves() + enum_leaves() + real_leaves() + misc_leaves() + bits_leaves() + string_leaves(rng)
    lines = ["%s DEFINITIONS AUTOMATIC TAGS ::= BEGIN" % name]
    cases, defs, texts = [], [], {}
    for l in leaves:
        for p in l.pre:
            lines.append("  " + p)
        lines.append("  %s ::= %s" % (l.name, l.text))
        defs.append((l.name, None))
        texts[l.name] = "%s ::= %s" % (l.name, l.text)
        for lab, der, bad, known in l.samples:
            cases.append({"tn": l.name, "label": lab.split(":")[0], "der": der.hex(), "bad": bad, "known": known, "what": "%s %s" % (l.text, lab), "text": texts[l.name]})
    for tn, text, cs in wrappers(leaves, rng):
        lines.append("  %s ::= %s" % (tn, text))
        defs.append((tn, None))
        texts[tn] = "%s ::= %s" % (tn, text)
        for lab, der, bad, known in cs:
            cases.append({"tn": tn, "label": lab.split(":")[0], "der": der.hex(), "bad": bad, "known": known, "what": "%s %s" % (tn, lab), "text": texts[tn][:1500]})
    lines.append("END")
    text = "\n".join(lines) + "\n"
    m = {"name": name, "default": "AUTOMATIC", "defs": defs, "text": text, "names": sorted(set(re.findall(r"[A-Za-z][A-Za-z0-9-]*", text)))}
    return m, cases
