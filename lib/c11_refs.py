"""c11_refs — the clause "references an undefined type" over the WAYS a reference can fail to resolve (wave 5, seeded C11-9).

Region: the fault catalogue of checks/c11.py had the undefined reference only in its plain form (one module, the name is
defined nowhere, no IMPORTS).  In libasn1fix a reference is resolved by asn1f_lookup_symbol_impl -> asn1f_lookup_in_module /
asn1f_lookup_in_imports / asn1f_lookup_module / asn1f_compatible_with_exports (asn1fix_retrieve.c); each failing branch
prints its own FATAL (or none) and returns NULL, and ONE later place (asn1f_fix_dereference_types) turns NULL into the
status -1.  Every branch other than "not found in the module's hash, not in IMPORTS" was never taken by the corpus.
This layer sweeps

  way the reference fails / resolves (WAYS below; every failing way has a valid control of the SAME shape):
    defined nowhere | local | IMPORTS from a module absent from the inputs | from a present module that does not define it |
    defined there but left out of its EXPORTS list | EXPORTS lists it but nothing defines it | EXPORTS ALL | explicit list |
    external reference Module.Type (module absent / symbol absent / not exported / ok) | chains of re-exporting modules of
    length 2..4 broken at every link in every manner | import cycle without definition | defined in a module that is present
    but not the one named in IMPORTS | defined in the named module but not listed in the IMPORTS symbol list
  x what is referenced (type, value) x where it is used (USES: member, OPTIONAL member, SET member, CHOICE alternative,
    SEQUENCE OF / SET OF element, nested, alias, tagged alias, COMPONENTS OF source, actual parameter, contained subtype;
    values: value assignment, DEFAULT, range end, SIZE, named number)
  x arrangement of the modules (one file user first / user last, one file per module in both orders).

Oracle (property text, evaluated on asn1c's outcome only): the set contains a reference that does not resolve under X.680
(13.1: defined in the module or in its IMPORTS list; the exporting module exists, exports it (12.12/12.13: no EXPORTS or
EXPORTS ALL = everything) and itself defines or imports it)  =>  non-zero exit, a diagnostic, no .c/.h; every reference
resolves => exit 0 and code.  General clause, every run: a `FATAL:` line on stderr => non-zero exit and no code.
Model: coq/Fix/Resolve.v (resolve with fuel = number of modules; command-free: the Python resolver below is the same
recursion and is compared with the per-way expectation written by hand)."""
import os, re, shutil, subprocess
from concurrent.futures import ThreadPoolExecutor


# ------------------------------------------------------------------ abstract module sets
def M(name, defs=(), imports=(), exports=None):
    """exports: None (no clause) | 'ALL' | [names];  imports: [(from, [names])];  defs: [names]"""
    return {"name": name, "defs": list(defs), "imports": [(f, list(s)) for f, s in imports], "exports": exports}


def exported(mod, sym):
    return mod["exports"] is None or mod["exports"] == "ALL" or sym in mod["exports"]


def resolves(mods, at, sym, ext=None, fuel=None):
    """X.680 resolution of `sym` (or `ext.sym`) used in module `at`; independent of asn1c."""
    byname = {}
    for m in mods:
        byname.setdefault(m["name"], m)
    fuel = len(mods) + 1 if fuel is None else fuel
    if fuel == 0:
        return False
    cur = byname[at]
    if ext is not None:
        tgt = byname.get(ext)
        return tgt is not None and exported(tgt, sym) and resolves(mods, ext, sym, None, fuel - 1)
    if sym in cur["defs"]:
        return True
    for frm, syms in cur["imports"]:
        if sym in syms:
            tgt = byname.get(frm)
            return tgt is not None and exported(tgt, sym) and resolves(mods, frm, sym, None, fuel - 1)
    return False


def ways():
    """[(name, expected_ok, [modules; the user module is 'U'], ext module name or None)]; the referenced symbol is S,
    B is a second symbol every provider defines (so that EXPORTS B / IMPORTS B are legal by themselves)."""
    W = []
    S, B = "S", "B"
    W.append(("undefined", False, [M("U")], None))
    W.append(("local", True, [M("U", [S])], None))
    W.append(("imp-module-absent", False, [M("U", imports=[("N", [S])])], None))
    W.append(("imp-module-absent-2nd-clause", False, [M("U", imports=[("N", [B]), ("Q", [S])]), M("N", [B])], None))
    W.append(("imp-ok", True, [M("U", imports=[("N", [S])]), M("N", [S, B])], None))
    W.append(("imp-ok-2nd-clause", True, [M("U", imports=[("N", [B]), ("Q", [S])]), M("N", [B]), M("Q", [S])], None))
    W.append(("imp-nodef", False, [M("U", imports=[("N", [S])]), M("N", [B])], None))
    W.append(("imp-nodef-elsewhere", False, [M("U", imports=[("N", [S])]), M("N", [B]), M("O", [S])], None))
    W.append(("imp-exports-all", True, [M("U", imports=[("N", [S])]), M("N", [S, B], exports="ALL")], None))
    W.append(("imp-exports-all-nodef", False, [M("U", imports=[("N", [S])]), M("N", [B], exports="ALL")], None))
    W.append(("imp-exports-listed", True, [M("U", imports=[("N", [S])]), M("N", [S, B], exports=[S])], None))
    W.append(("imp-exports-listed-2", True, [M("U", imports=[("N", [S])]), M("N", [S, B], exports=[B, S])], None))
    W.append(("imp-exports-omits-defined", False, [M("U", imports=[("N", [S])]), M("N", [S, B], exports=[B])], None))
    W.append(("imp-exports-omits-undefined", False, [M("U", imports=[("N", [S])]), M("N", [B], exports=[B])], None))
    W.append(("imp-exports-lists-undefined", False, [M("U", imports=[("N", [S])]), M("N", [B], exports=[S, B])], None))
    W.append(("imp-unlisted", False, [M("U", imports=[("N", [B])]), M("N", [S, B])], None))
    W.append(("imp-unlisted-control", True, [M("U", imports=[("N", [B, S])]), M("N", [S, B])], None))
    # external references
    W.append(("ext-ok", True, [M("U"), M("N", [S, B])], "N"))
    W.append(("ext-exports-all", True, [M("U"), M("N", [S, B], exports="ALL")], "N"))
    W.append(("ext-exports-listed", True, [M("U"), M("N", [S, B], exports=[S])], "N"))
    W.append(("ext-module-absent", False, [M("U")], "N"))
    W.append(("ext-nodef", False, [M("U"), M("N", [B])], "N"))
    W.append(("ext-not-exported", False, [M("U"), M("N", [S, B], exports=[B])], "N"))
    W.append(("ext-not-exported-undefined", False, [M("U"), M("N", [B], exports=[B])], "N"))
    W.append(("ext-imported-too", True, [M("U", imports=[("N", [S])]), M("N", [S, B])], "N"))
    # chains of re-exporting modules  U <- C1 <- ... <- Ck (Ck defines)
    for k in (2, 3, 4):
        names = ["C%d" % i for i in range(1, k + 1)]

        def chain(defines_last=True, absent=None, hide=None, explicit=None, drop_import=None):
            ms = [M("U", imports=[(names[0], [S])])]
            for i, n in enumerate(names):
                last = i == k - 1
                m = M(n, [B] + ([S] if last and defines_last else []),
                      imports=[] if last or drop_import == i else [(names[i + 1], [S])],
                      exports=[B] if hide == i else ([S, B] if explicit == i or explicit == "all" else None))
                if absent != i:
                    ms.append(m)
            return ms
        W.append(("chain%d-ok" % k, True, chain(), None))
        W.append(("chain%d-ok-explicit-exports" % k, True, chain(explicit="all"), None))
        W.append(("chain%d-end-nodef" % k, False, chain(defines_last=False), None))
        for i in range(k):
            W.append(("chain%d-absent-%d" % (k, i + 1), False, chain(absent=i), None))
            W.append(("chain%d-hidden-%d" % (k, i + 1), False, chain(hide=i), None))
            W.append(("chain%d-explicit-%d" % (k, i + 1), True, chain(explicit=i), None))
            if i < k - 1:
                W.append(("chain%d-link-missing-%d" % (k, i + 1), False, chain(drop_import=i), None))
    W.append(("cycle-2", False, [M("U", imports=[("N", [S])]), M("N", [B], imports=[("U", [S])])], None))
    W.append(("cycle-3", False, [M("U", imports=[("N", [S])]), M("N", [B], imports=[("O", [S])]), M("O", [B], imports=[("N", [S])])], None))
    return W


# ------------------------------------------------------------------ text
# use sites: name -> (what: 'type'|'value', kind of definition the symbol needs, [definition lines of the user module] with %s = the reference)
USES = [
    ("member", "type", "int", ["T ::= SEQUENCE { a INTEGER, b %s }"]),
    ("opt-member", "type", "int", ["T ::= SEQUENCE { a %s OPTIONAL, b BOOLEAN }"]),
    ("set-member", "type", "int", ["T ::= SET { a [0] %s, b [1] BOOLEAN }"]),
    ("alternative", "type", "int", ["T ::= CHOICE { a BOOLEAN, b %s }"]),
    ("seq-of", "type", "int", ["T ::= SEQUENCE OF %s"]),
    ("set-of", "type", "int", ["T ::= SET OF %s"]),
    ("of-in-member", "type", "int", ["T ::= SEQUENCE { l SEQUENCE OF %s, m BOOLEAN }"]),
    ("nested", "type", "int", ["T ::= SEQUENCE { a SEQUENCE { b CHOICE { c %s, d NULL } } }"]),
    ("alias", "type", "int", ["T ::= %s"]),
    ("tagged-alias", "type", "int", ["T ::= [3] %s"]),
    ("alias-then-member", "type", "int", ["A ::= %s", "T ::= SEQUENCE { a A, b BOOLEAN }"]),
    ("components-of", "type", "seq", ["T ::= SEQUENCE { a BOOLEAN, COMPONENTS OF %s }"]),
    ("actual-parameter", "type", "int", ["P {X} ::= SEQUENCE { p X, q BOOLEAN }", "T ::= P { %s }"]),
    ("contained-subtype", "type", "int", ["T ::= INTEGER (INCLUDES %s)"]),
    ("contained-subtype-bare", "type", "int", ["T ::= SEQUENCE { a INTEGER (%s) }"]),
    ("value-assignment", "value", "val", ["v INTEGER ::= %s", "T ::= SEQUENCE { a INTEGER }"]),
    ("default", "value", "val", ["T ::= SEQUENCE { a INTEGER DEFAULT %s, b BOOLEAN }"]),
    ("range-end", "value", "val", ["T ::= INTEGER (0..%s)"]),
    ("size", "value", "val", ["T ::= OCTET STRING (SIZE(%s))"]),
    ("named-number", "value", "val", ["T ::= INTEGER { n(%s) }"]),
]

DEFN = {"int": "%s ::= INTEGER (0..7)", "seq": "%s ::= SEQUENCE { x INTEGER, y NULL }", "val": "%s INTEGER ::= 5"}


def sym_names(what):
    return ("Sym", "Bee") if what == "type" else ("sym", "bee")


def module_text(m, what, kind, body):
    s, b = sym_names(what)
    nm = {"S": s, "B": b}
    L = ["%s DEFINITIONS ::= BEGIN" % ("User" if m["name"] == "U" else "Mod" + m["name"])]
    if m["exports"] == "ALL":
        L.append("EXPORTS ALL;")
    elif m["exports"] is not None:
        L.append("EXPORTS %s;" % ", ".join(nm[x] for x in m["exports"]))
    if m["imports"]:
        L.append("IMPORTS " + " ".join("%s FROM %s" % (", ".join(nm[x] for x in syms), "User" if f == "U" else "Mod" + f) for f, syms in m["imports"]) + ";")
    for d in m["defs"]:
        L.append((DEFN[kind] if d == "S" else DEFN["int" if what == "type" else "val"]) % nm[d])
    L += body
    if m["name"] != "U":
        L.append("Own%s ::= SEQUENCE { o BOOLEAN }" % m["name"])
    L.append("END")
    return "\n".join(L) + "\n"


ARRANGE = ["one-user-first", "one-user-last", "files-user-first", "files-user-last"]


def build(way, use, arrange):
    wname, ok, mods, ext = way
    uname, what, kind, lines = use
    s, b = sym_names(what)
    ref = s if ext is None else "Mod%s.%s" % (ext, s)
    texts = []
    for m in mods:
        body = [l % ref if "%s" in l else l for l in lines] if m["name"] == "U" else []
        # an import of the second symbol must be used too (harmless member) so that the IMPORTS clause is not idle
        if m["name"] == "U" and any("B" in syms for _, syms in m["imports"]):
            body = body + (["K ::= SEQUENCE { k %s }" % b] if what == "type" else ["k INTEGER ::= %s" % b])
        texts.append((m["name"], module_text(m, what, kind, body)))
    user = [t for t in texts if t[0] == "U"]
    rest = [t for t in texts if t[0] != "U"]
    order = user + rest if arrange.endswith("user-first") else rest + user
    if arrange.startswith("one"):
        files = [("m.asn1", "\n".join(t for _, t in order))]
    else:
        files = [("%s.asn1" % ("user" if n == "U" else "mod" + n.lower()), t) for n, t in order]
    want = resolves(mods, "U", "S", ext)
    # the other references of the set (K's Bee, nothing else) resolve by construction
    return files, want


DIAG_OK = re.compile(r"^(Compiled|Copied|Generated|Symlinked) ")


def run_set(args):
    idx, files, asn1c, skel, root = args
    d = os.path.join(root, "r%05d" % idx)
    os.makedirs(d)
    for fn, text in files:
        open(os.path.join(d, fn), "w").write(text)
    cmd = [asn1c, "-S", skel, "-fcompound-names"] + [fn for fn, _ in files]
    try:
        p = subprocess.run(cmd, cwd=d, stdout=subprocess.PIPE, stderr=subprocess.PIPE, text=True, errors="replace", timeout=120)
        rc, err = p.returncode, p.stderr
    except subprocess.TimeoutExpired:
        rc, err = -999, "TIMEOUT"
    gen = sorted(f for f in os.listdir(d) if f.endswith(".c") or f.endswith(".h"))
    # an #include of a header that was not generated (and is not a skeleton): code that cannot compile
    missing = set()
    have = set(gen)
    for f in gen:
        if f.endswith(".h") and (f.startswith("T") or f.startswith("K") or f.startswith("A") or f.startswith("P")):
            try:
                for mm in re.finditer(r'#include "([^"]+)"', open(os.path.join(d, f), errors="replace").read()):
                    if mm.group(1) not in have:
                        missing.add(mm.group(1))
            except OSError:
                pass
    shutil.rmtree(d, ignore_errors=True)
    lines = err.split("\n")
    diag = [l for l in lines if l.strip() and not DIAG_OK.match(l)]
    return {"rc": rc, "nfiles": len(gen), "nfatal": sum(1 for l in lines if l.startswith("FATAL:")),
            "missing_includes": sorted(missing), "stderr_tail": "\n".join(diag[-6:])[-900:]}


CLASH = re.compile(r"^FATAL: (Name \".*\" is generated by |\.\.\. \d+ more name clashes not shown|Name clashes encountered even with -fcompound-names)")


def clash_fatals(err):
    return sum(1 for l in err.split("\n") if CLASH.match(l))


def fatal_clause(r):
    """the general clause: a FATAL: line => non-zero exit and no code.  Returns a description or None."""
    if r.get("nfatal", 0) > 0 and (r["rc"] == 0 or r["nfiles"] > 0):
        return "asn1c printed %d FATAL line(s) and then exited with status %d, %d .c/.h files written" % (r["nfatal"], r["rc"], r["nfiles"])
    return None


def gen_cases(rng, tier):
    W, cases = ways(), []
    hand = {w[0]: w[1] for w in W}
    for w in W:
        for ui, u in enumerate(USES):
            if w[3] is not None and u[0] == "size":
                continue    # asn1c's grammar has no external value reference inside SIZE (parse error: not this property's subject)
            # directed: every way x every use, arrangement rotating (quick) / all arrangements (thorough)
            if tier == "quick" and w[0].startswith("chain") and (ui + len(w[0])) % 2:
                continue    # quick: chains meet every other use site (rotating with the way), thorough: all
            if tier == "quick":
                base = (len(w[0]) + ui) % len(ARRANGE)
                arrs = [ARRANGE[base]]
                if w[0] in ("imp-module-absent", "imp-exports-omits-undefined", "imp-exports-omits-defined", "imp-ok"):
                    arrs = ARRANGE
                elif not w[0].startswith("chain") and ui % 2 == 0:
                    arrs.append(ARRANGE[(base + 1 + rng.below(3)) % len(ARRANGE)])
            else:
                arrs = ARRANGE
            for a in arrs:
                files, want = build(w, u, a)
                assert want == hand[w[0]], ("resolver disagrees with the hand-written expectation", w[0])
                cases.append(("%s|%s|%s" % (w[0], u[0], a), w, u, files, want))
    return cases


KNOWN = []   # filled by the check: [(finding id, predicate(way name, use name, want, result))]


def run_layer(run, rng, tier, asn1c, skel, scratch_dir, ncpu):
    def viol(kind, rep, no_input=False):
        run.count("rf:violation:" + kind)
        run.violation(kind, rep, no_input=no_input)

    cases = gen_cases(rng, tier)
    root = os.path.join(scratch_dir, "c11rf")
    os.makedirs(root, exist_ok=True)
    with ThreadPoolExecutor(max_workers=ncpu) as ex:
        results = list(ex.map(run_set, [(i, cases[i][3], asn1c, skel, root) for i in range(len(cases))]))
    for (lab, w, u, files, want), r in zip(cases, results):
        run.case(lab)
        run.count("rf:way:" + re.sub(r"\d+$", "", w[0]))
        run.count("rf:use:" + u[0])
        run.count("rf:expected:" + ("resolves" if want else "unresolved"))
        text = "".join("-- file %s\n%s" % (fn, t) for fn, t in files)
        rep = {"label": lab, "files": [fn for fn, _ in files], "module_asn1": text, "input": text, "reference_resolves_under_X680": want,
               "asn1c": r, "replay_cmd": "split module_asn1 at the `-- file` lines into the named files in an empty directory; "
                                         "asn1c -S <skeletons> -fcompound-names <files in that order>; echo $?; ls *.c *.h"}
        bad = None
        if r["rc"] < 0:
            bad = "asn1c died (rc %d) instead of exiting with a verdict" % r["rc"]
        elif not want and (r["rc"] == 0 or r["nfiles"] > 0):
            bad = "a %s reference that does not resolve (%s, used as %s): asn1c exits %d and writes %d .c/.h files%s" % (
                u[1], w[0], u[0], r["rc"], r["nfiles"], (" (includes of never generated %s)" % ", ".join(r["missing_includes"])) if r["missing_includes"] else "")
        elif not want and r["nfatal"] == 0:
            bad = "rejected without a FATAL diagnostic"
        elif want and (r["rc"] != 0 or r["nfiles"] == 0):
            bad = "every reference of the set resolves (%s, used as %s): asn1c exits %d, %d files" % (w[0], u[0], r["rc"], r["nfiles"])
        elif want and r["missing_includes"]:
            bad = "accepted, but the code includes never generated %s" % ", ".join(r["missing_includes"])
        fc = fatal_clause(r)
        if bad is None and fc is None:
            run.count("rf:agree:" + ("accept" if want else "reject"))
            continue
        known = None
        for fid, pred in KNOWN:
            if pred(w[0], u[0], want, r) and any(fd["id"] == fid for fd in run.findings):
                known = fid
                break
        if known:
            run.known_finding(known, lab)
            run.count("known:" + known)
            continue
        if fc:
            viol("oracle:fatal-diagnostic-implies-failure", dict(rep, what=fc))
        if bad:
            run.count("oracle_deviation")
            viol("oracle:undefined-reference:" + ("accepted" if not want else "valid-rejected") if r["rc"] >= 0 else "oracle:undefined-reference:crash",
                 dict(rep, what=bad))
    return len(cases)
