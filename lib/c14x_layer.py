"""c14x_layer - the second layer of C14 (round c14x): the regions the base corpus of checks/c14.py
does not reach.

 R  RESET + re-decode over EVERY TYPE KIND.  Hand-written modules W (every primitive, string, time, ANY,
    SEQUENCE / SET / CHOICE / SET OF / SEQUENCE OF, extensible SEQUENCE and CHOICE with additions of every
    kind) compiled under three flag sets (default, -fwide-types, -findirect-choice) and IOC (an open type
    holder).  Values: directed boundary values first (BIT STRING of 0,1,7,8,9,15,16,17 bits, REAL specials,
    INTEGER / OID boundaries, empty and non-empty strings), then asn_random_fill.  Histories:
      dec A; reset; dec B; enc:der; enc:xer; free     all ordered pairs (A,B) of a type's values, per syntax
      dec A cut at c; reset; dec B; ...               starved first decode (every cut of short encodings)
      dec garbage(A); reset; dec B; ...
      dec A (syntax s); reset; dec B (syntax s2)      cross syntax
      dec A; mrt:<member>:<syn> x 4; enc:der; free    every member RESET by its own descriptor, in place, and
                                                      re-decoded (harness op mrt), list elements and the
                                                      present CHOICE alternative included
    each compared with the decode of the same bytes into a fresh structure; RESET must leave every byte of the
    block (size known to the ledger; cross-checked with the specifics' struct_size and the C type's sizeof)
    resp. of the member's extent (read off the parent's member table) zero.
 X  extensible types / open-type holders under faults at EVERY BYTE.  The extensible types of W (additions:
    SEQUENCE, BIT STRING, REAL, SEQUENCE OF, CHOICE, OID - all pointer members; with -findirect-choice the
    CHOICE alternatives too), the open type frame of IOC and generated families (lib/extgen.py) for which the
    model knows type and value.  Per (type, value, syntax in BER/UPER/OER/XER): the valid encoding cut at every
    byte (dec; free / dec; decr; free), every byte corrupted (several masks), directed container faults (OER
    open type length +-1, inner length +-1) - each followed by free, and by reset + valid re-decode for a part.
    One representative per distinct outcome signature (and every failure inside an OER container) is replayed
    with every allocation failing.
    Faithfulness (OER, generated families): after RC_FAIL with consumed = start of the container of addition j
    the C must hold exactly the blocks the model's structure owns in which additions >= j are absent
    (HeapX.fail_in_addition): the failed addition's own structure was released by oer_open_type_get.
 L  leaf layout and RESET on the byte level: `layout <T>` (C, offsetof/sizeof/specifics) against the model's
    table (HeapX.layout), and the bytes of every leaf structure after RESET against HeapX.leaf_free applied
    to the bytes before (c14leaf).
Violation kinds: the oracle kinds of c14_util.check_history plus correspondence:HeapX.*"""
import os, re, struct, math
from vlib import *
from modbuild import *
from c14_util import *
import extgen
from modgen import model_str, val_str

W_TEXT = """%(name)s DEFINITIONS AUTOMATIC TAGS ::= BEGIN
  KBool ::= BOOLEAN
  KNull ::= NULL
  KInt ::= INTEGER
  KIntC ::= INTEGER (0..255)
  KIntBig ::= INTEGER (0..18446744073709551615)
  KEnum ::= ENUMERATED { a(0), b(1), c(5), ..., d(9) }
  KReal ::= REAL
  KFloat ::= REAL (WITH COMPONENTS { mantissa (-16777215..16777215), base (2), exponent (-149..104) })
  KOid ::= OBJECT IDENTIFIER
  KRoid ::= RELATIVE-OID
  KBits ::= BIT STRING
  KBitsN ::= BIT STRING { f0(0), f1(1), f9(9) }
  KBitsC ::= BIT STRING (SIZE(3..12))
  KOct ::= OCTET STRING
  KOctC ::= OCTET STRING (SIZE(4))
  KUtf8 ::= UTF8String
  KIa5 ::= IA5String (SIZE(0..10))
  KPrint ::= PrintableString
  KVis ::= VisibleString
  KNum ::= NumericString
  KBmp ::= BMPString
  KUniv ::= UniversalString
  KGen ::= GeneralString
  KGraph ::= GraphicString
  KT61 ::= T61String
  KVideo ::= VideotexString
  KObjD ::= ObjectDescriptor
  KUtc ::= UTCTime
  KGt ::= GeneralizedTime
  KAny ::= SEQUENCE { a ANY }
  Inner ::= SEQUENCE { n INTEGER (0..65535), s UTF8String }
  KSeq ::= SEQUENCE { b BOOLEAN, i INTEGER, e KEnum, r REAL, o OBJECT IDENTIFIER, bs BIT STRING, os OCTET STRING OPTIONAL,
                      u UTF8String, in Inner, l SEQUENCE OF INTEGER, c CHOICE { x NULL, y BIT STRING, z Inner }, ob BIT STRING OPTIONAL, t UTCTime }
  KSeq2 ::= SEQUENCE { n NULL, ib KIntBig, ro RELATIVE-OID, bm BMPString, gt GeneralizedTime OPTIONAL, bn KBitsN, rr REAL OPTIONAL, so SET OF BIT STRING, ee KEnum OPTIONAL, fl KFloat, fo KFloat OPTIONAL }
  KSet ::= SET { b BOOLEAN, bs BIT STRING, r REAL OPTIONAL, in Inner }
  KChoice ::= CHOICE { b BOOLEAN, bs BIT STRING, r REAL, in Inner, l SET OF BIT STRING, o OBJECT IDENTIFIER }
  KSeqOf ::= SEQUENCE OF BIT STRING
  KSetOf ::= SET OF Inner
  KSeqOfR ::= SEQUENCE OF REAL
  KSeqOfC ::= SEQUENCE OF KChoice
  XSeq ::= SEQUENCE { a INTEGER (0..255), ..., e0 Inner OPTIONAL, e1 BIT STRING, e2 REAL OPTIONAL, e3 SEQUENCE OF UTF8String, e4 KChoice, e5 OBJECT IDENTIFIER }
  XChoice ::= CHOICE { a INTEGER (0..255), ..., x0 Inner, x1 BIT STRING, x2 SEQUENCE OF Inner }
  XSeqNest ::= SEQUENCE { h XSeq, ..., t XChoice }
END
"""

IOC_TEXT = """IOC DEFINITIONS AUTOMATIC TAGS ::= BEGIN
  MY-CLASS ::= CLASS { &id INTEGER UNIQUE, &Type } WITH SYNTAX { ID &id TYPE &Type }
  R1 ::= INTEGER
  R2 ::= BIT STRING
  R3 ::= SEQUENCE { n INTEGER (0..65535), s UTF8String }
  R4 ::= SEQUENCE OF UTF8String
  R5 ::= BOOLEAN
  MySet MY-CLASS ::= { { ID 1 TYPE R1 } | { ID 2 TYPE R2 } | { ID 3 TYPE R3 } | { ID 4 TYPE R4 } | { ID 5 TYPE R5 } }
  Frame ::= SEQUENCE { id MY-CLASS.&id({MySet}), value MY-CLASS.&Type({MySet}{@id}) }
END
"""

FLAGSETS = [("W", ("-fcompound-names",)), ("Ww", ("-fcompound-names", "-fwide-types")), ("Wi", ("-fcompound-names", "-findirect-choice"))]
SYNS = ("ber", "uper", "oer", "xer")
XTYPES = ("XSeq", "XChoice", "XSeqNest")


def own_rng(run, salt):
    return Rng(run.seed * 1000003 + 77000 + salt)


# ---------------------------------------------------------------- directed values (BER of universal-tag types)

def tlv(tag, content):
    n = len(content)
    if n < 128:
        return bytes([tag, n]) + content
    b = n.to_bytes((n.bit_length() + 7) // 8, "big")
    return bytes([tag, 0x80 | len(b)]) + b + content


def int_content(v):
    n = max(1, (v.bit_length() + 8) // 8)
    return v.to_bytes(n, "big", signed=True)


def real_content(x):
    if x == 0:
        return b"\x43" if math.copysign(1, x) < 0 else b""
    if math.isinf(x):
        return b"\x40" if x > 0 else b"\x41"
    if math.isnan(x):
        return b"\x42"
    m, e = math.frexp(abs(x))
    n = int(m * (1 << 53))
    e -= 53
    while n % 2 == 0:
        n //= 2
        e += 1
    eb = int_content(e)
    mb = n.to_bytes((n.bit_length() + 7) // 8, "big")
    if len(eb) > 3:
        return None
    return bytes([0x80 | (0x40 if x < 0 else 0) | (len(eb) - 1)]) + eb + mb


def bits_content(nbits, rng):
    nb = (nbits + 7) // 8
    data = bytearray(rng.bytes(nb))
    unused = (8 - nbits % 8) % 8
    if nb:
        data[-1] &= (0xff << unused) & 0xff
        if nbits % 8:
            data[-1] |= 1 << unused          # the last used bit is set: the length is really nbits
        elif nbits:
            data[-1] |= 1
    return bytes([unused]) + bytes(data)


def oid_content(arcs):
    out = bytearray()
    vals = [arcs[0] * 40 + arcs[1]] + list(arcs[2:])
    for v in vals:
        ds = [v & 0x7f]
        v >>= 7
        while v:
            ds.insert(0, 0x80 | (v & 0x7f))
            v >>= 7
        out += bytes(ds)
    return bytes(out)


STR_TAGS = {"KUtf8": 0x0c, "KIa5": 0x16, "KPrint": 0x13, "KVis": 0x1a, "KNum": 0x12, "KGen": 0x1b, "KGraph": 0x19, "KT61": 0x14,
            "KVideo": 0x15, "KObjD": 0x07}


def directed(tn, rng):
    """BER of boundary values of the top-level leaf types (universal tags: top-level types are not tagged)"""
    if tn == "KBool":
        return [b"\x01\x01\x00", b"\x01\x01\xff"]
    if tn == "KNull":
        return [b"\x05\x00"]
    if tn == "KInt":
        return [tlv(2, int_content(v)) for v in (0, 1, -1, 127, 128, -129, 2**31 - 1, -2**31, 2**63 - 1, -2**63)]
    if tn == "KIntC":
        return [tlv(2, int_content(v)) for v in (0, 1, 127, 128, 255)]
    if tn == "KIntBig":
        return [tlv(2, int_content(v)) for v in (0, 1, 2**31, 2**63 - 1, 2**63, 2**64 - 1)]
    if tn == "KEnum":
        return [tlv(10, int_content(v)) for v in (0, 1, 5, 9)]
    if tn == "KReal":
        xs = [0.0, -0.0, float("inf"), float("-inf"), float("nan"), 1.0, 1.5, -1.5, 0.1, 1e300, -2.5e-300, 3.0, 65536.0]
        return [tlv(9, c) for c in (real_content(x) for x in xs) if c is not None]
    if tn == "KFloat":
        xs = [0.0, -0.0, float("inf"), float("-inf"), float("nan"), 1.0, 1.5, -1.5, 3.0, 65536.0, 0.15625]
        return [tlv(9, c) for c in (real_content(x) for x in xs) if c is not None]
    if tn == "KOid":
        return [tlv(6, oid_content(a)) for a in ((0, 0), (1, 2, 840, 113549), (2, 999, 2**40, 1), (2, 39), (1, 3, 6, 1, 4, 1, 2**31 - 1))]
    if tn == "KRoid":
        return [tlv(13, oid_content((0, 5))[0:0] + bytes([5])), tlv(13, bytes([0x81, 0x00, 0x7f])), tlv(13, bytes([0x88, 0x80, 0x80, 0x80, 0x01, 3]))]
    if tn in ("KBits", "KBitsN"):
        return [tlv(3, bits_content(n, rng)) for n in (0, 1, 7, 8, 9, 15, 16, 17, 24, 33)]
    if tn == "KBitsC":
        return [tlv(3, bits_content(n, rng)) for n in (3, 7, 8, 9, 12)]
    if tn == "KOct":
        return [tlv(4, b""), tlv(4, b"\x00"), tlv(4, rng.bytes(5)), tlv(4, rng.bytes(17))]
    if tn == "KOctC":
        return [tlv(4, b"\x00\x00\x00\x00"), tlv(4, rng.bytes(4)), tlv(4, b"\xff\xff\xff\xff")]
    if tn in STR_TAGS:
        txt = b"12 345" if tn == "KNum" else b"Abc de"
        return [tlv(STR_TAGS[tn], b""), tlv(STR_TAGS[tn], txt[:1]), tlv(STR_TAGS[tn], txt), tlv(STR_TAGS[tn], txt + txt[:4])]
    if tn == "KBmp":
        return [tlv(0x1e, b""), tlv(0x1e, "a".encode("utf-16-be")), tlv(0x1e, "Abc€".encode("utf-16-be"))]
    if tn == "KUniv":
        return [tlv(0x1c, b""), tlv(0x1c, "a".encode("utf-32-be")), tlv(0x1c, "Ab\U0001f600".encode("utf-32-be"))]
    if tn == "KUtc":
        return [tlv(0x17, b"700101000000Z"), tlv(0x17, b"9912312359Z"), tlv(0x17, b"200229120000+0130")]
    if tn == "KGt":
        return [tlv(0x18, b"19700101000000Z"), tlv(0x18, b"20200229120000.5Z"), tlv(0x18, b"2020022912Z")]
    if tn == "KAny":
        # SEQUENCE { a [0] ANY }: any TLV inside the explicit tag
        return [tlv(0x30, tlv(0xa0, x)) for x in (tlv(2, b"\x05"), tlv(5, b""), tlv(0x0c, b"hello"), tlv(0x30, tlv(2, b"\x01") + tlv(4, b"ab")), tlv(3, b"\x03\xb0"))]
    return []


# ---------------------------------------------------------------- modules

def type_names(text):
    return [m.group(1) for m in re.finditer(r"^\s+([A-Z][A-Za-z0-9]*) ::= (?!CLASS)", text, re.M) if m.group(1) != "MySet"]


def xmods(rng, tier):
    """generated families of extensible SEQUENCEs / CHOICEs (model type and value known)"""
    xg = extgen.XGen(rng)
    mods = []
    n = 2 if tier == "quick" else 5
    for f in range(n):
        default = ["AUTOMATIC", "IMPLICIT", "EXPLICIT"][f % 3]
        m = extgen.new_module("XH%d" % f, default)
        root = xg.members(rng.range(1, 3), "r", default)
        adds = xg.members(4, "e", default, optchance=(1, 2), simple=False)
        extgen.build_seq_family(m, "S", root, adds, [1, 2, 4], default, {})
        extgen.build_choice_family(m, "C", xg.members(2, "r", default, simple=True), xg.members(3, "x", default), [1, 3], default, {})
        mods.append(extgen.finish_module(m))
    return mods


def plain_seq_ty(x):
    """the extensible SEQUENCE as the base model type: additions are further OPTIONAL (pointer) members"""
    return "s%d{%s%s}" % (extgen.SEQ_TAG, "".join(model_str(t) for t in x["rtrees"]), "".join("?" + model_str(a) for a in x["atrees"]))


def oer_len(n):
    if n < 128:
        return bytes([n])
    b = n.to_bytes((n.bit_length() + 7) // 8, "big")
    return bytes([0x80 | len(b)]) + b


# ---------------------------------------------------------------- building and describing

def build(run, tier):
    """returns list of module dicts (exe set), each with m['layer'] in {'W', 'IOC', 'XH'}"""
    groups = []
    for name, opts in FLAGSETS:
        text = W_TEXT % {"name": name}
        m = {"name": name, "text": text, "defs": [(t, None) for t in type_names(text)], "layer": "W", "opts": opts}
        groups.append(([m], opts, "c14x_" + name))
    ioc = {"name": "IOC", "text": IOC_TEXT, "defs": [(t, None) for t in type_names(IOC_TEXT)], "layer": "IOC", "opts": ("-fcompound-names",)}
    xh = xmods(own_rng(run, 1), tier)
    for m in xh:
        m["layer"] = "XH"
    groups.append(([ioc] + xh, ("-fcompound-names",), "c14x_X"))
    from concurrent.futures import ThreadPoolExecutor
    build_asn1c()
    build_skeleton_lib(True)            # once, before the parallel builds share it

    def one(g):
        ms, opts, tag = g
        build_modules(ms, tag=tag, opts=opts, extra_ldflags=WRAP, moddrv_extra=INC)
        return ms
    with ThreadPoolExecutor(max_workers=len(groups)) as ex:
        out = list(ex.map(one, groups))
    mods = [m for ms in out for m in ms]
    for m in mods:
        if not m.get("exe"):
            run.violation("build", {"what": "a module of the c14x layer does not build", "module": m["text"], "asn1c_rc": m.get("asn1c_rc"),
                                    "log": (m.get("build_log") or m.get("asn1c_out") or "")[-2500:]}, no_input=True)
    return [m for m in mods if m.get("exe")]


def ask(m, lines):
    """auxiliary queries (values, layouts); a line the driver dies on answers CRASH (asn_random_fill has defects of its
    own - an assertion on INTEGER (0..2^64-1), no filler for ANY and open types - which are not C14's matter)"""
    res, _ = run_resume(m["exe"], lines, timeout=600)
    return [o if o is not None else "CRASH" for o, _ in res]


def describe(m):
    """members / layout of every type of the module"""
    tns = [t for t, _ in m["defs"]]
    out = ask(m, ["members %s" % t for t in tns] + ["layout %s" % t for t in tns])
    m["members"], m["layout"] = {}, {}
    for t, l in zip(tns, out[:len(tns)]):
        f = l.split()
        mem = []
        for x in f[2:]:
            y = x.split(":")
            mem.append({"i": int(y[0]), "name": y[1], "ptr": y[2] == "ptr", "kind": y[3], "flags": y[4:]})
        m["members"][t] = {"kind": f[0].split("=")[1] if f and "=" in f[0] else "?", "m": mem}
    for t, l in zip(tns, out[len(tns):]):
        m["layout"][t] = l


def values_w(run, m, rng, tier):
    """valid encodings of values of every type: {tn: [ {der, ber, uper, oer, xer} ]} (hex strings or None)"""
    tns = [t for t, _ in m["defs"]]
    nfill = 4 if tier == "quick" else 10
    cand = []
    for t in tns:
        for b in directed(t, rng):
            cand.append((t, "directed", b.hex()))
    fl = [(t, s) for t in tns for s in range(1, nfill + 1)]
    out = ask(m, ["rfill %s %d %d" % (t, run.seed * 100 + s, 48) for t, s in fl])
    for (t, s), l in zip(fl, out):
        f = l.split()
        if len(f) >= 2 and f[0] == "OK" and f[1] not in ("ENCFAIL", "-"):
            cand.append((t, "rfill", f[1]))
    # canonical DER of each candidate through the C (directed inputs are BER; named bits lose trailing zeros ...)
    out = ask(m, ["xcode %s der %s der" % (t, h) for t, _, h in cand])
    vals, seen = {}, set()
    todo = []
    for (t, src, h), l in zip(cand, out):
        f = l.split()
        if len(f) < 2 or f[0] != "OK":
            run.count("c14x_value_rejected_%s" % src)
            continue
        if (t, f[1]) in seen or len(f[1]) > 400:
            continue
        seen.add((t, f[1]))
        v = {"der": f[1], "src": src, "ber": f[1]}
        vals.setdefault(t, []).append(v)
        todo.append((t, v))
    lines = []
    for t, v in todo:
        lines += ["xcode %s der %s %s" % (t, v["der"], s) for s in ("uper", "oer", "xer")]
    out = ask(m, lines)
    for i, (t, v) in enumerate(todo):
        for j, s in enumerate(("uper", "oer", "xer")):
            f = out[3 * i + j].split()
            v[s] = f[1] if len(f) >= 2 and f[0] == "OK" else None
            if v[s] == "-":
                v[s] = ""
    return vals


def values_ioc(run, m, rng, tier):
    """frames around values of the row types: BER/UPER/XER through the C from hand-written XER; OER assembled by hand
    (asn1c has no OER encoder for open types): id as unconstrained INTEGER, then the open type = length + OER of the row"""
    rows = {1: "R1", 2: "R2", 3: "R3", 4: "R4", 5: "R5"}
    xers = {1: ["<R1>5</R1>", "<R1>-70000</R1>"], 2: ["<R2>10110</R2>", "<R2>10101011</R2>", "<R2/>"], 3: ["<R3><n>7</n><s>hello</s></R3>", "<R3><n>0</n><s></s></R3>"],
            4: ["<R4><UTF8String>ab</UTF8String><UTF8String>c</UTF8String></R4>", "<R4/>"], 5: ["<R5><true/></R5>", "<R5><false/></R5>"]}
    vals = []
    for i, xs in xers.items():
        for x in xs:
            vals.append({"id": i, "row": rows[i], "rowxer": x, "frame": "<Frame><id>%d</id><value>%s</value></Frame>" % (i, x)})
    lines = []
    for v in vals:
        fx = v["frame"].encode().hex()
        lines += ["xcode Frame xer %s der" % fx, "xcode Frame xer %s uper" % fx, "xcode %s xer %s oer" % (v["row"], v["rowxer"].encode().hex())]
    out = ask(m, lines)
    res = []
    for k, v in enumerate(vals):
        d, u, o = (out[3 * k + j].split() for j in range(3))
        if len(d) < 2 or d[0] != "OK":
            run.count("c14x_value_rejected_ioc")
            continue
        e = {"der": d[1], "ber": d[1], "src": "ioc", "uper": u[1] if len(u) >= 2 and u[0] == "OK" else None, "xer": v["frame"].encode().hex(), "oer": None}
        if len(o) >= 2 and o[0] == "OK":
            row = bytes.fromhex(o[1]) if o[1] != "-" else b""
            e["oer"] = (bytes([1, v["id"]]) + oer_len(len(row)) + row).hex()
            e["oer_containers"] = [(2, len(oer_len(len(row))) + len(row))]
        res.append(e)
    return {"Frame": res}


def values_xh(run, m, model, rng, tier):
    """values of the generated families through the model (DER) and the C (other syntaxes); for SEQUENCEs the OER
    containers of the present additions are located from the model's encodings of their contents"""
    cases = []
    for tn, x in m["x"].items():
        if x["kind"] == "seq":
            n = x["nadd"]
            pats = ["all", "first", "last", "random", "random"] if tier == "quick" else ["all", "first", "last", "alt"] + ["random"] * 4
            for p in pats:
                v = extgen.seq_value(x, extgen.presence(p, n, rng), rng)
                cases.append({"tn": tn, "x": x, "v": v})
        else:
            nr, nx = len(x["rtrees"]), x["nadd"]
            for i in sorted(set([0, nr] + list(range(nr, nr + nx)))):
                cases.append({"tn": tn, "x": x, "v": extgen.choice_value(x, i, rng)})
    rcm, mo, me = run_lines(model, ["xder %s %s" % (c["x"]["ety"], val_str(c["v"])) for c in cases], timeout=600)
    if rcm != 0 or len(mo) != len(cases):
        raise RuntimeError("model driver failed (xder): %s" % me[-500:])
    cases = [dict(c, der=d) for c, d in zip(cases, mo) if d != "NONE" and len(d) <= 240]
    lines = []
    for c in cases:
        lines += ["xcode %s der %s %s" % (c["tn"], c["der"], s) for s in ("der", "uper", "oer", "xer")]
    out = ask(m, lines)
    # contents of the present additions in OER, by the model
    ml, idx = [], []
    for k, c in enumerate(cases):
        if c["x"]["kind"] != "seq":
            continue
        nr = len(c["x"]["rtrees"])
        for j, (t, av) in enumerate(zip(c["x"]["atrees"], c["v"][1][nr:])):
            if av[0] == "!":
                ml.append("oer %s %s" % (model_str(t), val_str(av[1])))
                idx.append((k, j))
    rcm, mo, me = run_lines(model, ml, timeout=600)
    if rcm != 0 or len(mo) != len(ml):
        raise RuntimeError("model driver failed (oer of additions): %s" % me[-500:])
    cont = {}
    for (k, j), o in zip(idx, mo):
        cont.setdefault(k, []).append((j, None if o == "NONE" else (b"" if o == "-" else bytes.fromhex(o))))
    vals = {}
    for k, c in enumerate(cases):
        f = [out[4 * k + j].split() for j in range(4)]
        if len(f[0]) < 2 or f[0][0] != "OK":
            run.count("c14x_value_rejected_xh")
            continue
        e = {"der": c["der"], "src": "xh", "vs": val_str(c["v"]), "v": c["v"], "x": c["x"]}
        for j, s in enumerate(("ber", "uper", "oer", "xer")):
            e[s] = f[j][1] if len(f[j]) >= 2 and f[j][0] == "OK" else None
            if e[s] == "-":
                e[s] = ""
        if c["x"]["kind"] == "seq" and e["oer"] is not None and all(b is not None for _, b in cont.get(k, [])):
            # containers sit at the END of the encoding, in order
            B = bytes.fromhex(e["oer"])
            cs = [(j, oer_len(len(b)) + b) for j, b in cont.get(k, [])]
            tail = b"".join(b for _, b in cs)
            if tail and B.endswith(tail):
                off = len(B) - len(tail)
                e["oer_containers"] = []
                e["oer_addition_of"] = []
                for j, b in cs:
                    e["oer_containers"].append((off, len(b)))
                    e["oer_addition_of"].append(j)
                    off += len(b)
            else:
                run.count("c14x_oer_containers_not_located")
        vals.setdefault(c["tn"], []).append(e)
    return vals


# ---------------------------------------------------------------- histories

def hexb(h):
    return bytes.fromhex(h) if h else b""


def hxs(h):
    return h if h else "-"


def tail_ops(s=None):
    return ["enc:der", "enc:xer", "free"]


def r_histories(m, tn, vals, rng, tier):
    """RESET + re-decode histories of one type"""
    hs = []
    case = {"tn": tn, "ts": "(wide) " + tn, "vs": "-"}
    info = m["members"].get(tn, {"kind": "?", "m": []})
    leafish = info["kind"] not in ("seq", "set", "choice", "list")

    def add(kind, syn, ops, **kw):
        hs.append(dict({"case": case, "kind": kind, "syn": syn, "ops": ops, "enc": {}}, **kw))
    for s in SYNS:
        V = [v for v in vals if v.get(s) is not None]
        if not V:
            continue
        for v in V:
            add("fresh-x", s, ["dec:%s:%s" % (s, hxs(v[s]))] + tail_ops())
        cap = (64 if leafish else 12) if tier == "quick" else (144 if leafish else 40)
        pairs = [(a, b) for a in V for b in V]
        if len(pairs) > cap:
            # every value at least once as the first and once as the second decode, then a random part
            keep = [(a, V[(i + 1) % len(V)]) for i, a in enumerate(V)] + [(a, a) for a in V]
            rest = rng.shuffle([p for p in pairs if p not in keep])
            pairs = (keep + rest)[:max(cap, len(keep))]
        for a, b in pairs:
            add("reset-pair", s, ["dec:%s:%s" % (s, hxs(a[s])), "reset", "dec:%s:%s" % (s, hxs(b[s]))] + tail_ops(), fail_ops=(2,))
        # starved / garbage first decode
        for a in V[:(6 if tier == "quick" else len(V))]:
            A = hexb(a[s])
            b = rng.choice(V)
            cuts = list(range(len(A))) if len(A) <= 12 else sorted(set([0, 1, len(A) - 1] + [rng.below(len(A)) for _ in range(3)]))
            for c in cuts:
                add("starve-reset-pair", s, ["dec:%s:%s:%d" % (s, hxs(a[s]), c), "reset", "dec:%s:%s" % (s, hxs(b[s]))] + tail_ops(), fail_ops=(0,))
            for _ in range(2):
                add("garbage-reset-pair", s, ["dec:%s:%s" % (s, hx(mutate(rng, A))), "reset", "dec:%s:%s" % (s, hxs(b[s]))] + tail_ops(), fail_ops=(0,))
        # cross syntax
        for a in V[:4]:
            s2 = rng.choice(SYNS)
            B = [v for v in vals if v.get(s2) is not None]
            if B:
                b = rng.choice(B)
                add("cross-reset-pair", s, ["dec:%s:%s" % (s, hxs(a[s])), "reset", "dec:%s:%s" % (s2, hxs(b[s2]))] + tail_ops(), fail_ops=(2,))
    # members reset by their own descriptor
    paths = []
    if info["kind"] in ("seq", "set"):
        paths = [str(x["i"]) for x in info["m"]]
    elif info["kind"] == "choice":
        paths = ["p"]
    elif info["kind"] == "list":
        paths = ["e0", "e1", "e2"]
    V = [v for v in vals if v.get("ber") is not None]
    nv = 3 if tier == "quick" else 8
    for v in V[:nv]:
        for pth in paths:
            add("member-reset", "ber", ["dec:ber:%s" % hxs(v["ber"])] + ["mrt:%s:%s" % (pth, s) for s in SYNS] + ["enc:der", "free"])
        if paths and v.get("oer") is not None:
            pth = rng.choice(paths)
            add("member-reset", "oer", ["dec:oer:%s" % hxs(v["oer"])] + ["mrt:%s:%s" % (pth, s) for s in SYNS] + ["enc:der", "free"])
    return hs


MASKS_QUICK = (0x01, 0x80, 0xff)
MASKS = (0x01, 0x02, 0x04, 0x08, 0x10, 0x20, 0x40, 0x80, 0xff)


def x_histories(m, tn, vals, rng, tier):
    """faults at every byte of the encodings of an extensible type / open type holder"""
    hs = []
    case0 = {"tn": tn, "ts": "(ext) " + tn, "vs": "-"}
    nv = (3 if m["layer"] != "W" else 2) if tier == "quick" else 8
    masks = MASKS_QUICK if tier == "quick" else MASKS

    def add(case, kind, syn, ops, **kw):
        # failing-allocation replays of a fault sweep: the faulty decode (and its continuation) only
        fo = (0, 1) if kind == "x-cut-rest" else (0,)
        hs.append(dict({"case": case, "kind": kind, "syn": syn, "ops": ops, "enc": {}, "sig": True, "fail_ops": fo}, **kw))
    for vi, v in enumerate(vals[:nv]):
        case = dict(case0)
        if v.get("vs"):
            case = {"tn": tn, "ts": v["x"]["ety"], "vs": v["vs"]}
        for s in SYNS:
            if v.get(s) is None:
                continue
            B = hexb(v[s])
            valid = "dec:%s:%s" % (s, hxs(v[s]))
            add(case, "fresh-x", s, [valid] + tail_ops(), nofail=True, sig=False)
            add(case, "x-valid", s, [valid, "enc:der", "enc:uper", "enc:oer", "enc:xer", "reset", valid] + tail_ops(), sig=False, fail_ops=None)
            textual = s == "xer"
            step = 1 if (not textual or tier != "quick") else (2 if len(B) <= 80 else 3)
            for c in range(0, len(B), step):
                if s in RESTARTABLE and (c % 3 == vi % 3 or len(B) <= 24):
                    add(case, "x-cut-rest", s, ["dec:%s:%s:%d" % (s, hxs(v[s]), c), "decr:%s" % s, "enc:der", "free"], pos=c)
                else:
                    add(case, "x-cut", s, ["dec:%s:%s:%d" % (s, hxs(v[s]), c), "free"], pos=c)
            for i in range(0, len(B), step):
                for mk in (masks if not textual else masks[:(1 if tier == "quick" else 3)]):
                    G = bytearray(B)
                    G[i] ^= mk
                    if (i + vi) % 4 == 0 and mk == masks[0]:
                        add(case, "x-corrupt-reset", s, ["dec:%s:%s" % (s, G.hex()), "reset", valid] + tail_ops(), pos=i, val=v)
                    else:
                        add(case, "x-corrupt", s, ["dec:%s:%s" % (s, G.hex()), "free"], pos=i, val=v)
            if s == "oer":
                # directed container faults: the open type's length one less / one more; the first octet inside
                # one more / one less; the container cut short by dropping its last octet
                for off, ln in v.get("oer_containers", []):
                    for d in (-1, 1):
                        if 0 <= B[off] + d < 128:
                            G = bytearray(B); G[off] += d
                            add(case, "x-container", s, ["dec:oer:%s" % G.hex(), "free"], pos=off, val=v)
                        if ln >= 2 and 0 <= B[off + 1] + d < 256:
                            G = bytearray(B); G[off + 1] += d
                            add(case, "x-container", s, ["dec:oer:%s" % G.hex(), "free"], pos=off + 1, val=v)
                            add(case, "x-container", s, ["dec:oer:%s" % G.hex(), "reset", valid] + tail_ops(), pos=off + 1, val=v)
                    if ln >= 2:
                        G = B[:off + ln - 1] + B[off + ln:]
                        add(case, "x-container", s, ["dec:oer:%s" % hx(G), "free"], pos=off, val=v)
                        G = B[:off + 1] + b"\xff" * (ln - 1) + B[off + ln:]
                        add(case, "x-container", s, ["dec:oer:%s" % hx(G), "free"], pos=off + 1, val=v)
    return hs


def units(run, tier, model):
    """-> list of (module, histories) for the runner of checks/c14.py"""
    mods = build(run, tier)
    out = []
    for k, m in enumerate(mods):
        rng = own_rng(run, 100 + k)
        describe(m)
        hs = []
        if m["layer"] == "W":
            vals = values_w(run, m, rng, tier)
            m["vals"] = vals
            for tn, vs in vals.items():
                hs += r_histories(m, tn, vs, rng, tier)
                if tn in XTYPES:
                    hs += x_histories(m, tn, vs, rng, tier)
        elif m["layer"] == "IOC":
            vals = values_ioc(run, m, rng, tier)
            m["vals"] = vals
            for tn, vs in vals.items():
                hs += r_histories(m, tn, vs, rng, tier)
                hs += x_histories(m, tn, vs, rng, tier)
        else:
            vals = values_xh(run, m, model, rng, tier)
            m["vals"] = vals
            for tn, vs in vals.items():
                hs += x_histories(m, tn, vs, rng, tier)
                hs += r_histories(m, tn, vs[:3], rng, tier)
        for h in hs:
            h["layer"] = m["layer"]
        out.append((m, hs))
    return out


# ---------------------------------------------------------------- faithfulness: model vs C

LEAF_KINDS = ("bool", "null", "nint", "nreal", "nfloat", "prim", "oct", "bits")


def post(run, results, model):
    """the model-vs-C comparisons of the layer (after the histories ran):
    layout constants, leaf RESET on the byte level, blocks held after a failure inside an OER container"""
    lines, meta = [], []
    seen = set()
    # L1: layout
    for m, hs, reps, exits in results:
        if not m.get("layer"):
            continue
        for tn, l in m.get("layout", {}).items():
            f = dict(x.split("=", 1) for x in l.split() if "=" in x)
            k = f.get("kind")
            if k in LEAF_KINDS:
                key = ("layout", l)
                if key not in seen:
                    seen.add(key)
                    lines.append("c14layout %s" % k)
                    meta.append(("layout", m, tn, l, None))
    # L2: leaf reset, byte level: every distinct (kind, bytes before)
    for m, hs, reps, exits in results:
        if not m.get("layer"):
            continue
        for h in hs:
            if not h.get("parsed"):
                continue
            for i, d in enumerate(h["parsed"][:-1]):
                if "pre" in d and "post" in d and d["pre"] != "-":
                    if d["op"] == "reset":
                        k = m["layout"].get(h["case"]["tn"], "").split()[0].split("=")[-1] if m["layout"].get(h["case"]["tn"]) else None
                    else:
                        k = d.get("k")
                    if k not in LEAF_KINDS:
                        continue
                    key = ("leaf", k, d["pre"], d["post"])
                    if key in seen:
                        continue
                    seen.add(key)
                    lines.append("c14leaf %s %s" % (k, d["pre"]))
                    meta.append(("leaf", m, h, d, i))
    # X: blocks held after a failure inside the OER container of addition j
    for m, hs, reps, exits in results:
        if m.get("layer") != "XH":
            continue
        for h in hs:
            v = h.get("val")
            if not v or h["syn"] != "oer" or not h.get("parsed") or not v.get("oer_containers") or v["x"]["kind"] != "seq":
                continue
            d = h["parsed"][0]
            if d.get("rc") != "FAIL" or "pos" not in h:
                continue
            # the corrupted byte lies in container j (or is its length) and the decoder stopped at its start
            for (off, ln), j in zip(v["oer_containers"], v["oer_addition_of"]):
                if off <= h["pos"] < off + ln and int(d.get("c", -1)) == off:
                    x = v["x"]
                    lines.append("c14xfail %d %d %s %s" % (len(x["rtrees"]), j, plain_seq_ty(x), v["vs"]))
                    meta.append(("xfail", m, h, d, j))
                    break
            else:
                run.count("c14x_oer_fail_elsewhere")
    if not lines:
        return
    rcm, mo, me = run_lines(model, lines, timeout=900)
    if rcm != 0 or len(mo) != len(lines):
        run.violation("model:HeapX", {"what": "model driver failed", "stderr": me[-1500:], "answered": len(mo), "asked": len(lines)}, no_input=True)
        return
    for (what, m, a, b, c), line, o in zip(meta, lines, mo):
        run.case(line)
        if what == "layout":
            tn, l = a, b
            run.count("c14x_layout_checked")
            cf = dict(x.split("=", 1) for x in l.split() if "=" in x)
            mf = dict(x.split("=", 1) for x in o.split() if "=" in x)
            # compare what both sides state (the model has no entry for the specifics' ctx offset of subtypes: only the base structs)
            diff = [(k, cf[k], mf.get(k)) for k in cf if k in mf and cf[k] != mf[k] and cf[k] != "-"]
            # the span the model's RESET wipes = what the C passes to memset (the specifics' struct_size, else the C type)
            span = cf.get("ss") if cf.get("ss", "-") != "-" else cf.get("sizeof")
            if mf.get("wiped") != span:
                diff.append(("wiped", span, mf.get("wiped")))
            if diff or not mf:
                run.violation("correspondence:HeapX.layout", {"what": "the layout of the leaf structure in the C (offsetof / sizeof / specifics) differs from the model's table: %s" % diff,
                                                              "module": m["text"], "asn1c_opts": " ".join(m.get("opts", ())), "type": tn, "c": l, "model": o, "command_line": "layout %s" % tn}, no_input=True)
        elif what == "leaf":
            h, d = a, b
            run.count("c14x_leaf_reset_%s" % line.split()[1])
            if o != d["post"]:
                run.violation("correspondence:HeapX.leaf_free", {"what": "bytes of a leaf structure after ASN_STRUCT_RESET: the C has %s, the model's leaf_free gives %s (before: %s)" % (d["post"], o, d["pre"]),
                                                                 "module": m["text"], "asn1c_opts": " ".join(m.get("opts", ())), "type": h["case"]["tn"],
                                                                 "command_line": "hist %s %s" % (h["case"]["tn"], ";".join(h["ops"])), "model_line": line}, no_input=(d.get("zero") == "1"))
        else:
            h, d, j = a, b, c
            run.count("c14x_fail_in_container")
            f = dict(x.split("=", 1) for x in o.split() if "=" in x)
            nC = d.get("live", "0/0").split("/")[0]
            if f.get("n") != nC:
                run.violation("correspondence:HeapX.fail_in_addition", {
                    "what": "after RC_FAIL inside the OER open type container of addition %d the C holds %s live blocks; the model's structure (additions from %d on absent, "
                            "the failed addition's own structure released by oer_open_type_get) owns %s" % (j, nC, j, f.get("n")),
                    "module": m["text"], "type": h["case"]["tn"], "value": h["case"]["vs"], "command_line": "hist %s %s" % (h["case"]["tn"], ";".join(h["ops"])),
                    "model_line": line, "model": o, "c": h["out"][:400]}, no_input=True)
