"""c15_nested — the nested-collection sweep of checks/c15.py (region closed in round C15w).

What was never generated before: a collection INSIDE a collection whose innermost elements are
zero-width or near-zero-width, with the inner counts chosen as large as the REST of the input
allows.  A bomb guard that is sound for one list ("the announced count is covered by the octets
that are left") is unsound as soon as lists nest, because the same octets are offered to every
inner list again: heap Theta(n^2).

   shape      L1..L4 = SEQUENCE OF (SEQUENCE OF (...)) by named types (depth 1..4), SET OF chains,
              the inner list as the member of a SEQUENCE (LM2, LM3) and as a CHOICE alternative (LC2, LC3)
 x element    NULL, SEQUENCE {}, OCTET STRING (SIZE(0)), INTEGER (5..5) (0 bits in UPER, 1 octet in OER),
              BOOLEAN (1 bit in UPER, 1 octet in OER)
 x syntax     OER, UPER, BER (definite, indefinite), XER
 x family     greedy   every innermost count = max(202, units of input BEHIND the count field)
              legal    every innermost list holds exactly 200 elements (the most both guards let through
                       without payment: the linear constant of the unchanged decoders; must decode)
              over     202 elements (above both guards: UPER refuses a batch above 200, OER the 202nd element)
              randq    seeded random innermost counts in 0 .. 2 * behind + 300
              real     what a conforming encoder produces (BER, XER, elements of positive width);
                       BER also `lying`: innermost definite length = own contents + everything behind
 x size       n, 4n, 16n octets (the growth oracle compares peak/n and allocs/n across sizes)

A type is a tree: ("leaf", kind) | ("list", ctor, name, child) | ("mem", name, child) | ("alt", name, child);
every node that needs a name of its own carries one (asn1c still mishandles an anonymous
`X OF` directly inside an `X OF`, a known C10 item the generators avoid)."""
import c15_util as U

# kind: (ASN.1, bytes of the decoded element in memory (upper bound, all its blocks),
#        allocations per element (E: SEQUENCE_decode_oer keeps a second block per value; I: NativeInteger goes through a temporary INTEGER_t),
#        OER octets, UPER bits, BER TLV, XER)
KINDS = {
    "N": ("NULL", 4, 1, b"", "", b"\x05\x00", b"<NULL/>"),
    "E": ("SEQUENCE {}", 80, 2, b"", "", b"\x30\x00", b"<SEQUENCE></SEQUENCE>"),
    "O": ("OCTET STRING (SIZE(0))", 48, 2, b"", "", b"\x04\x00", b"<OCTET_STRING></OCTET_STRING>"),
    "I": ("INTEGER (5..5)", 8, 3, b"\x05", "", b"\x02\x01\x05", b"<INTEGER>5</INTEGER>"),
    "B": ("BOOLEAN", 4, 1, b"\xff", "1", b"\x01\x01\xff", b"<true/>"),
}
HD = 48             # list head (A_SEQUENCE_OF + asn_struct_ctx_t) on LP64
MEMSZ = 72          # SEQUENCE { r <list> }: the list head inline + the member's own context
ALTSZ = 80          # CHOICE { r [0] <list>, z [1] NULL }: present + union + context
P = 24              # pointer-array share of one element at worst (see checks/c15.py)


class NT:
    """one swept type: name, tree, leaf kind"""
    def __init__(self, name, tree, kind, shape, depth):
        self.name, self.tree, self.kind, self.shape, self.depth = name, tree, kind, shape, depth

    def zero(self, syn):
        """is the leaf zero-width in this syntax"""
        k = KINDS[self.kind]
        return (syn == "oer" and k[3] == b"") or (syn == "uper" and k[4] == "")

    def model_str(self):
        """the type for the extracted OER list-of-lists model (plain chains of NULL / BOOLEAN)"""
        if self.shape not in ("L", "S") or self.kind not in ("N", "B"):
            return None
        leaf = {"N": "Z4", "B": "F1.4"}[self.kind]
        return "L(" * self.depth + leaf + ")" * self.depth


def make_types(tier):
    ts, lines = [], []

    def add(name, asn, tree, kind, shape, depth, swept=True):
        lines.append("%s ::= %s" % (name, asn))
        if swept:
            ts.append(NT(name, tree, kind, shape, depth))
        return tree
    for k, kd in KINDS.items():
        tree = ("leaf", k)
        for d in range(1, 5):
            nm = "L%d%s" % (d, k)
            tree = add(nm, "SEQUENCE OF %s" % (kd[0] if d == 1 else "L%d%s" % (d - 1, k)), ("list", "SEQUENCE", nm, tree), k, "L", d)
    for k in ("N", "B"):
        tree = ("leaf", k)
        for d in range(1, 4):
            nm = "S%d%s" % (d, k)
            tree = add(nm, "SET OF %s" % (KINDS[k][0] if d == 1 else "S%d%s" % (d - 1, k)), ("list", "SET", nm, tree), k, "S", d)
    for k in ("N", "E", "B"):
        row = ("list", "SEQUENCE", "L1" + k, ("leaf", k))
        # the inner list as a member of a SEQUENCE
        m1 = add("M1" + k, "SEQUENCE { r L1%s }" % k, ("mem", "M1" + k, row), k, "M", 1, swept=False)
        lm2 = add("LM2" + k, "SEQUENCE OF M1" + k, ("list", "SEQUENCE", "LM2" + k, m1), k, "LM", 2)
        m2 = add("M2" + k, "SEQUENCE { r LM2%s }" % k, ("mem", "M2" + k, lm2), k, "M", 2, swept=False)
        add("LM3" + k, "SEQUENCE OF M2" + k, ("list", "SEQUENCE", "LM3" + k, m2), k, "LM", 3)
        # ... and as a CHOICE alternative
        c1 = add("C1" + k, "CHOICE { r [0] L1%s, z [1] NULL }" % k, ("alt", "C1" + k, row), k, "C", 1, swept=False)
        lc2 = add("LC2" + k, "SEQUENCE OF C1" + k, ("list", "SEQUENCE", "LC2" + k, c1), k, "LC", 2)
        c2 = add("C2" + k, "CHOICE { r [0] LC2%s, z [1] NULL }" % k, ("alt", "C2" + k, lc2), k, "C", 2, swept=False)
        add("LC3" + k, "SEQUENCE OF C2" + k, ("list", "SEQUENCE", "LC3" + k, c2), k, "LC", 3)
    text = "C15N DEFINITIONS IMPLICIT TAGS ::= BEGIN\n" + "\n".join(lines) + "\nEND\n"
    return ts, text


# ---------------------------------------------------------------- the value plan
def innermost(tree):
    return tree[0] == "list" and tree[3][0] == "leaf"


def est(tree, syn, zero):
    """rough size (octets; UPER: bits) of one planned value of `tree` that is not the top"""
    if tree[0] == "leaf":
        k = KINDS[tree[1]]
        return {"oer": len(k[3]), "uper": len(k[4]), "ber": len(k[5]), "xer": len(k[6])}[syn]
    if tree[0] in ("mem", "alt"):
        extra = {"oer": 0 if tree[0] == "mem" else 1, "uper": 0 if tree[0] == "mem" else 1, "ber": 2 if tree[0] == "mem" else 0,
                 "xer": 2 * len(tree[1]) + 12}[syn]
        return extra + est(tree[2], syn, zero)
    hdr = {"oer": 3, "uper": 16, "ber": 4, "xer": 2 * len(tree[2]) + 5}[syn]
    if innermost(tree):
        return hdr + (0 if zero else 2 * est(tree[3], syn, zero))
    return hdr + 3 * est(tree[3], syn, zero)


def plan(tree, syn, zero, budget, top=True):
    """value skeleton: list -> {"kids": [...]} (innermost lists of zero-width elements have no kids: their
    count is a claim made by the family); budget in octets (UPER: bits)"""
    if tree[0] == "leaf":
        return None
    if tree[0] in ("mem", "alt"):
        return plan(tree[2], syn, zero, budget, top)
    child = tree[3]
    if innermost(tree):
        if zero:
            return {"kids": []}
        k = max(0, (budget - 3 * (8 if syn == "uper" else 1)) // max(1, est(child, syn, zero))) if top else 2
        return {"kids": [None] * min(k, 16000)}
    ce = max(1, est(child, syn, zero))
    k = max(1, budget // ce) if top else 3
    return {"kids": [plan(child, syn, zero, ce, False) for _ in range(min(k, 16000))]}


def claim(fam, behind, rng):
    if fam == "legal":
        return 200
    if fam == "over":
        return 202
    if fam == "randq":
        return rng.range(0, 2 * behind + 300)
    return max(202, behind)         # greedy


# ---------------------------------------------------------------- encoders (right to left: a count may depend on what follows it)
def oer_quantity(n):
    b = n.to_bytes(max(1, (n.bit_length() + 7) // 8), "big")
    return bytes([len(b)]) + b


def enc_oer(tree, val, behind, fam, rng, zero):
    if tree[0] == "leaf":
        return KINDS[tree[1]][3]
    if tree[0] == "mem":
        return enc_oer(tree[2], val, behind, fam, rng, zero)
    if tree[0] == "alt":
        return b"\x80" + enc_oer(tree[2], val, behind, fam, rng, zero)
    out, b = [], behind
    for kv in reversed(val["kids"]):
        e = enc_oer(tree[3], kv, b, fam, rng, zero)
        out.append(e)
        b += len(e)
    body = b"".join(reversed(out))
    if innermost(tree) and zero:
        q = claim(fam, behind, rng)
    elif innermost(tree) and fam == "greedy":
        q = len(val["kids"]) + behind           # elements of positive width: the count claims everything that follows
    else:
        q = len(val["kids"])
    return oer_quantity(q) + body


def uper_count(q):
    q = min(q, 16383)
    return format(q, "08b") if q < 128 else format(0x8000 | q, "016b")


def enc_uper(tree, val, behind, fam, rng, zero):
    """bits as a str; `behind` in bits"""
    if tree[0] == "leaf":
        return KINDS[tree[1]][4]
    if tree[0] == "mem":
        return enc_uper(tree[2], val, behind, fam, rng, zero)
    if tree[0] == "alt":
        return "0" + enc_uper(tree[2], val, behind, fam, rng, zero)
    out, b = [], behind
    for kv in reversed(val["kids"]):
        e = enc_uper(tree[3], kv, b, fam, rng, zero)
        out.append(e)
        b += len(e)
    body = "".join(reversed(out))
    if innermost(tree) and zero:
        q = claim(fam, behind, rng)
    elif innermost(tree) and fam == "greedy":
        q = len(val["kids"]) + behind
    else:
        q = len(val["kids"])
    return uper_count(q) + body


def enc_ber(tree, val, behind, fam, indef, tag=None):
    if tree[0] == "leaf":
        return KINDS[tree[1]][5]
    if tree[0] == "mem":
        body = enc_ber(tree[2], val, behind + (2 if indef else 0), fam, indef)
        t = tag if tag is not None else 0x30
        return bytes([t, 0x80]) + body + b"\x00\x00" if indef else bytes([t]) + U.ber_len(len(body)) + body
    if tree[0] == "alt":
        return enc_ber(tree[2], val, behind, fam, indef, tag=0xA0)         # r [0] IMPLICIT <list>
    t = tag if tag is not None else (0x31 if tree[1] == "SET" else 0x30)
    out, b = [], behind + (2 if indef else 0)
    for kv in reversed(val["kids"]):
        e = enc_ber(tree[3], kv, b, fam, indef)
        out.append(e)
        b += len(e)
    body = b"".join(reversed(out))
    if indef:
        return bytes([t, 0x80]) + body + b"\x00\x00"
    ln = len(body) + (behind if (fam == "lying" and innermost(tree)) else 0)
    return bytes([t]) + U.ber_len(ln) + body


def enc_xer(tree, val, name=None):
    if tree[0] == "leaf":
        return KINDS[tree[1]][6]
    if tree[0] == "mem":
        nm = (name or tree[1]).encode()
        return b"<" + nm + b">" + enc_xer(tree[2], val, "r") + b"</" + nm + b">"
    if tree[0] == "alt":            # a CHOICE as the element of a list: the alternative's element, no wrapper (as asn1c writes it)
        return enc_xer(tree[2], val, "r")
    nm = (name or tree[2]).encode()
    return b"<" + nm + b">" + b"".join(enc_xer(tree[3], kv) for kv in val["kids"]) + b"</" + nm + b">"


FAMS = {"oer": ("greedy", "legal", "over", "randq"), "uper": ("greedy", "legal", "over", "randq"),
        "ber": ("real", "lying", "indef"), "xer": ("real",)}
GROWTH_FAMS = ("greedy", "legal", "over", "real", "lying", "indef")      # scale-invariant: the outcome does not depend on n


def sizes(tier):
    return (192, 768, 3072) if tier == "quick" else (192, 768, 3072, 6144)


def cases(ts, rng, tier):
    """(NT, syntax, family, target n, bytes, expect) — expect = "valid" when the input is what a conforming
    encoder writes and no guard is entitled to refuse it"""
    out = []
    for t in ts:
        for syn in ("oer", "uper", "ber", "xer"):
            if syn == "xer" and t.kind in ("O", "I"):
                continue
            zero = t.zero(syn)
            for fam in FAMS[syn]:
                if fam in ("legal", "over", "randq") and not zero:
                    continue
                if fam == "randq" and t.depth > 3:
                    continue
                for n in sizes(tier):
                    if syn in ("ber", "xer") and n > 3072:
                        continue
                    budget = n * 8 if syn == "uper" else n
                    val = plan(t.tree, syn, zero, budget)
                    if syn == "oer":
                        data = enc_oer(t.tree, val, 0, fam, rng, zero)
                    elif syn == "uper":
                        data = U.bits_to_bytes(enc_uper(t.tree, val, 0, fam, rng, zero)) or b"\x00"
                    elif syn == "ber":
                        data = enc_ber(t.tree, val, 0, fam, fam == "indef")
                    else:
                        data = enc_xer(t.tree, val)
                    exp = "valid" if fam in ("legal", "real", "indef") else None
                    if syn == "uper" and zero and t.depth == 1:
                        exp = None      # the whole value is the count field
                    out.append((t, syn, fam, n, data, exp))
    return out


# ---------------------------------------------------------------- the bound
def bound(t, syn):
    """(c, K, ca, Ka): peak <= c*n + K bytes, allocations <= ca*n + Ka, for n input octets.
    What one octet of input can buy at most, read off the decoders' guards (coq/Rt/HeapOer.v proves the OER row):
      OER   a list costs >= 1 octet (`00`), a non-empty one >= 2; a list of zero-width elements holds <= 202 of them
      UPER  an unconstrained count costs >= 8 bits (<= 127 elements) or 16 bits; zero-width: <= 200 per count field
            (the guard refuses the first zero-width element of a batch above 200)
      BER   every value costs >= 2 octets;  XER  every value costs >= 7 octets"""
    esz, ea = KINDS[t.kind][1], KINDS[t.kind][2]
    wrap = max(HD, MEMSZ, ALTSZ) + P + 8
    if syn in ("oer", "uper"):
        if t.zero(syn):
            per = 127 if syn == "uper" else 101
            c = per * (esz + P) + t.depth * wrap
            ca = per * (ea + 1) + t.depth * 4
        else:
            w = 8 if syn == "uper" else 1            # elements per octet
            c = w * (esz + P + 8) + t.depth * wrap
            ca = w * (ea + 1) + t.depth * 4
        K = 202 * (esz + P) + 4096
        Ka = 202 * (ea + 1) + 64
    else:
        c, K = wrap // 2 + esz + P, 4096
        ca, Ka = 4 + ea, 64
    return c, K, ca, Ka
