"""c10_util — corpus, pipeline and translator glue of check C10.

Corpus: valid modules from lib/modgen.Gen and lib/widegen.WGen, hand-made modules
over the constructs those generators avoid on purpose, and modules with one
injected semantic error.  Pipeline per (module, option set):
  (a) asn1c (built from vlib.REPO, run WITHOUT -R so that it copies the skeletons
      and writes converter-example.mk): must terminate by exit; rc != 0 => a
      diagnostic on stderr;
  (b) rc == 0: `make -f converter-example.mk` with strict C99 flags (static
      archive + converter, exactly the emitted recipe), every emitted header
      re-read as C++ (g++ -fsyntax-only);
  (c) harness/dumpdescr.c linked against the emitted archive -> descriptor table
      as Gallina terms -> Gen_Descr_<n>.v -> coqc (obligation wf_descr_all = true).
Round 2: a module may consist of several input files (mod["files"], command-line order); fileset_oracle() evaluates the
emitted file set, site_types() reads the specialization index of every instantiation site out of the generated headers.
"""
import os, re, subprocess, shutil, json, hashlib
from concurrent.futures import ThreadPoolExecutor
from vlib import *
import modgen, widegen
import c10_regions
import c10_refs
import c10_partial, c10_strlit
import c10_derived

STRICT = "-std=c99 -Wall -Werror=implicit-function-declaration -Werror=incompatible-pointer-types"
ALL_OPTS = ["-fcompound-names", "-fwide-types", "-findirect-choice", "-fno-constraints", "-no-gen-PER", "-no-gen-OER", "-fincludes-quoted"]
QUICK_OPTSETS = [(), ("-fcompound-names",), ("-fwide-types", "-findirect-choice", "-fno-constraints"),
                 ("-fcompound-names", "-no-gen-PER", "-no-gen-OER", "-fincludes-quoted")]


def all_optsets():
    out = []
    for mask in range(1 << len(ALL_OPTS)):
        out.append(tuple(o for i, o in enumerate(ALL_OPTS) if mask >> i & 1))
    return out


# ------------------------------------------------------------------ corpus

def M(name, body, tagging="", **kw):
    d = {"name": name, "text": "%s DEFINITIONS %s ::= BEGIN\n%s\nEND\n" % (name, (tagging + " TAGS") if tagging else "", body),
         "origin": "special", "expect": "valid"}
    d.update(kw)
    return d


LONG = "a" + "bcdefghij" * 40          # 361 characters


def special_modules():
    """valid modules over the constructs lib/modgen.py avoids on purpose"""
    ms = [
        M("SpOfOfSize", "  T ::= SEQUENCE OF SEQUENCE (SIZE(1..2)) OF INTEGER"),
        M("SpOfOf", "  T ::= SEQUENCE OF SET OF BOOLEAN"),
        M("SpOfOfOf", "  T ::= SEQUENCE OF SEQUENCE OF SEQUENCE OF INTEGER (0..7)"),
        M("SpOfOfNamed", "  T ::= SEQUENCE OF inner SEQUENCE OF INTEGER (0..7)\n  U ::= SEQUENCE { a T, b SET OF x SET (SIZE(2)) OF BOOLEAN }"),
        M("SpOfOfStruct", "  T ::= SEQUENCE OF SEQUENCE OF SEQUENCE { a INTEGER }"),
        M("SpOfStructOfStruct", "  T ::= SET OF SEQUENCE { a SEQUENCE OF CHOICE { b INTEGER, c NULL } }"),
        M("SpOfUnsTop", "  T ::= SET OF INTEGER (0..4294967295)"),
        M("SpOfUnsNested", "  T ::= SEQUENCE { a SET OF INTEGER (0..MAX), b BOOLEAN }"),
        M("SpOfUnsNested2", "  T ::= CHOICE { a [0] SEQUENCE OF INTEGER (0..4294967295), b [1] SEQUENCE { c SEQUENCE OF INTEGER (5..MAX) } }"),
        M("SpOfEnum", "  T ::= SEQUENCE { a SEQUENCE OF ENUMERATED { x, y, z }, b SET OF SEQUENCE { c INTEGER } }"),
        M("SpNestedAnon", "  T ::= SEQUENCE { a SEQUENCE { b SET OF SEQUENCE { c CHOICE { d INTEGER, e SEQUENCE OF BOOLEAN } } }, f SET { g [0] NULL, h [1] CHOICE { i NULL, j BOOLEAN } } }"),
        M("SpRevRange", "  A ::= INTEGER (10..1)"),
        M("SpRevSize", "  A ::= OCTET STRING (SIZE(5..2))"),
        M("SpLeftRec1", "  T ::= CHOICE { c T }"),
        M("SpLeftRec2", "  T ::= CHOICE { c T, n NULL }"),
        M("SpLeftRec3", "  A ::= CHOICE { b B, n NULL }\n  B ::= CHOICE { a A, m BOOLEAN }"),
        M("SpParam", "  P {T} ::= SEQUENCE { a T, b INTEGER }\n  U ::= P {BOOLEAN}\n  V ::= SEQUENCE { p P {INTEGER (0..7)}, q P {OCTET STRING} }"),
        M("SpParamNested", "  P {T} ::= SEQUENCE { a T }\n  U ::= P {BOOLEAN}\n  W ::= P {U}"),
        M("SpLongType", "  T%s ::= SEQUENCE { a INTEGER }" % LONG[:120]),
        M("SpLongMember", "  T ::= SEQUENCE { %s INTEGER, b CHOICE { %sx NULL, c BOOLEAN } }" % (LONG, LONG)),
        M("SpVeryLongType", "  T%s ::= INTEGER" % LONG),
        M("SpKeywords", "  T ::= SEQUENCE { int INTEGER, register BOOLEAN, long NULL, struct INTEGER OPTIONAL, "
                        "union CHOICE { char NULL, short BOOLEAN }, default ENUMERATED { const, volatile, goto }, sizeof SEQUENCE OF INTEGER }"),
        M("SpCxxKeywords", "  T ::= SEQUENCE { class INTEGER, new BOOLEAN, delete NULL, template INTEGER OPTIONAL, "
                           "this CHOICE { private NULL, public BOOLEAN }, operator ENUMERATED { virtual, friend, try }, namespace SEQUENCE OF INTEGER }"),
        M("SpFieldNames", "  T ::= CHOICE { present INTEGER, choice BOOLEAN }\n  U ::= SEQUENCE { list SEQUENCE OF INTEGER, count INTEGER, size INTEGER, free NULL }\n"
                          "  V ::= SET OF SEQUENCE { array INTEGER, errno INTEGER, stdin BOOLEAN, main NULL }"),
        M("SpMangle1", "  T ::= SEQUENCE { a-b INTEGER, a-B BOOLEAN, a-b-c NULL }\n  A-b ::= INTEGER\n  A-B ::= BOOLEAN"),
        M("SpMangle2", "  OCTET-STRING ::= SEQUENCE { a INTEGER }"),
        M("SpMangle3", "  T-a ::= SEQUENCE { b INTEGER }\n  T ::= SEQUENCE { a SEQUENCE { b BOOLEAN } }\n  U ::= SEQUENCE { x T-a, y T }"),
        M("SpSameInner", "  T ::= SEQUENCE { a SEQUENCE { x INTEGER } }\n  U ::= SEQUENCE { a SEQUENCE { y BOOLEAN } }\n  V ::= SEQUENCE { t T, u U }"),
        M("SpSameEnum", "  T ::= ENUMERATED { red, green }\n  U ::= ENUMERATED { red, blue }\n  V ::= SEQUENCE { t T, u U, w ENUMERATED { red } }"),
        M("SpEmptySeq", "  T ::= SEQUENCE { }\n  U ::= SEQUENCE { ... }\n  W ::= SEQUENCE { a T, b U OPTIONAL, c [0] T }"),
        M("SpEmptySet", "  V ::= SET { }"),
        M("SpEmptySetExt", "  V ::= SET { ... }"),
        M("SpNoTypes", ""),
        M("SpOnlyValues", "  v INTEGER ::= 5\n  b BOOLEAN ::= TRUE"),
        M("SpExt2", "  T ::= SEQUENCE { a INTEGER OPTIONAL, b BOOLEAN, ..., c INTEGER (0..7), d U OPTIONAL, ..., e NULL OPTIONAL }\n"
                    "  U ::= CHOICE { x [5] INTEGER, y [1] BOOLEAN, ..., z [3] NULL }\n  V ::= SET { a [2] INTEGER, ..., b [0] BOOLEAN OPTIONAL }", "AUTOMATIC"),
        M("SpExtGroups", "  T ::= SEQUENCE { a INTEGER, ..., [[ b BOOLEAN, c INTEGER OPTIONAL ]], [[ d NULL ]], ... , e BOOLEAN }", "AUTOMATIC"),
        M("SpChoiceExtOnly", "  T ::= CHOICE { ..., a INTEGER }\n  U ::= SEQUENCE { ..., a INTEGER }", "AUTOMATIC"),
        M("SpDeepTags", "  T ::= [1] EXPLICIT [2] IMPLICIT [3] EXPLICIT INTEGER\n  U ::= [APPLICATION 5] IMPLICIT T\n  V ::= [PRIVATE 9] EXPLICIT U\n"
                        "  W ::= SEQUENCE { a [0] IMPLICIT V, b [1] EXPLICIT V OPTIONAL, c V }"),
        M("SpDeepTagsRef", "  T0 ::= [3] EXPLICIT INTEGER\n  T1 ::= [2] IMPLICIT T0\n  T ::= [1] EXPLICIT T1\n  U ::= [APPLICATION 5] IMPLICIT T\n  V ::= [PRIVATE 9] EXPLICIT U\n"
                           "  W ::= SEQUENCE { a [0] IMPLICIT V, b [1] EXPLICIT V OPTIONAL, c V }"),
        M("SpBigTags", "  T ::= SEQUENCE { a [1073741823] INTEGER, b [536870911] BOOLEAN, c [APPLICATION 1073741823] NULL }\n  U ::= CHOICE { a [4294967295] INTEGER, b [0] NULL }"),
        M("SpBigInts", "  A ::= INTEGER (0..18446744073709551615)\n  B ::= INTEGER (-9223372036854775808..9223372036854775807)\n"
                       "  D ::= SEQUENCE { a A, b B, d INTEGER (-1..18446744073709551615) }"),
        M("SpHugeInt", "  C ::= INTEGER (0..340282366920938463463374607431768211455)"),
        M("SpBigSize", "  A ::= OCTET STRING (SIZE(0..4294967296))\n  B ::= SEQUENCE (SIZE(65535..65537)) OF BOOLEAN\n  C ::= BIT STRING (SIZE(18446744073709551616))"),
        M("SpEnums", "  E ::= ENUMERATED { a(-2147483648), b(2147483647), c(0), ..., d(4294967296) }\n  F ::= INTEGER { one(1), two(2), minus(-1) } (-1..2)\n"
                     "  G ::= BIT STRING { first(0), last(63) } (SIZE(64))\n  H ::= ENUMERATED { zz, z, a, aa, b-c, b }"),
        M("SpRecursion", "  T ::= SEQUENCE { kids SEQUENCE OF T, next T OPTIONAL }\n  A ::= SEQUENCE { b B OPTIONAL }\n  B ::= SET OF A\n  C ::= CHOICE { c [0] C, n NULL }"),
        M("SpUntaggedChoice", "  C ::= CHOICE { i INTEGER, b BOOLEAN, d CHOICE { n NULL, o OCTET STRING } }\n  S ::= SEQUENCE { a C OPTIONAL, e ENUMERATED { x }, c C }\n"
                              "  T ::= SET { a C, r REAL }\n  R ::= C\n  Q ::= SEQUENCE { r R, s [0] R }"),
        M("SpManyOptional", "  T ::= SEQUENCE { %s, z BOOLEAN }" % ", ".join("o%d [%d] INTEGER OPTIONAL" % (i, i) for i in range(12))),
        M("SpDefaults", "  T ::= SEQUENCE { a INTEGER DEFAULT 5, b BOOLEAN DEFAULT TRUE, c ENUMERATED { x, y } DEFAULT y, d INTEGER (0..7) DEFAULT three, e OCTET STRING DEFAULT '0102'H, "
                        "f IA5String DEFAULT \"hi\", g T2 DEFAULT { a 1 }, h REAL DEFAULT 0 }\n  T2 ::= SEQUENCE { a INTEGER }\n  three INTEGER ::= 3", "AUTOMATIC"),
        M("SpNegDefault", "  T ::= SEQUENCE { a INTEGER DEFAULT -5, b INTEGER (-10..10) DEFAULT -1, c BOOLEAN }", "AUTOMATIC"),
        M("SpManyMembers", "  T ::= SEQUENCE { %s }\n  U ::= SET { %s }\n  V ::= CHOICE { %s }\n  W ::= ENUMERATED { %s }" % (
            ", ".join("o%d INTEGER OPTIONAL" % i for i in range(70)), ", ".join("o%d INTEGER%s" % (i, " OPTIONAL" if i % 3 == 0 else "") for i in range(40)),
            ", ".join("o%d NULL" % i for i in range(300)), ", ".join("e%d" % i for i in range(300))), "AUTOMATIC"),
        M("SpRefChains", "  A ::= B\n  B ::= INTEGER (0..4294967295)\n  C ::= A (0..100)\n  D ::= SEQUENCE { a A, c C OPTIONAL, l SEQUENCE OF A }\n  E ::= ENUMERATED { a, b }\n  F ::= E\n  G ::= [3] F\n"
                        "  S ::= SET { a [0] INTEGER, b [1] BOOLEAN OPTIONAL }\n  T ::= S\n  U ::= [APPLICATION 3] S\n  L ::= SEQUENCE (SIZE(1..4)) OF INTEGER (0..7)\n  M ::= L\n  N ::= M (SIZE(2))\n"
                        "  V ::= SEQUENCE { f F, g G, l SET OF F, t T, u U, m M, n N }"),
        M("SpUnions", "  A ::= INTEGER (MIN..-1 | 1..MAX)\n  B ::= OCTET STRING (SIZE(1 | 3..5))\n  C ::= INTEGER (0..MAX, ...)\n  D ::= INTEGER (MIN..MAX)\n  E ::= INTEGER (1 | 3 | 5, ..., 7)\n"
                      "  F ::= SEQUENCE { a A, b B, c C, d D, e E }\n  U ::= INTEGER\n  T ::= OCTET STRING (CONTAINING U)"),
        M("SpStrDefaultComment", "  T ::= SEQUENCE { a IA5String DEFAULT \"a*/b\", z BOOLEAN }", "AUTOMATIC"),
        M("SpStrDefaultCLiteral", "  T ::= SEQUENCE { a IA5String DEFAULT \"tail\\\", b IA5String DEFAULT \"a\\b\", c IA5String DEFAULT \"what??/\", z BOOLEAN }", "AUTOMATIC"),
        M("SpStrDefaults", "  T ::= SEQUENCE { a IA5String DEFAULT \"back\\\\slash\", b IA5String DEFAULT \"quote\"\"inside\", c UTF8String DEFAULT \"line1 %s %d\", "
                          "d BIT STRING DEFAULT '0101'B, e OCTET STRING DEFAULT 'FF'H, f REAL DEFAULT 1.5, g SEQUENCE OF INTEGER DEFAULT { 1, 2 }, z BOOLEAN }", "AUTOMATIC"),
        M("SpEnumNegDefault", "  T ::= SEQUENCE { a ENUMERATED { x(-1), y(0) } DEFAULT x, z BOOLEAN }", "AUTOMATIC"),
        M("SpComponentsOf", "  A ::= SEQUENCE { a INTEGER, b BOOLEAN }\n  B ::= SEQUENCE { COMPONENTS OF A, c NULL }", "AUTOMATIC"),
        M("SpWithComponents", "  A ::= SEQUENCE { a INTEGER OPTIONAL, b BOOLEAN OPTIONAL }\n  B ::= A (WITH COMPONENTS { a PRESENT, b ABSENT })\n  C ::= A (WITH COMPONENTS { ..., a (0..5) })"),
        M("SpStrings", "  A ::= IA5String (SIZE(1..5)) (FROM(\"a\"..\"z\"))\n  B ::= UTF8String (SIZE(0..MAX))\n  C ::= BMPString (FROM(\"A\"..\"Z\"))\n  D ::= UniversalString (SIZE(2))\n"
                       "  E ::= NumericString (FROM(\"0\"..\"9\" | \" \"))\n  F ::= SEQUENCE { a A, b B OPTIONAL, c C, d D, e E, g GeneralString, t TeletexString, o ObjectDescriptor }"),
        M("SpAny", "  T ::= SEQUENCE { a INTEGER, b ANY OPTIONAL }\n  U ::= SEQUENCE { a ANY DEFINED BY t, t OBJECT IDENTIFIER }"),
        M("SpExtRef", "  T ::= SEQUENCE { a SpExtRef.U, b U }\n  U ::= INTEGER"),
        M("SpSelfNamedMember", "  T ::= SEQUENCE { t T OPTIONAL, u U }\n  U ::= SEQUENCE { t T OPTIONAL }\n  V ::= SEQUENCE { v SEQUENCE { v SEQUENCE { v INTEGER } } }", "AUTOMATIC"),
        M("SpTypeNamesLikeSkeleton", "  Constr-TYPE ::= INTEGER\n  Asn-application ::= BOOLEAN\n  Per-support ::= SEQUENCE { a Constr-TYPE }"),
    ]
    for m in ms:      # modules whose known defect shows under particular options only
        if m["name"] in ("SpOfOfStruct", "SpOfStructOfStruct", "SpSameInner", "SpExt2", "SpNegDefault", "SpOfOf", "SpNestedAnon"):
            m["all_optsets"] = True
    return ms


def invalid_modules():
    """one semantic error each: asn1c must print a diagnostic and exit non-zero, never die"""
    ms = [
        M("ErUndefRef", "  T ::= SEQUENCE { a Missing }"),
        M("ErUndefRef2", "  T ::= SET OF Missing"),
        M("ErUndefValue", "  T ::= SEQUENCE { a INTEGER DEFAULT nothing }"),
        M("ErDupMember", "  T ::= SEQUENCE { a INTEGER, a BOOLEAN }"),
        M("ErDupAlt", "  T ::= CHOICE { a INTEGER, a BOOLEAN }"),
        M("ErDupType", "  T ::= INTEGER\n  T ::= BOOLEAN"),
        M("ErDupEnum", "  T ::= ENUMERATED { a, b, a }"),
        M("ErDupEnumVal", "  T ::= ENUMERATED { a(1), b(1) }"),
        M("ErTagClashSeq", "  T ::= SEQUENCE { a INTEGER OPTIONAL, b INTEGER }"),
        M("ErTagClashChoice", "  T ::= CHOICE { a [1] INTEGER, b [1] BOOLEAN }"),
        M("ErTagClashSet", "  T ::= SET { a INTEGER, b INTEGER }"),
        M("ErTagClashNested", "  C ::= CHOICE { x INTEGER, y BOOLEAN }\n  T ::= SET { a C, b BOOLEAN }"),
        M("ErSizeOnInt", "  T ::= INTEGER (SIZE(1..2))"),
        M("ErFromOnInt", "  T ::= INTEGER (FROM(\"a\"..\"z\"))"),
        M("ErRangeOnBool", "  T ::= BOOLEAN (0..1)"),
        M("ErRangeOnSeq", "  T ::= SEQUENCE { a INTEGER } (0..1)"),
        M("ErStringOnInt", "  T ::= INTEGER (\"abc\")"),
        M("ErDefaultRange", "  T ::= SEQUENCE { a INTEGER (0..7) DEFAULT 9 }"),
        M("ErDefaultType", "  T ::= SEQUENCE { a INTEGER DEFAULT TRUE }"),
        M("ErDefaultEnum", "  T ::= SEQUENCE { a ENUMERATED { x, y } DEFAULT z }"),
        M("ErImplicitChoice", "  T ::= [1] IMPLICIT CHOICE { a INTEGER, b BOOLEAN }"),
        M("ErCycle", "  A ::= B\n  B ::= A"),
        M("ErCycleMember", "  A ::= B\n  B ::= A\n  T ::= SEQUENCE { a A, i INTEGER }"),
        M("ErCycleNoOpt", "  T ::= SEQUENCE { a T }"),
        M("ErParamMissing", "  P {T} ::= SEQUENCE { a T }\n  U ::= P"),
        M("ErParamExtra", "  T ::= INTEGER\n  U ::= T {BOOLEAN}"),
        M("ErValueRange", "  v INTEGER (0..7) ::= 9\n  T ::= INTEGER (0..v)"),
        M("ErNamedNumDup", "  T ::= INTEGER { a(1), b(1) }"),
        M("ErImportMissing", "  IMPORTS T FROM Nowhere;\n  U ::= SEQUENCE { a T }"),
        M("ErEmptyChoice", "  T ::= CHOICE { }"),
    ]
    for m in ms:
        m["origin"] = "invalid"
        m["expect"] = "invalid"
    return ms


def inject(mod, rng, k):
    """one injected semantic error into a modgen module (AST level); None if the module has no place for it"""
    import copy
    defs = copy.deepcopy(mod["defs"])
    places = []

    def walk(t):
        if t["k"] in ("seq", "choice"):
            places.append(t)
            for _, mt, _ in t["ms"]:
                walk(mt)
        elif t["k"] in ("seqof", "setof"):
            walk(t["el"])
    for _, t in defs:
        walk(t)
    kind = ["undef", "dupid", "clash"][k % 3]
    if kind == "undef":
        if places:
            t = rng.choice(places)
            i = rng.below(len(t["ms"]))
            n, mt, o = t["ms"][i]
            t["ms"][i] = (n, {"k": "ref", "ref": "Undefined%d" % rng.below(100), "tag": mt.get("tag")}, o)
        else:
            defs.append(("T99", {"k": "ref", "ref": "Undefined", "tag": None}))
    elif kind == "dupid":
        cands = [t for t in places if len(t["ms"]) >= 2]
        if not cands:
            return None
        t = rng.choice(cands)
        i = rng.range(1, len(t["ms"]) - 1)
        t["ms"][i] = (t["ms"][0][0],) + tuple(t["ms"][i][1:])
    else:
        cands = [t for t in places if len(t["ms"]) >= 2 and t["k"] == "choice"]
        if not cands or mod["default"] == "AUTOMATIC":
            return None
        t = rng.choice(cands)
        for j in (0, 1):
            n, mt, o = t["ms"][j]
            mt = dict(mt, tag=("CONTEXT", 7, "EXPLICIT"))
            t["ms"][j] = (n, mt, o)
    name = mod["name"] + "E" + kind
    return {"name": name, "text": modgen.module_text(name, mod["default"], defs), "origin": "inject:" + kind, "expect": "invalid",
            "defs": defs, "default": mod["default"]}


def corpus(rng, tier):
    ngen, nwide, ninj = (8, 8, 6) if tier == "quick" else (40, 40, 30)
    mods = []
    g = modgen.Gen(rng)
    gens = []
    for i in range(ngen):
        m = g.module("G%d" % i, rng.range(2, 5))
        m["origin"], m["expect"] = "modgen", "valid"
        gens.append(m)
    mods += gens
    w = widegen.WGen(rng)
    for i in range(nwide):
        m = w.module("W%d" % i, rng.range(2, 5))
        m["origin"], m["expect"] = "widegen", "valid"
        mods.append(m)
    mods += special_modules()
    mods += c10_regions.regions(rng, tier)
    mods += c10_refs.ref_modules(rng, tier)      # round 3: type references as a swept dimension
    mods += c10_partial.partial_modules(rng, tier)    # round 4: exactly one emission unit fails in the emitter
    mods += c10_strlit.strlit_modules(rng, tier)      # round 4: octet content of string literals
    mods += c10_derived.derived_modules(rng, tier)    # round 5: a type NAME that maps onto a derived C name of another type
    mods += invalid_modules()
    k = 0
    for i in range(ninj * 3):
        if k >= ninj:
            break
        m = inject(gens[i % len(gens)], rng, i)
        if m and all(m["name"] != x["name"] for x in mods):
            mods.append(m)
            k += 1
    return mods


# ------------------------------------------------------------------ recognisers on the module text
# (predicates of the known findings: as narrow as the root cause, evaluated on the ASN.1 text)

def strip_comments(text):
    return re.sub(r"--.*?(--|\n)", "\n", text)


OF_IN_OF = re.compile(r"\bOF\s+(?:\[[^\]]*\]\s*(?:IMPLICIT\s+|EXPLICIT\s+)?)?(SEQUENCE|SET)\s*(\(\s*SIZE\b[^)]*\)\s*\))?\s*OF\b")


def has_anon_of_in_of(text):
    return bool(OF_IN_OF.search(strip_comments(text)))


def has_anon_of_in_of_with_size(text):
    m = OF_IN_OF.search(strip_comments(text))
    return bool(m and any(x.group(2) for x in OF_IN_OF.finditer(strip_comments(text))))


def int_constraints_after_of(text):
    """(lo, hi) texts of `OF INTEGER (lo..hi)` element constraints"""
    return re.findall(r"\bOF\s+(?:\w+\s+)?INTEGER\s*\(\s*(-?\w+)\s*\.\.\s*(-?\w+)", strip_comments(text))


def has_of_unsigned_integer(text):
    """OF element INTEGER whose constraint makes asn1c choose the unsigned representation:
    lower bound >= 0 and upper bound MAX or in [2^31, 2^32)"""
    for lo, hi in int_constraints_after_of(text):
        try:
            l = int(lo)
        except ValueError:
            continue
        if l < 0:
            continue
        if hi == "MAX":
            return True
        try:
            h = int(hi)
        except ValueError:
            continue
        if 2**31 <= h < 2**32:
            return True
    return False


def parse_defs(text):
    """[(name, rhs text)] of the type assignments of a single-module text (good enough for the hand-made modules)"""
    body = strip_comments(text)
    m = re.search(r"\bBEGIN\b(.*)\bEND\b", body, flags=re.S)
    if not m:
        return []
    body = m.group(1)
    parts = re.split(r"(?m)^\s*([A-Z][\w-]*)\s*(?:\{[^}]*\}\s*)?::=", body)
    out = []
    for i in range(1, len(parts) - 1, 2):
        out.append((parts[i], parts[i + 1].strip()))
    return out


def left_recursive_choice(text):
    """a CHOICE reaches itself through untagged alternatives that are plain references"""
    defs = dict(parse_defs(text))
    edges = {}
    for n, rhs in defs.items():
        m = re.match(r"CHOICE\s*\{(.*)\}\s*$", rhs, flags=re.S)
        if m:
            alts = [a.strip() for a in m.group(1).split(",")]
            edges[n] = [a.split()[1] for a in alts if len(a.split()) == 2 and a.split()[1] in defs]
        else:
            r = rhs.split()
            edges[n] = [r[0]] if len(r) == 1 and r[0] in defs else []
    for s in edges:
        seen, todo = set(), list(edges[s])
        while todo:
            x = todo.pop()
            if x == s:
                return True
            if x not in seen:
                seen.add(x)
                todo += edges.get(x, [])
    return False


C_KEYWORDS = set("auto break case char const continue default do double else enum extern float for goto if inline int long register restrict return "
                 "short signed sizeof static struct switch typedef union unsigned void volatile while".split())
CXX_KEYWORDS = set("class new delete template this private public protected operator virtual friend try catch throw namespace using typename "
                   "bool true false explicit export mutable and or not xor typeid".split())


def identifiers(text):
    return set(re.findall(r"(?<![\w-])([a-z][\w-]*)\s+(?:\[|[A-Z])", strip_comments(text))) | \
        set(re.findall(r"[{,]\s*([a-z][\w-]*)\s*(?:\(|,|\})", strip_comments(text)))


# ------------------------------------------------------------------ pipeline

def run(cmd, cwd, timeout=300, env=None):
    try:
        p = subprocess.run(cmd, cwd=cwd, stdout=subprocess.PIPE, stderr=subprocess.PIPE, text=True, errors="replace", timeout=timeout, env=env,
                           shell=isinstance(cmd, str))
        return p.returncode, p.stdout, p.stderr
    except subprocess.TimeoutExpired as e:
        return 124, "", "TIMEOUT after %ss" % timeout


def job_dir(root, mod, oi):
    return os.path.join(root, "%s.%d" % (mod["name"], oi))


def run_asn1c(asn1c, skel, mod, opts, d):
    os.makedirs(d, exist_ok=True)
    files = mod.get("files") or [(mod["name"] + ".asn1", mod["text"])]
    for fn, text in files:              # several input files: named on the command line in the order of the list
        if mod.get("latin1"):           # round 4: a text over U+0000..U+00FF, one octet per character
            open(os.path.join(d, fn), "wb").write(text.encode("latin-1"))
        else:
            open(os.path.join(d, fn), "w").write(text)
    rc, out, err = run([asn1c, "-S", skel, "-pdu=all"] + list(opts) + [fn for fn, _ in files], d, timeout=120)
    return rc, out, err


# Object cache for the skeleton copies.  asn1c copies skeletons/*.c|h verbatim next to the generated files and the
# emitted makefile compiles all of them per module (~60 files, 4/5 of the work).  A skeleton source includes skeleton
# headers only, so its object depends on (file bytes, flags) alone: it is compiled once per flag variant, in a
# directory holding only the skeleton files, and copied next to a module's sources before the emitted makefile runs
# (make then finds it up to date).  Used for a module only after checking that EVERY file of the module directory
# that has a skeleton's name is byte-identical to that skeleton; otherwise the module is built from scratch.
import threading
_cache_lock = threading.Lock()
_cache = {}
_skel_bytes = {}


def skel_objects(skel, variant):
    with _cache_lock:
        if variant in _cache:
            return _cache[variant]
        d = os.path.join(scratch(), "skelobj_%d" % len(_cache))
        os.makedirs(d, exist_ok=True)
        srcs = sorted(f for f in os.listdir(skel) if f.endswith(".c") and f != "converter-example.c")
        mk = ["CFLAGS=%s %s -I%s" % (STRICT, " ".join(variant), skel), "all: " + " ".join(x[:-2] + ".o" for x in srcs),
              "%%.o: %s/%%.c" % skel, "\t-@$(CC) $(CFLAGS) -c $< -o $@ 2>/dev/null"]
        open(os.path.join(d, "Makefile"), "w").write("\n".join(mk) + "\n")
        sh("make -k -j%d all" % NCPU, cwd=d, timeout=900)
        objs = {f[:-2] + ".c": os.path.join(d, f) for f in os.listdir(d) if f.endswith(".o")}   # a file that does not compile is simply not cached
        if not _skel_bytes:
            for f in os.listdir(skel):
                p = os.path.join(skel, f)
                if os.path.isfile(p):
                    _skel_bytes[f] = open(p, "rb").read()
        _cache[variant] = objs
        return objs


def seed_objects(job, d):
    objs = skel_objects(job["skel"], tuple(job["mod_cflags"]))
    names = os.listdir(d)
    for f in names:
        if f in _skel_bytes and f != "converter-example.c" and open(os.path.join(d, f), "rb").read() != _skel_bytes[f]:
            return 0           # a generated file shadows a skeleton file: no reuse for this module
    n = 0
    for f in names:
        if f in objs and f in _skel_bytes:
            shutil.copyfile(objs[f], os.path.join(d, f[:-2] + ".o"))
            n += 1
    return n


SYS_HEADERS = {"stdio.h", "stdlib.h", "string.h", "stddef.h", "stdint.h", "inttypes.h", "errno.h", "assert.h", "limits.h", "stdarg.h", "time.h", "math.h",
               "float.h", "ctype.h", "sys/types.h", "netinet/in.h", "unistd.h", "sysexits.h", "sys/time.h", "windows.h", "malloc.h", "alloca.h"}


def fileset_oracle(d, stderr, skel=None):
    """the property clause "the emitted sources together with the skeleton files compile and link", evaluated on the file
    set itself (independent of any model and of the C compiler's patience): nothing is written twice, every file asn1c
    says it compiled exists, every #include of an emitted file names a file of the directory (or a system header), every
    source the emitted makefile lists exists.  -> (stems in writing order, [problem strings])"""
    written = re.findall(r"^Compiled (\S+)$", stderr, flags=re.M)
    stems = [w[:-2] for w in written if w.endswith(".c")]
    probs = []
    seen = set()
    for w in written:
        if w in seen:
            probs.append("written-twice:%s" % w)
        seen.add(w)
        if not os.path.exists(os.path.join(d, w)):
            probs.append("missing-output:%s" % w)
    have = set(os.listdir(d))
    if skel:
        for w in sorted(seen):
            if os.path.exists(os.path.join(skel, w)):
                probs.append("shadows-skeleton:%s" % w)          # a generated file took the name of a skeleton file
    for w in sorted(seen | {"pdu_collection.c"}):
        path = os.path.join(d, w)
        if not os.path.exists(path):
            continue
        for inc in re.findall(r'^\s*#\s*include\s*[<"]([^>"]+)[>"]', open(path, errors="replace").read(), flags=re.M):
            if inc not in have and inc not in SYS_HEADERS:
                probs.append("missing-include:%s includes %s" % (w, inc))
    mk = os.path.join(d, "Makefile.am.libasncodec")
    if os.path.exists(mk):
        txt = open(mk).read().replace("\\\n", " ")
        for var in ("ASN_MODULE_SRCS", "ASN_MODULE_HDRS"):
            m = re.search(r"^%s=(.*)$" % var, txt, flags=re.M)
            for f in (m.group(1).split() if m else []):
                if f not in have:
                    probs.append("missing-source:%s lists %s" % (var, f))
    return stems, sorted(set(probs))[:12]


SITE_RE = re.compile(r"^\s*(?:struct\s+)?(\w+?)_(\d+)P(\d+)(?:_t)?\s*\*?\s*(\w+);", flags=re.M)


def site_types(d, mod):
    """the C type of every instantiation site of the module: {(carrier, member): (template C name, line, specialization index)}"""
    out = {}
    for carrier in sorted({s["carrier"] for s in mod.get("sites", [])}):
        path = os.path.join(d, carrier + ".h")
        if not os.path.exists(path):
            continue
        for m in SITE_RE.finditer(open(path).read()):
            out["%s.%s" % (carrier, m.group(4))] = (m.group(1), int(m.group(2)), int(m.group(3)))
    return out


# ------------------------------------------------------------------ round 4: oracles on the C output alone
ERROR_DIRECTIVE = re.compile(r"^[ \t]*#[ \t]*error\b.*$", flags=re.M)


def fatal_oracle(d, stderr, skel):
    """the clause "if it cannot handle the module it prints a diagnostic AND exits non-zero", read backwards: what asn1c
    itself calls fatal (a `FATAL:` line on stderr) or leaves as an `#error` directive in a file it GENERATED (a file whose
    name is not a skeleton's: converter-example.c carries an #error of its own) must not come with exit status 0.
    -> ([FATAL lines], [file: #error line])"""
    fat = [l[:240] for l in stderr.split("\n") if l.startswith("FATAL:")]
    errs = []
    for f in sorted(os.listdir(d)):
        if not (f.endswith(".c") or f.endswith(".h")) or os.path.exists(os.path.join(skel, f)):
            continue
        try:
            txt = open(os.path.join(d, f), errors="replace").read()
        except OSError:
            continue
        if "error" in txt:
            errs += ["%s: %s" % (f, m.group(0).strip()[:200]) for m in ERROR_DIRECTIVE.finditer(txt)]
    return fat[:12], errs[:12]


def admitted_units(e):
    """the set of unit values 0..256 (256 = "anything above an octet") the parsed checker admits, or None"""
    if e["mode"] == "TABLE":
        cells = e["cells"]
        return {c for c in range(min(len(cells), e["size"])) if cells[c]}
    if e["mode"] == "RANGE":
        if e["text"] == "-":
            return set(range(257))
        out = set()
        for part in e["text"].split("|"):
            f = part.split(":")
            try:
                if f[0] == "bt":
                    out |= {c for c in range(257) if int(f[1]) <= c <= int(f[2])}
                elif f[0] == "eq":
                    out |= {c for c in range(257) if c == int(f[1])}
                elif f[0] == "le":
                    out |= {c for c in range(257) if c <= int(f[1])}
                elif f[0] == "ge":
                    out |= {c for c in range(257) if c >= int(f[1])}
                else:
                    return None
            except (ValueError, IndexError):
                return None
        return out
    return None


def alphabet_oracle(d, mod):
    """-> [(c file, function, mode, problem or None)]: the units admitted by the emitted permitted-alphabet checker of every
    site of the module against the set of octets of the literal the generator wrote (no model involved)"""
    import c08_alpha
    out = []
    for stem, fn, octs in mod.get("alpha_sites", []):
        e = c08_alpha.parse_emitted(os.path.join(d, stem + ".c"), fn)
        got = admitted_units(e)
        if got is not None and e.get("unit") == "1":
            got.discard(256)                      # the unit is an octet: nothing above 0xff exists
        prob = None
        if e["mode"] in ("UTF8LEN", "NONE"):
            pass                                  # no alphabet code emitted (C08's ground: C08-utf8-from-unchecked)
        elif got is None:
            prob = "checker not understood (%s %s)" % (e["mode"], e.get("why") or e.get("text"))
        elif got != set(octs):
            prob = "admits %s, the literal denotes %s" % (fmt_set(got), fmt_set(octs))
        elif e["mode"] == "TABLE" and (len(e["cells"]) > e["size"] or len(e["cells"]) % 16):
            prob = "%d cells printed into an array of %d" % (len(e["cells"]), e["size"])
        out.append((stem + ".c", fn, e["mode"], prob))
    return out


def fmt_set(s):
    return "{" + ",".join("0x%02x" % c if c < 256 else ">0xff" for c in sorted(s)[:24]) + (",..." if len(s) > 24 else "") + "}"


def build_job(job):
    try:
        return build_job1(job)
    finally:
        if job.get("cleanup"):
            shutil.rmtree(job["dir"], ignore_errors=True)


def build_job1(job):
    """steps (a), (b) and the translator run of (c) for one (module, option set); fills the job dict"""
    import time
    d, mod, opts = job["dir"], job["mod"], job["opts"]
    t0 = time.time()
    rc, out, err = run_asn1c(job["asn1c"], job["skel"], mod, opts, d)
    job.update(rc=rc, stdout=out[-3000:], stderr=err[-3000:], t_asn1c=time.time() - t0)
    if mod.get("partial"):
        job["cannot_compile"] = c10_partial.cannot_compile_lines(err)
        job["name_clash"] = "name clashes" in err
    if rc == 0:
        job["fatal_lines"], job["error_directives"] = fatal_oracle(d, err, job["skel"])
        if mod.get("alpha_sites") and "-fno-constraints" not in opts:
            job["alpha"] = alphabet_oracle(d, mod)
        job["stems"], job["fileset"] = fileset_oracle(d, err, job["skel"])
        if mod.get("sites"):
            job["site_types"] = site_types(d, mod)
        if mod.get("derived"):          # round 5 (n): no global C identifier is defined by the headers of two types
            job["dup_names"] = c10_derived.names_oracle(d, job["skel"])
    if rc != 0 or job.get("only_asn1c"):
        return job
    if not os.path.exists(os.path.join(d, "converter-example.mk")):
        job["build_rc"], job["build_log"] = -1, "asn1c exited 0 but wrote no converter-example.mk"
        return job
    # the per-module preprocessor flags the emitted makefile passes (ASN_DISABLE_OER_SUPPORT ...)
    mk = open(os.path.join(d, "Makefile.am.libasncodec")).read() if os.path.exists(os.path.join(d, "Makefile.am.libasncodec")) else ""
    mm = re.search(r"^ASN_MODULE_CFLAGS=(.*)$", mk, flags=re.M)
    job["mod_cflags"] = mm.group(1).split() if mm else []
    job["reused_objects"] = seed_objects(job, d) if job.get("reuse", True) else 0
    env = dict(os.environ, CFLAGS=STRICT)
    t0 = time.time()
    brc, bout, berr = run("make -f converter-example.mk 2>&1", d, timeout=600, env=env)
    job["t_make"] = time.time() - t0
    errs = [l for l in bout.split("\n") if re.search(r"\berror\b|undefined reference|multiple definition|No rule to make|\*\*\*", l)]
    # a constant of the generated tables that does not fit its C type changes value at compile time (gcc says so)
    job["overflow"] = [l[:300] for l in bout.split("\n") if re.search(r"\[-Woverflow\]|integer constant is (so|too) large", l)
                       and not os.path.exists(os.path.join(job["skel"], l.split(":")[0]))][:6]
    job["build_rc"], job["build_log"], job["warnings"] = brc, "\n".join(errs[:12]) if errs else bout[-1500:], len(re.findall(r"warning:", bout))
    # observation for DESIGN.md section 9 item 17 (not part of the verdict): do ALL emitted objects link together?
    if brc == 0 and job.get("oi") == 0:
        arc, aout, aerr = run("gcc -o allobjs $(ls *.o) -lm 2>&1 | grep -c 'undefined reference'", d, timeout=120)
        job["allobj_undefined"] = int(aout.strip() or 0) if aout.strip().isdigit() else -1
    # headers as C++
    hs = sorted(f for f in os.listdir(d) if f.endswith(".h"))
    open(os.path.join(d, "cxx_all.cpp"), "w").write("".join('#include "%s"\n' % h for h in hs) + "int main() { return 0; }\n")
    t0 = time.time()
    crc, cout, cerr = run(["g++", "-fsyntax-only", "-x", "c++", "-I."] + job["mod_cflags"] + ["cxx_all.cpp"], d, timeout=300)
    job["t_cxx"] = time.time() - t0
    job["cxx_rc"], job["cxx_log"] = crc, "\n".join([l for l in cerr.split("\n") if "error" in l][:8]) or cerr[-800:]
    if mod.get("derived"):              # round 5 (m): one C translation unit including every emitted header
        job["call_rc"], job["call_log"] = c10_derived.c_all_headers(d, job["skel"], job["mod_cflags"], run)
    if brc != 0:
        return job
    # translator
    cmd = "gcc -std=gnu99 -w -I. -I%s %s -c %s -o dumpdescr.o && gcc -o dumpdescr dumpdescr.o pdu_collection.o libasncodec.a -lm && ./dumpdescr" % (
        job["skel"], " ".join(job.get("mod_cflags", [])), os.path.join(HARNESS, "dumpdescr.c"))
    t0 = time.time()
    drc, dout, derr = run(cmd, d, timeout=300)
    job["t_dump"] = time.time() - t0
    job["dump_rc"], job["dump"], job["dump_err"] = drc, dout, derr[-1500:]
    return job


def run_jobs(jobs):
    with ThreadPoolExecutor(max_workers=NCPU) as ex:
        return list(ex.map(build_job, jobs))


# ------------------------------------------------------------------ translator output -> Gen_Descr_<n>.v

def parse_dump(text):
    """-> (names {idx: (kind, name)}, [gallina term per descriptor]) or None"""
    lines = text.split("\n")
    if not lines or not lines[0].startswith("#TABLE"):
        return None
    names, terms = {}, []
    for l in lines[1:]:
        if l.startswith("#D "):
            m = re.match(r"#D (\d+) kind=(\w+) name=(.*) xml=", l)
            names[int(m.group(1))] = (m.group(2), m.group(3))
        elif l.startswith("(mkD "):
            terms.append(l)
        elif l.startswith("#END"):
            if int(l.split()[1]) != len(terms):
                return None
            return names, terms
    return None


def gen_descr_v(path, tables):
    """tables: [(label, gen_per, gen_oer, [terms], [xinfo terms], [hop terms])]; writes one file with one obligation per table:
    wf_x (Rt/WfAlias.v) = wf_descr_all of the table + the reference hops + the member tags of every use position"""
    with open(path, "w") as f:
        f.write("(* generated by checks/c10.py from harness/dumpdescr.c output: do not edit *)\n")
        f.write("From Coq Require Import ZArith List Bool.\nFrom A1 Require Import Rt.WfDescr Rt.WfAlias.\nImport ListNotations.\nOpen Scope Z_scope.\n\n")
        for k, (label, per, oer, terms, xi, hp) in enumerate(tables):
            f.write("Definition tab_%d : table := mkTab %s %s [\n  %s\n].\n" % (k, "true" if per else "false", "true" if oer else "false", ";\n  ".join(terms)))
            f.write("Definition xtab_%d : xtable := mkXT tab_%d [%s]\n  [%s].\n" % (k, k, "; ".join(xi), "; ".join(hp)))
            f.write("Definition diag_%d := Eval vm_compute in (diagnose_x xtab_%d).\nPrint diag_%d.\n" % (k, k, k))
        for k in range(len(tables)):
            f.write("Lemma descr_ok_%d : wf_x xtab_%d = true.\nProof. vm_compute. reflexivity. Qed.\n" % (k, k))
        f.write("Definition all_ok := (%s).\nPrint Assumptions all_ok.\n" % ", ".join("descr_ok_%d" % k for k in range(len(tables))))


def parse_diag(out, ntables):
    """coqc output -> {k: [(descr, clause)]}"""
    res = {}
    for m in re.finditer(r"diag_(\d+) =\s*(.*?)\s*:\s*list", out, flags=re.S):
        body = m.group(2)
        res[int(m.group(1))] = [(int(a), int(b)) for a, b in re.findall(r"\((-?\d+),\s*(\d+)\)", body)]
    return res


def check_tables(scr, tables, batch=6):
    """compile the generated obligations, a few tables per file, files in parallel.
    -> {table index: ("ok"|"fail"|"error", [(descr, clause)], log)}"""
    gd = os.path.join(scr, "gen_descr")
    os.makedirs(gd, exist_ok=True)
    files = []
    for b in range(0, len(tables), batch):
        path = os.path.join(gd, "Gen_Descr_%d.v" % (b // batch))
        # each table is first compiled alone-in-batch; on failure of the file the tables are retried one per file
        files.append((path, list(range(b, min(b + batch, len(tables))))))
    res = {}

    def one(item):
        path, idxs = item
        gen_descr_v(path, [tables[i] for i in idxs])
        rc, out = sh(["timeout", "300", "coqc", "-Q", COQ, "A1", path], cwd=gd, timeout=400)
        return item, rc, out

    with ThreadPoolExecutor(max_workers=NCPU) as ex:
        first = list(ex.map(one, files))
    retry = []
    for (path, idxs), rc, out in first:
        if rc == 0 and "Closed under the global context" in out:
            for i in idxs:
                res[i] = ("ok", [], "")
        elif len(idxs) == 1:
            diag = parse_diag(out, 1).get(0)
            res[idxs[0]] = ("fail" if diag else "error", diag or [], out[-1500:])
        else:
            for i in idxs:
                retry.append((os.path.join(gd, "Gen_Descr_r%d.v" % i), [i]))
    if retry:
        with ThreadPoolExecutor(max_workers=NCPU) as ex:
            second = list(ex.map(one, retry))
        for (path, idxs), rc, out in second:
            if rc == 0 and "Closed under the global context" in out:
                res[idxs[0]] = ("ok", [], "")
            else:
                diag = parse_diag(out, 1).get(0)
                res[idxs[0]] = ("fail" if diag else "error", diag or [], out[-1500:])
    return res
