"""c08_open — C08, wave 5: two regions the earlier layers did not sweep.

Region 1, module `MBU` — UNIONS WHOSE ALTERNATIVES OVERLAP.  The systematic modules of lib/c08_util.py hold unions of
disjoint / adjacent / touching pieces only (and two hand-made bounded overlaps); an open-ended alternative was always the
outermost piece.  Here: every pair of alternative SHAPES {bounded a..b, half-open up a..MAX, half-open down MIN..b, open
MIN..MAX, single value} x RELATION {disjoint, adjacent, overlapping, A contains B, B contains A} x textual ORDER, and
three-alternative unions in all six orders (an open-ended alternative absorbing / overlapping bounded ones that start
later or end earlier), around a small pivot and around a 2^k pivot; for INTEGER values and for SIZE (OCTET STRING,
SEQUENCE OF, SET OF), as SEQUENCE member, type of its own, CHOICE alternative, element two levels down.  The value
generator of the boundary modules (c08_util.sites) then gives the values at / just inside / just outside EVERY edge of
EVERY alternative - also of the alternatives that are absorbed, which is where a wrong merge shows.  The module is a
`boundary` module: C against the extracted model `chk` (faithfulness) and against the Spec `satisfies` (the property).

Region 2, module `MR0` — CONSTRAINTS CARRIED BY A MEMBER THAT IS STORED BY POINTER.  asn1c stores a CHOICE alternative by
pointer when it refers back to the CHOICE (recursive types) and, for constructed alternatives, under -findirect-choice;
SEQUENCE / SET members when OPTIONAL or recursive.  The constraint written on such a member lives only in the generated
`memb_*_constraint_N`, the walker has to call it through the pointer.  MR0: recursive CHOICEs (alternative referring back
directly, via SET OF / SEQUENCE OF with a SIZE of its own, via a SEQUENCE), recursive SEQUENCEs with OPTIONAL constrained
members, non-recursive CHOICEs with SIZE-constrained list alternatives; values: built bottom-up, the constraint of ONE
member violated at EVERY nesting position (depth 0..3) while everything underneath and around is valid.  Oracle: `judge`
below evaluates every constraint at every nesting position of the value.  Compiled with and without -findirect-choice."""
import re
from c08_util import (mk_int, mk_oct, cmodule_text, resolve, in_parts, needs_unsigned, CAP_OF, tlv, int_content)


# ---------------------------------------------------------------- region 1: overlapping unions
def _shape(p):
    a, b = p
    if a is None and b is None:
        return "open"
    if a is None:
        return "down"
    if b is None:
        return "up"
    return "single" if a == b else "bounded"


NEG, POS = float("-inf"), float("inf")


def _ext(p):
    return (NEG if p[0] is None else p[0]), (POS if p[1] is None else p[1])


def relation(p, q):
    """relation of two alternatives read as sets of integers"""
    (a, b), (c, d) = _ext(p), _ext(q)
    if (a, b) == (c, d):
        return "equal"
    if a <= c and d <= b:
        return "contains"           # p contains q
    if c <= a and b <= d:
        return "contained"          # p inside q
    if b < c or d < a:
        gap = (c - b) if b < c else (a - d)
        return "adjacent" if gap == 1 else "disjoint"
    return "overlapping"


def pool(p, floor=None):
    """candidate alternatives around the pivot p (floor: smallest legal bound - 0 for SIZE)"""
    cand = [(p, p + 6), (p + 2, p + 4), (p + 4, p + 10), (p + 7, p + 9), (p + 9, p + 12), (p - 5, p - 1), (p - 5, p + 2), (p + 11, p + 13),
            (p + 3, None), (p - 3, None), (p + 7, None), (p + 1, None), (p + 13, None), (p, None),
            (None, p + 3), (None, p + 8), (None, p - 1), (None, p - 6), (None, p + 6), (None, p + 12),
            (None, None),
            (p, p), (p + 3, p + 3), (p + 6, p + 6), (p + 7, p + 7), (p - 1, p - 1), (p + 10, p + 10), (p + 20, p + 20)]
    out = []
    for a, b in cand:
        if floor is not None:
            if a is None:
                a = floor
            if a < floor or (b is not None and b < a):
                continue
        if (a, b) not in out:
            out.append((a, b))
    return out


def pair_unions(p, floor=None):
    """[(label, parts)]: one union per (shape, shape, relation) class met in the pool, in both textual orders"""
    ps = pool(p, floor)
    seen, out = set(), []
    for x in ps:
        for y in ps:
            if x == y:
                continue
            key = (_shape(x), _shape(y), relation(x, y))
            if key in seen:
                continue
            seen.add(key)
            out.append(("u2:%s-%s-%s" % key, [x, y]))
            out.append(("u2r:%s-%s-%s" % key, [y, x]))           # the same two alternatives in the other textual order
    return out


def triple_unions(p, floor=None):
    """three alternatives, every order: an open-ended one over / next to two bounded ones"""
    base = [[(p, None), (p + 4, p + 6), (p + 10, p + 12)],           # contains both (the seeded shape `1..MAX | 5..10`)
            [(p + 5, None), (p + 2, p + 7), (p + 10, p + 12)],       # overlaps one from above, contains the other
            [(p + 8, None), (p, p + 2), (p + 4, p + 5)],             # disjoint from both, starts last
            [(None, p + 12), (p + 4, p + 6), (p, p)],                # down: contains both
            [(None, p + 5), (p + 3, p + 9), (p + 11, p + 11)],       # down: overlaps one, disjoint from the single
            [(None, None), (p, p), (p + 3, p + 5)],                  # everything
            [(p - 5, None), (p, p), (p + 7, p + 9)],
            [(None, p + 2), (p + 6, None), (p + 1, p + 7)],          # two open ends bridged by a bounded piece
            [(None, p + 2), (p + 6, None), (p + 4, p + 4)],          # two open ends, a single in the hole
            [(p, p + 20), (p + 2, p + 4), (p + 18, p + 25)]]         # bounded only: contains + overlaps
    out = []
    for i, b in enumerate(base):
        if floor is not None:
            b = [((floor if x is None else x), y) for x, y in b]
            if any(x < floor for x, _y in b):
                continue
        a, c, d = b
        for j, o in enumerate([[a, c, d], [a, d, c], [c, a, d], [c, d, a], [d, a, c], [d, c, a]]):
            out.append(("u3:%d/%d" % (i, j), o))
    return out


def _chunks(xs, n):
    return [xs[i:i + n] for i in range(0, len(xs), n)]


def _dedupe(cons):
    seen, out = set(), []
    for lab, ps in cons:
        k = tuple(ps)
        if k not in seen:
            seen.add(k)
            out.append((lab, ps))
    return out


def open_union_module(rng, tier, name="MBU", chunk=12):
    """the module of overlapping unions (same shape as c08_util.boundary_modules: `boundary` = values from c08_util.sites).
    Definition names reuse the prefixes of the systematic modules (BS/ZS/ZQ = SEQUENCE-of-members forms, kept by
    c08_util.lite_module for the secondary flag sets)."""
    def SEQ(tn, ms):
        return {"k": "seq", "ms": [("%sm%d" % (tn.lower(), j), t, False) for j, t in enumerate(ms)]}

    def CHO(tn, ms):
        return {"k": "choice", "ms": [("%sm%d" % (tn.lower(), j), t, False) for j, t in enumerate(ms)]}
    OF = lambda el, kind="seqof", parts=(): {"k": kind, "parts": list(parts), "el": el, "con": None}
    # pivots: a small one, one across 2^31 (long / unsigned long change), and - thorough - more 2^k edges, negative side
    pivots = [10, 2**31 - 5] if tier == "quick" else [10, 2**31 - 5, -2**31 - 5, 2**32 - 5, 2**15 - 5]
    icons = []
    for pi, p in enumerate(pivots):
        pu = pair_unions(p)
        if pi > 0:                              # the 2^k pivots: open-ended x anything, the region the misses were in
            pu = [c for c in pu if any(x is None for q in c[1] for x in q)]
        icons += pu + triple_unions(p)
    icons = _dedupe(icons)
    defs = []
    for i, ch in enumerate(_chunks(icons, chunk)):
        defs.append(("BS%d" % i, SEQ("BS%d" % i, [mk_int(ps) for _l, ps in ch])))
    opn = [c for c in icons if any(x is None for q in c[1] for x in q)]
    tops = [c for j, c in enumerate(opn) if (j + rng.below(5)) % 5 == 0 or c[0].startswith("u3:0/")][:40 if tier == "quick" else 400]
    for j, (_l, ps) in enumerate(tops):
        defs.append(("BT%d" % j, mk_int(ps)))
        if j % 4 == 0:
            defs.append(("BR%d" % j, {"k": "ref", "ref": "BT%d" % j}))
    sub = [c for j, c in enumerate(opn) if not needs_unsigned(c[1]) and j % 4 == rng.below(4)][:36 if tier == "quick" else 400]
    for i, ch in enumerate(_chunks(sub, chunk)):
        defs.append(("BC%d" % i, CHO("BC%d" % i, [mk_int(ps) for _l, ps in ch])))
        defs.append(("BQ%d" % i, SEQ("BQ%d" % i, [OF(mk_int(ps), "seqof" if j % 2 else "setof") for j, (_l, ps) in enumerate(ch)])))
    # SIZE: pivot 3 (lists stay short), floor 0
    scons = _dedupe(pair_unions(3, 0) + triple_unions(3, 0))
    scons = [c for c in scons if c[1] != [(0, None)]]
    for i, ch in enumerate(_chunks(scons, chunk)):
        defs.append(("ZS%d" % i, SEQ("ZS%d" % i, [mk_oct(ps) for _l, ps in ch])))
        defs.append(("ZQ%d" % i, SEQ("ZQ%d" % i, [OF({"k": "bool"}, "seqof" if j % 2 else "setof", ps) for j, (_l, ps) in enumerate(ch)])))
    sopn = [c for c in scons if any(x is None for q in c[1] for x in q)]
    ssub = [c for j, c in enumerate(sopn) if j % 3 == rng.below(3) or c[0].startswith("u3:0/")][:36 if tier == "quick" else 400]
    for i, ch in enumerate(_chunks(ssub, chunk)):
        # a SIZE-constrained list as CHOICE alternative: a pointer under -findirect-choice (region 2)
        defs.append(("ZC%d" % i, CHO("ZC%d" % i, [OF(mk_int([(0, 7)]), "seqof" if j % 2 else "setof", ps) for j, (_l, ps) in enumerate(ch)])))
    for j, (_l, ps) in enumerate(ssub[::3]):
        defs.append(("ZT%d" % j, mk_oct(ps)))
    env = dict(defs)
    trees = {n: resolve(t, "AUTOMATIC", env) for n, t in defs}
    return {"name": name, "default": "AUTOMATIC", "defs": defs, "trees": trees, "text": cmodule_text(name, "AUTOMATIC", defs), "boundary": True,
            "names": [], "classes": sorted(set(l for l, _ps in icons + scons if l.startswith("u2:")))}


def choice_part(m):
    """the definitions of a model-layer module that contain a CHOICE: what -findirect-choice changes"""
    def has_choice(t):
        if t is None:
            return False
        if t["k"] == "choice":
            return True
        if t["k"] == "ref":
            return has_choice(dict(m["defs"]).get(t["ref"]))
        return any(has_choice(mt) for _n, mt, _o in t.get("ms", [])) or ("el" in t and has_choice(t["el"]))
    defs = [(n, t) for n, t in m["defs"] if has_choice(t)]
    need = set()

    def refs(t):
        if t["k"] == "ref" and t["ref"] not in need:
            need.add(t["ref"])
            refs(dict(m["defs"])[t["ref"]])
        for _n, mt, _o in t.get("ms", []):
            refs(mt)
        if "el" in t:
            refs(t["el"])
    for _n, t in defs:
        refs(t)
    names = set(n for n, _t in defs)
    defs = [(n, t) for n, t in m["defs"] if n in names or n in need]
    return dict(m, defs=defs, trees={n: m["trees"][n] for n, _t in defs}, text=cmodule_text(m["name"], m["default"], defs))


# ---------------------------------------------------------------- region 2: members stored by pointer (module MR0)
class T:
    """kind: int | oct | bool | null | seq | seqof | setof | choice | ref.   Values: int -> int, oct -> bytes, bool -> bool,
    null -> None, seq -> [member value or None (absent)], seqof/setof -> [..], choice -> (index, value)"""
    def __init__(self, kind, **kw):
        self.kind = kind
        self.parts = []
        self.__dict__.update(kw)


def I(*parts):
    return T("int", parts=list(parts))


def O(*parts):
    return T("oct", parts=list(parts))


def OF(el, *parts, kind="seqof"):
    return T(kind, el=el, parts=list(parts))


def SEQ(*ms):
    return T("seq", ms=[(n, t, opt) for n, t, opt in ms])


def CHO(*alts):
    return T("choice", alts=list(alts))


def R(name):
    return T("ref", name=name)


def _edge(x, lo):
    return ("MIN" if lo else "MAX") if x is None else str(x)


def _ptext(ps):
    return " | ".join(str(a) if a == b and a is not None else "%s..%s" % (_edge(a, True), _edge(b, False)) for a, b in ps)


def ttext(t):
    k = t.kind
    if k == "int":
        return "INTEGER" + (" (%s)" % _ptext(t.parts) if t.parts else "")
    if k == "oct":
        return "OCTET STRING" + (" (SIZE (%s))" % _ptext(t.parts) if t.parts else "")
    if k == "bool":
        return "BOOLEAN"
    if k == "null":
        return "NULL"
    if k == "ref":
        return t.name + (" (SIZE (%s))" % _ptext(t.parts) if t.parts else "")
    if k in ("seqof", "setof"):
        return "%s%s OF %s" % ("SEQUENCE" if k == "seqof" else "SET", " (SIZE (%s))" % _ptext(t.parts) if t.parts else "", ttext(t.el))
    if k == "seq":
        return "SEQUENCE { %s }" % ", ".join("%s %s%s" % (n, ttext(mt), " OPTIONAL" if opt else "") for n, mt, opt in t.ms)
    if k == "choice":
        return "CHOICE { %s }" % ", ".join("%s %s" % (n, ttext(a)) for n, a in t.alts)
    raise ValueError(k)


def deref(t, env):
    """-> (the structural type, the SIZE sets added on the way by `Name (SIZE(..))` references)"""
    extra = []
    while t.kind == "ref":
        if t.parts:
            extra.append(t.parts)
        t = env[t.name]
    return t, extra


UNIV = {"int": 2, "oct": 4, "bool": 1, "null": 5, "seq": 16, "seqof": 16, "setof": 17}


def rder(t, v, env, tag=None):
    """DER under AUTOMATIC TAGS: members / alternatives get [i] IMPLICIT, EXPLICIT when the member is an untagged CHOICE"""
    t0, _x = deref(t, env)
    k = t0.kind
    if k == "choice":
        i, x = v
        a0, _y = deref(t0.alts[i][1], env)
        inner = tlv(i * 4 + 2, True, rder(t0.alts[i][1], x, env)) if a0.kind == "choice" else rder(t0.alts[i][1], x, env, i * 4 + 2)
        return inner
    tg = tag if tag is not None else UNIV[k] * 4
    if k == "int":
        return tlv(tg, False, int_content(v))
    if k == "oct":
        return tlv(tg, False, bytes(v))
    if k == "bool":
        return tlv(tg, False, b"\xff" if v else b"\x00")
    if k == "null":
        return tlv(tg, False, b"")
    if k == "seq":
        body = b""
        for i, ((n, mt, opt), x) in enumerate(zip(t0.ms, v)):
            if x is None:
                continue
            m0, _y = deref(mt, env)
            body += tlv(i * 4 + 2, True, rder(mt, x, env)) if m0.kind == "choice" else rder(mt, x, env, i * 4 + 2)
        return tlv(tg, True, body)
    items = [rder(t0.el, x, env) for x in v]
    if k == "setof":
        items.sort()
    return tlv(tg, True, b"".join(items))


def judge(t, v, env, path=""):
    """the Spec, evaluated at every nesting position: [(path, violated constraint)]"""
    t0, extra = deref(t, env)
    k = t0.kind
    out = []
    if k == "int":
        if t0.parts and not in_parts(t0.parts, v):
            out.append((path, "value %d not in (%s)" % (v, _ptext(t0.parts))))
    elif k == "oct":
        for ps in [t0.parts] + extra:
            if ps and not in_parts(ps, len(v)):
                out.append((path, "length %d not in SIZE (%s)" % (len(v), _ptext(ps))))
    elif k in ("seqof", "setof"):
        for ps in [t0.parts] + extra:
            if ps and not in_parts(ps, len(v)):
                out.append((path, "count %d not in SIZE (%s)" % (len(v), _ptext(ps))))
        for i, x in enumerate(v):
            out += judge(t0.el, x, env, "%s[%d]" % (path, i))
    elif k == "seq":
        for (n, mt, opt), x in zip(t0.ms, v):
            if x is None:
                if not opt:
                    out.append((path + "." + n, "absent"))
                continue
            out += judge(mt, x, env, path + "." + n)
    elif k == "choice":
        out += judge(t0.alts[v[0]][1], v[1], env, path + "." + t0.alts[v[0]][0])
    return out


def _sizes(t, env):
    t0, extra = deref(t, env)
    return [ps for ps in [t0.parts] + extra if ps]


def _ok_len(t, env, want=(2, 1, 3, 0, 4, 5)):
    ss = _sizes(t, env)
    for n in want:
        if all(in_parts(ps, n) for ps in ss):
            return n
    return 1


def valid(t, env, d):
    """a valid value; d = how many more levels may go through a recursive alternative / OPTIONAL member"""
    t0, _x = deref(t, env)
    k = t0.kind
    if k == "int":
        for a, b in t0.parts:
            return a if a is not None else (b if b is not None else 0)
        return 5
    if k == "oct":
        return b"\x41" * _ok_len(t, env)
    if k == "bool":
        return True
    if k == "null":
        return None
    if k == "seq":
        return [None if (opt and d <= 0) else valid(mt, env, d - 1) for n, mt, opt in t0.ms]
    if k in ("seqof", "setof"):
        n = _ok_len(t, env) if d > 0 else _ok_len(t, env, (0, 1, 2, 3, 4, 5))
        return [valid(t0.el, env, d - 1) for _ in range(n)]
    if k == "choice":
        leafs = [i for i, (n, a) in enumerate(t0.alts) if deref(a, env)[0].kind in ("int", "oct", "bool", "null")]
        i = leafs[0] if (d <= 0 and leafs) else (d % len(t0.alts))
        return (i, valid(t0.alts[i][1], env, d - 1))
    raise ValueError(k)


def local_edges(t, env):
    """[(label, value)]: the values of t at / just inside / just outside every edge of the constraints written ON t
    (value range, SIZE incl. the SIZE added by a constrained reference); everything underneath valid"""
    t0, _x = deref(t, env)
    k = t0.kind
    out = []
    if k == "int":
        for a, b in t0.parts:
            for x in (a, b):
                if x is not None:
                    out += [("int:%d" % z, z) for z in (x - 1, x, x + 1)]
    elif k in ("oct", "seqof", "setof"):
        ns = set()
        for ps in _sizes(t, env):
            for a, b in ps:
                for x in (a, b):
                    if x is not None:
                        ns.update([x - 1, x, x + 1])
        for n in sorted(x for x in ns if 0 <= x <= 12):
            out.append(("%s:%d" % ("len" if k == "oct" else "count", n), b"\x42" * n if k == "oct" else [valid(t0.el, env, 1) for _ in range(n)]))
    return out


def variants(t, env, d):
    """[(label, value)]: ONE constraint site at nesting depth <= d below t holds an edge value (inside or outside), the rest
    of the value is valid.  Built bottom-up: the variants of a member are placed into a valid skeleton of the parent."""
    t0, _x = deref(t, env)
    k = t0.kind
    out = list(local_edges(t, env))
    if d <= 0:
        return out
    if k == "seq":
        base = valid(t, env, 1)
        for i, (n, mt, opt) in enumerate(t0.ms):
            for lab, x in variants(mt, env, d - 1):
                v = list(base)
                v[i] = x
                out.append((".%s%s%s" % (n, "" if lab[:1] in ".[" else ":", lab), v))
    elif k in ("seqof", "setof"):
        n = max(_ok_len(t, env), 1)
        if all(in_parts(ps, n) for ps in _sizes(t, env)):
            for lab, x in variants(t0.el, env, d - 1):
                for pos in sorted(set([0, n - 1])):
                    v = [valid(t0.el, env, 0) for _ in range(n)]
                    v[pos] = x
                    out.append(("[%d]%s%s" % (pos, "" if lab[:1] in ".[" else ":", lab), v))
    elif k == "choice":
        for i, (n, a) in enumerate(t0.alts):
            out.append((".%s:valid" % n, (i, valid(a, env, 1))))
            for lab, x in variants(a, env, d - 1):
                out.append((".%s%s%s" % (n, "" if lab[:1] in ".[" else ":", lab), (i, x)))
    return out


def ptr_types():
    """[(name, type)] of module MR0"""
    defs = []
    # recursive CHOICEs: `not RF` is a pointer always; the list alternatives (SIZE of their own) under -findirect-choice
    defs.append(("RF", CHO(("and", OF(R("RF"), (1, None), kind="setof")), ("or", OF(R("RF"), (2, 3))), ("not", R("RF")),
                           ("leaf", I((0, 7))), ("str", O((1, 2))))))
    defs.append(("RG", CHO(("pair", SEQ(("l", R("RG"), False), ("r", R("RG"), True))), ("lst", OF(R("RG"), (1, 2), (4, 4))),
                           ("v", I((1, 10), (20, 30))))))
    # recursion through a named list type, the SIZE written at the reference
    defs.append(("RNl", OF(R("RN"))))
    defs.append(("RN", CHO(("m", T("ref", name="RNl", parts=[(1, 2)])), ("n", R("RN")), ("z", T("null")), ("k", I((None, -1), (5, None))))))
    # recursion through a SEQUENCE alternative / member
    defs.append(("RP", SEQ(("l", R("RQ"), False), ("r", R("RQ"), True), ("w", I((0, 7)), True))))
    defs.append(("RQ", CHO(("p", R("RP")), ("e", I((0, 7))), ("many", OF(R("RP"), (0, 1))))))
    # recursive SEQUENCE: OPTIONAL members (pointers) carrying a value range / SIZE of their own
    defs.append(("RS", SEQ(("v", I((0, 7)), True), ("kids", OF(R("RS"), (0, 2)), True), ("next", R("RS"), True), ("o", O((2, None)), True),
                           ("u", I((1, None), (-5, -3)), False))))
    # no recursion: pointers under -findirect-choice only
    defs.append(("RLs", SEQ(("x", I((0, 7)), False), ("y", OF(I(), (1, 2)), True))))
    defs.append(("RL", CHO(("a", OF(I((0, 7)), (2, 3))), ("b", OF(O((1, 2)), (1, None), kind="setof")), ("c", R("RLs")), ("d", I((0, 7))),
                           ("e", OF(T("bool"), (0, 0), (2, None))))))
    defs.append(("RW", SEQ(("t", R("RL"), False), ("u", R("RF"), True), ("w", OF(R("RL")), False))))
    defs.append(("RX", OF(R("RL"))))
    return defs


def ptr_module(rng, tier, name="MR0"):
    """-> (module for the oracle layer, cases)"""
    defs = ptr_types()
    env = dict(defs)
    lines = ["%s DEFINITIONS AUTOMATIC TAGS ::= BEGIN" % name]
    cases = []
    depth = {"RF": 3, "RG": 3, "RN": 3, "RQ": 3, "RP": 3, "RS": 3, "RL": 2, "RLs": 1, "RW": 3, "RX": 3}
    cap = 260 if tier == "quick" else 1500
    for tn, t in defs:
        text = "%s ::= %s" % (tn, ttext(t))
        lines.append("  " + text)
        if tn not in depth:
            continue
        vs = [("valid", valid(t, env, 2)), ("valid-deep", valid(t, env, 4))] + variants(t, env, depth[tn])
        seen, uniq = set(), []
        for lab, v in vs:
            d = rder(t, v, env).hex()
            if d in seen:
                continue
            seen.add(d)
            uniq.append((lab, v, d))
        if len(uniq) > cap:
            # keep every case whose edge value sits on a SIZE (the constraint of a list member itself), thin out the rest
            keep = [c for c in uniq if "count:" in c[0] or c[0].startswith("valid")]
            rest = [c for c in uniq if c not in keep]
            uniq = keep[:cap] + rng.shuffle(rest)[:max(0, cap - len(keep))]
        for lab, v, d in uniq:
            bad = judge(t, v, env, tn)
            cases.append({"tn": tn, "label": "ptr", "der": d, "bad": ["%s: %s" % pw for pw in bad], "known": None, "what": "%s %s" % (tn, lab),
                          "text": text[:1500], "must_transport": True})
    lines.append("END")
    text = "\n".join(lines) + "\n"
    m = {"name": name, "default": "AUTOMATIC", "defs": [(n, None) for n, _ in defs], "text": text,
         "names": sorted(set(re.findall(r"[A-Za-z][A-Za-z0-9-]*", text)))}
    return m, cases


def pointer_members(m):
    """{type name: [member names stored by pointer]} read from the generated member tables (coverage, and the
    self-check that the directed module really holds by-pointer alternatives under this flag set)"""
    import os
    out = {}
    for n, _t in m["defs"]:
        f = os.path.join(m.get("dir", ""), n + ".c")
        if not os.path.exists(f):
            continue
        src = open(f, errors="replace").read()
        for mm in re.finditer(r"\{\s*(ATF_\w+)[^{}]*?offsetof\(struct (\w+),\s*([\w.]+)\)", src):
            if mm.group(1) == "ATF_POINTER":
                out.setdefault(mm.group(2), []).append(mm.group(3))
    return out
