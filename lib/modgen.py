"""modgen — generator of ASN.1 modules over the first-milestone type algebra,
their effective-tag resolution (an independent implementation of the X.680
tagging rules: what the Coq model is given), and values.

A type is a dict:
  {"k": "bool"|"null"|"int"|"oct"|"seq"|"seqof"|"setof"|"choice"|"ref",
   "tag": None | (cls, num, mode)      cls in U/A/C/P names, mode None|"IMPLICIT"|"EXPLICIT"
   "con": int: (lo, hi, ext)  lo/hi None = MIN/MAX ; oct/seqof/setof: (lo, hi, ext) SIZE or None
   "ms":  [(name, type, optional)]     seq / choice (optional ignored for choice)
   "el":  element type                 seqof / setof
   "ref": name}                        ref
Model trees are tuples printed by model_str() in the syntax of ocaml/drv_rt.ml.
Values are python objects: bool, None(NULL), int, bytes, ("S",[...]) with
("_",) / ("!",v) for optional members, ("L",[...]), ("C",i,v); printed by val_str().
"""
from vlib import Rng

CLS = {"UNIVERSAL": 0, "APPLICATION": 1, "CONTEXT": 2, "PRIVATE": 3}
UNIV = {"bool": 1, "int": 2, "oct": 4, "null": 5, "seq": 16, "seqof": 16, "setof": 17}


def tagnum(cls, num):
    return num * 4 + CLS[cls]


# ---------------------------------------------------------------- ASN.1 text

def con_text(c, size=False):
    if c is None:
        return ""
    lo, hi, ext = c
    lo_s = "MIN" if lo is None else str(lo)
    hi_s = "MAX" if hi is None else str(hi)
    body = lo_s if (lo is not None and lo == hi) else "%s..%s" % (lo_s, hi_s)
    if ext:
        body += ",..."
    return "(SIZE(%s))" % body if size else "(%s)" % body


def tag_text(tag):
    if not tag:
        return ""
    cls, num, mode = tag
    s = "[%s%d]" % ("" if cls == "CONTEXT" else cls + " ", num)
    if mode:
        s += " " + mode
    return s + " "


def type_text(t):
    k = t["k"]
    pre = tag_text(t.get("tag"))
    if k == "bool":
        return pre + "BOOLEAN"
    if k == "null":
        return pre + "NULL"
    if k == "int":
        return pre + "INTEGER" + (" " + con_text(t.get("con")) if t.get("con") else "")
    if k == "oct":
        return pre + "OCTET STRING" + (" " + con_text(t.get("con"), True) if t.get("con") else "")
    if k == "ref":
        return pre + t["ref"]
    if k in ("seqof", "setof"):
        kw = "SEQUENCE" if k == "seqof" else "SET"
        c = " " + con_text(t.get("con"), True) if t.get("con") else ""
        return pre + "%s%s OF %s" % (kw, c, type_text(t["el"]))
    if k in ("seq", "choice"):
        kw = "SEQUENCE" if k == "seq" else "CHOICE"
        ms = []
        for name, mt, opt in t["ms"]:
            ms.append("%s %s%s" % (name, type_text(mt), " OPTIONAL" if (opt and k == "seq") else ""))
        return pre + "%s { %s }" % (kw, ", ".join(ms))
    raise ValueError(k)


def module_text(name, default, defs):
    lines = ["%s DEFINITIONS %s TAGS ::= BEGIN" % (name, default)]
    for n, t in defs:
        lines.append("  %s ::= %s" % (n, type_text(t)))
    lines.append("END")
    return "\n".join(lines) + "\n"


# ---------------------------------------------------------------- tagging

def retag(tree, tg):
    """IMPLICIT tag: replace the outermost tag"""
    k = tree[0]
    if k == "c":
        raise ValueError("implicit tag on untagged CHOICE")
    return (k, tg) + tree[2:]


def resolve(t, default, env):
    """effective-tag model tree of a type (X.680 31.2: tagging)"""
    k = t["k"]
    if k == "ref":
        inner = resolve(env[t["ref"]], default, env)
    elif k == "bool":
        inner = ("b", tagnum("UNIVERSAL", 1))
    elif k == "null":
        inner = ("n", tagnum("UNIVERSAL", 5))
    elif k == "int":
        c = t.get("con") or (None, None, False)
        inner = ("i", tagnum("UNIVERSAL", 2), c[0], c[1], c[2])
    elif k == "oct":
        c = t.get("con") or (0, None, False)
        inner = ("o", tagnum("UNIVERSAL", 4), c[0], c[1], c[2])
    elif k in ("seqof", "setof"):
        c = t.get("con") or (0, None, False)
        inner = ("q" if k == "seqof" else "t", tagnum("UNIVERSAL", UNIV[k]), c, resolve(t["el"], default, env))
    elif k in ("seq", "choice"):
        ms = t["ms"]
        auto = default == "AUTOMATIC" and not any(m[1].get("tag") for m in ms)
        out = []
        for i, (name, mt, opt) in enumerate(ms):
            if auto:
                mt = dict(mt, tag=("CONTEXT", i, None))
            r = resolve(mt, default, env)
            if opt and k == "seq":
                r = ("?", r)
            out.append(r)
        inner = ("s", tagnum("UNIVERSAL", 16), out) if k == "seq" else ("c", out)
    else:
        raise ValueError(k)
    tag = t.get("tag")
    if tag:
        cls, num, mode = tag
        tg = tagnum(cls, num)
        if mode is None:
            mode = "EXPLICIT" if default == "EXPLICIT" else "IMPLICIT"
        if inner[0] == "c":
            if tag[2] == "IMPLICIT":
                raise ValueError("IMPLICIT keyword on an untagged CHOICE is not legal ASN.1")
            mode = "EXPLICIT"       # X.680 31.2.7 c): a tag on an untagged CHOICE is explicit
        inner = ("x", tg, inner) if mode == "EXPLICIT" else retag(inner, tg)
    return inner


def first_tags(tree):
    k = tree[0]
    if k == "c":
        r = []
        for a in tree[1]:
            r += first_tags(a)
        return r
    if k == "?":
        return first_tags(tree[1])
    return [tree[1]]


def tree_valid(tree):
    """the X.680 distinctness rules on a resolved tree (what C11 states)"""
    k = tree[0]
    if k == "c":
        seen = []
        for a in tree[1]:
            ft = first_tags(a)
            if any(x in seen for x in ft) or len(set(ft)) != len(ft):
                return False
            seen += ft
        return all(tree_valid(a) for a in tree[1])
    if k == "s":
        run = []
        for m in tree[2]:
            ft = first_tags(m)
            if any(x in run for x in ft):
                return False
            run = run + ft if m[0] == "?" else []
        return all(tree_valid(m) for m in tree[2])
    if k in ("q", "t"):
        return tree_valid(tree[3])
    if k in ("x", "?"):
        return tree_valid(tree[-1])
    return True


def num_s(x):
    return "*" if x is None else str(x)


def model_str(tree):
    k = tree[0]
    if k in ("b", "n"):
        return "%s%d" % (k, tree[1])
    if k in ("i", "o"):
        return "%s%d[%s,%s,%d]" % (k, tree[1], num_s(tree[2]), num_s(tree[3]), 1 if tree[4] else 0)
    if k == "s":
        return "s%d{%s}" % (tree[1], "".join(model_str(m) for m in tree[2]))
    if k in ("q", "t"):
        c = tree[2]
        return "%s%d[%s,%s,%d]%s" % (k, tree[1], num_s(c[0]), num_s(c[1]), 1 if c[2] else 0, model_str(tree[3]))
    if k == "c":
        return "c{%s}" % "".join(model_str(a) for a in tree[1])
    if k == "x":
        return "x%d%s" % (tree[1], model_str(tree[2]))
    if k == "?":
        return "?" + model_str(tree[1])
    raise ValueError(k)


def val_str(v):
    if v is True:
        return "T"
    if v is False:
        return "F"
    if v is None:
        return "N"
    if isinstance(v, int):
        return "I%d;" % v
    if isinstance(v, (bytes, bytearray)):
        return "O%s;" % bytes(v).hex()
    if v[0] == "S":
        return "S{%s}" % "".join(val_str(x) for x in v[1])
    if v[0] == "L":
        return "L{%s}" % "".join(val_str(x) for x in v[1])
    if v[0] == "C":
        return "C%d:%s" % (v[1], val_str(v[2]))
    if v[0] == "_":
        return "_"
    if v[0] == "!":
        return "!" + val_str(v[1])
    raise ValueError(v)


# ---------------------------------------------------------------- generation

INT_CONS = [None, None, (0, 255, False), (0, 256, False), (-128, 127, False), (1, 1, False), (0, 65535, False),
            (0, 65536, False), (-5, 5, False), (0, 7, False), (0, 4294967295, False), (-2147483648, 2147483647, False),
            (0, None, False), (None, 10, False), (0, 7, True), (-1, 254, True), (1, 100, False), (100, 100000, False),
            (-32768, 32767, False), (0, 127, False), (0, 128, False), (-129, 127, False), (0, 2147483648, False)]
SIZE_CONS = [None, None, (0, 4, False), (3, 3, False), (0, 0, False), (1, 2, True), (0, 255, False), (2, 300, False),
             (1, None, False), (0, 65535, False), (4, 4, True)]


class Gen:
    def __init__(self, rng, maxdepth=3, features=()):
        self.rng = rng
        self.maxdepth = maxdepth
        self.features = set(features)
        self.counter = 0

    def name(self):
        self.counter += 1
        return "m%d" % self.counter

    def maybe_tag(self, default):
        r = self.rng
        if default == "AUTOMATIC":
            return None           # manual tags inside AUTOMATIC modules only at definition level (see gen_module)
        if r.chance(1, 3):
            cls = r.choice(["CONTEXT", "CONTEXT", "CONTEXT", "APPLICATION", "PRIVATE"])
            num = r.choice([0, 1, 2, 3, 5, 7, 30, 31, 32, 127, 128, 1000, 16383, 16384])
            mode = r.choice([None, None, "IMPLICIT", "EXPLICIT"])
            return (cls, num, mode)
        return None

    def leaf(self, default):
        r = self.rng
        k = r.choice(["bool", "null", "int", "int", "int", "oct", "oct"])
        t = {"k": k}
        if k == "int":
            t["con"] = r.choice(INT_CONS)
        if k == "oct":
            t["con"] = r.choice(SIZE_CONS)
        t["tag"] = self.maybe_tag(default)
        c = t.get("con")
        if k == "int" and c and c[0] is not None and c[0] >= 0 and (c[1] is None or c[1] >= 2**31) and t["tag"] and \
           (t["tag"][2] == "EXPLICIT" or (t["tag"][2] is None and default == "EXPLICIT")):
            # known finding C02-explicit-tag-unsigned-member (double tag); exercised by the special module only
            t["tag"] = None
        return t

    def ty(self, depth, default, refs):
        r = self.rng
        if depth >= self.maxdepth or r.chance(2, 5):
            if refs and r.chance(1, 5):
                return {"k": "ref", "ref": r.choice(refs), "tag": self.maybe_tag(default)}
            return self.leaf(default)
        k = r.choice(["seq", "seq", "choice", "seqof", "setof"])
        t = {"k": k, "tag": self.maybe_tag(default)}
        if k in ("seq", "choice"):
            n = r.range(1, 4)
            t["ms"] = [(self.name(), self.ty(depth + 1, default, refs), k == "seq" and r.chance(1, 3)) for _ in range(n)]
        else:
            t["con"] = r.choice(SIZE_CONS[:9])
            t["el"] = self.ty(depth + 1, default, refs)
            for _ in range(20):
                if t["el"]["k"] not in ("seqof", "setof"):
                    break
                # an anonymous OF directly inside an OF trips several asn1c defects (parser assertion with an
                # inner SIZE, misplaced element constraint, uncompilable nested Member structs): C10/C12 findings,
                # exercised there; here collections nest through a named type or a SEQUENCE/CHOICE
                t["el"] = self.ty(depth + 1, default, refs)
            else:
                t["el"] = self.leaf(default)
            ec = t["el"].get("con")
            if t["el"]["k"] == "int" and ec and ec[0] is not None and ec[0] >= 0 and (ec[1] is None or ec[1] >= 2**31):
                # an anonymous OF element that needs its own INTEGER specifics (unsigned) makes asn1c emit a
                # reference to an undeclared asn_DEF_Member_N inside nested structures: C10 finding, exercised there
                t["el"]["con"] = (0, 255, False)
        return t

    def module(self, name, ntypes):
        """a valid module: (name, default, [(typename, type)], env, {typename: model tree})"""
        r = self.rng
        for _attempt in range(200):
            default = r.choice(["EXPLICIT", "IMPLICIT", "AUTOMATIC"])
            defs, env, trees = [], {}, {}
            ok = True
            for i in range(ntypes):
                tn = "T%d" % (i + 1)
                for _try in range(50):
                    t = self.ty(0, default, list(env.keys()))
                    try:
                        tree = resolve(t, default, dict(env, **{tn: t}))
                    except ValueError:
                        continue
                    if tree_valid(tree):
                        break
                else:
                    ok = False
                    break
                defs.append((tn, t))
                env[tn] = t
                trees[tn] = tree
            if ok:
                return {"name": name, "default": default, "defs": defs, "trees": trees,
                        "text": module_text(name, default, defs)}
        raise RuntimeError("could not generate a valid module")


# ---------------------------------------------------------------- values

INT_EDGES = [0, 1, -1, 2, 5, -5, 7, 8, 100, 127, 128, -128, -129, 254, 255, 256, 32767, 32768, -32768, -32769, 65535, 65536,
             100000, 2**31 - 1, 2**31, -2**31, -2**31 - 1, 2**32 - 1, 2**32, 2**63 - 1, -2**63, 2**62]


def int_values(con, rng, n, allow_out=False):
    lo, hi, ext = con if con else (None, None, False)
    cand = list(INT_EDGES)
    for b in (lo, hi):
        if b is not None:
            cand += [b, b + 1, b - 1]
    if lo is not None and hi is not None:
        cand += [(lo + hi) // 2]
    cand = [c for c in cand if -2**63 <= c < 2**63]
    inr = [c for c in cand if (lo is None or c >= lo) and (hi is None or c <= hi)]
    out = [c for c in cand if c not in inr]
    pool = inr + (out if (ext or allow_out) else [])
    pool = sorted(set(pool))
    rng_pick = [rng.choice(pool) for _ in range(n)] if pool else [0]
    return rng_pick


def size_choice(con, rng, allow_out=False, big=False):
    lo, hi, ext = con if con else (0, None, False)
    cand = [lo, lo + 1, lo + 2] + ([hi, hi - 1] if hi is not None else [lo + 5, lo + 17])
    if big:
        cand += [127, 128, 129, 300]
    cand = [c for c in cand if c >= 0 and c <= 400]
    inr = [c for c in cand if c >= lo and (hi is None or c <= hi)]
    if ext or allow_out:
        inr += [c for c in [lo - 1, (hi + 1) if hi is not None else lo] if c >= 0]
    return rng.choice(inr) if inr else lo


def value(tree, rng, depth=0):
    """a random valid value of a resolved model tree"""
    k = tree[0]
    if k == "b":
        return rng.chance(1, 2)
    if k == "n":
        return None
    if k == "i":
        return int_values((tree[2], tree[3], tree[4]), rng, 1)[0]
    if k == "o":
        n = size_choice((tree[2], tree[3], tree[4]), rng, big=rng.chance(1, 6))
        return rng.bytes(n)
    if k == "s":
        out = []
        for m in tree[2]:
            if m[0] == "?":
                out.append(("!", value(m[1], rng, depth + 1)) if rng.chance(1, 2) else ("_",))
            else:
                out.append(value(m, rng, depth + 1))
        return ("S", out)
    if k in ("q", "t"):
        n = size_choice(tree[2], rng)
        if depth > 2:
            n = min(n, max(tree[2][0], 2))
        n = min(n, 40)
        return ("L", [value(tree[3], rng, depth + 1) for _ in range(n)])
    if k == "c":
        i = rng.below(len(tree[1]))
        return ("C", i, value(tree[1][i], rng, depth + 1))
    if k == "x":
        return value(tree[2], rng, depth)
    raise ValueError(k)
