"""c04_util — mutators, the parallel runner and the result parser of checks/c04.py.

Mutants are derived from VALID encodings (so that most of each mutant is still
well-formed and the decoder gets deep into its state machine before it meets the
damage): truncation, bit flips aimed at the tag and length octets, byte
insert/delete/duplicate, splice of two encodings, length fields overwritten with
boundary forms, BER re-framing (definite -> indefinite, non-minimal lengths:
these stay VALID BER, which is what drives the one-directional refinement
against the reference decoder), text-level damage for XER, random strings."""
import os, re, subprocess
from concurrent.futures import ThreadPoolExecutor
from vlib import *


# --------------------------------------------------------------------------
# BER walker (for a VALID definite-length encoding, e.g. the model's DER)

def ber_walk(b, start=0, end=None, depth=0, out=None):
    """list of TLV records (tag_start, len_start, content_start, content_end, constructed, depth)"""
    if out is None:
        out = []
    if end is None:
        end = len(b)
    i = start
    while i < end:
        t0 = i
        first = b[i]
        i += 1
        if first & 0x1f == 0x1f:
            while i < end and b[i] & 0x80:
                i += 1
            i += 1
        if i >= end:
            break
        l0 = i
        lb = b[i]
        i += 1
        if lb < 0x80:
            ln = lb
        elif lb == 0x80:
            break                       # not expected in DER
        else:
            k = lb & 0x7f
            ln = int.from_bytes(b[i:i + k], "big")
            i += k
        c0, c1 = i, i + ln
        if c1 > end:
            break
        cons = bool(first & 0x20)
        out.append((t0, l0, c0, c1, cons, depth))
        if cons:
            ber_walk(b, c0, c1, depth + 1, out)
        i = c1
    return out


def ber_len(n, form=None):
    """length octets; form None = minimal, k>0 = long form with k octets"""
    if form is None:
        if n < 128:
            return bytes([n])
        k = (n.bit_length() + 7) // 8
        return bytes([0x80 | k]) + n.to_bytes(k, "big")
    return bytes([0x80 | form]) + n.to_bytes(form, "big")


def ber_reframe(b, rng, mode):
    """re-serialise a valid DER encoding as another VALID BER encoding of the same value:
    mode 'indef' : every constructed TLV chosen by rng gets indefinite length + end-of-contents
    mode 'long'  : lengths in non-minimal long form
    mode 'mixed' : both, chosen per TLV"""
    def go(start, end):
        out = bytearray()
        i = start
        while i < end:
            first = b[i]
            j = i + 1
            if first & 0x1f == 0x1f:
                while b[j] & 0x80:
                    j += 1
                j += 1
            tagb = b[i:j]
            lb = b[j]
            j += 1
            if lb < 0x80:
                ln = lb
            else:
                k = lb & 0x7f
                ln = int.from_bytes(b[j:j + k], "big")
                j += k
            cons = bool(first & 0x20)
            content = go(j, j + ln) if cons else b[j:j + ln]
            pick = rng.below(3) if mode == "mixed" else (1 if mode == "indef" else 2)
            if cons and pick == 1:
                out += tagb + b"\x80" + content + b"\x00\x00"
            elif pick == 2:
                need = max(1, (len(content).bit_length() + 7) // 8)
                out += tagb + ber_len(len(content), need + rng.below(3)) + content
            else:
                out += tagb + ber_len(len(content)) + content
            i = j + ln
        return bytes(out)
    return go(0, len(b))


LEN_FORMS = [b"\x00", b"\x01", b"\x7f", b"\x80", b"\x81\x00", b"\x81\x7f", b"\x81\x80", b"\x81\xff", b"\x82\xff\xff", b"\x83\x00\x00\x01",
             b"\x84\xff\xff\xff\xff", b"\x84\x7f\xff\xff\xff", b"\x84\x80\x00\x00\x00", b"\x88\x7f\xff\xff\xff\xff\xff\xff\xff",
             b"\x88\xff\xff\xff\xff\xff\xff\xff\xff", b"\x88\x00\x00\x00\x00\x00\x00\x00\x01", b"\x89\x00\x00\x00\x00\x00\x00\x00\x00\x01",
             b"\x89\x01\x00\x00\x00\x00\x00\x00\x00\x00", b"\xff", b"\xfe", b"\x8a\x00\x00\x00\x00\x00\x00\x00\x00\x00\x02"]
TAG_FORMS = [b"\x1f\x05", b"\x1f\x80\x05", b"\x3f\x81\x00", b"\xbf\xff\xff\xff\xff\x7f", b"\x1f\xff\xff\xff\x7f", b"\x1f\x8f\xff\xff\xff\x7f",
             b"\x1f", b"\x1f\x80", b"\x00", b"\xff\x7f", b"\x9f\x87\xff\xff\xff\x7f", b"\x3f\x83\xff\xff\x7f"]


def cap(xs, n, rng):
    xs = list(xs)
    if len(xs) <= n:
        return xs
    return [xs[i] for i in sorted(set(rng.below(len(xs)) for _ in range(n)))]


def mut_truncate(b, rng, every_upto, sample):
    """proper prefixes: every offset when short, else the two ends + a sample"""
    n = len(b)
    if n <= every_upto:
        ks = range(n)
    else:
        ks = sorted(set(list(range(0, every_upto // 2)) + list(range(n - every_upto // 4, n)) + [rng.below(n) for _ in range(sample)]))
    return [("trunc", b[:k]) for k in ks]


def mut_bytes_generic(b, rng, n_flip, n_edit, others):
    """syntax-independent damage"""
    out = []
    n = len(b)
    if n:
        for _ in range(n_flip):
            i, bit = rng.below(n), rng.below(8)
            out.append(("flip", b[:i] + bytes([b[i] ^ (1 << bit)]) + b[i + 1:]))
        for _ in range(n_edit):
            i = rng.below(n)
            op = rng.below(5)
            if op == 0:
                out.append(("ins", b[:i] + bytes([rng.choice([0, 1, 0x7f, 0x80, 0x81, 0xff, rng.below(256)])]) + b[i:]))
            elif op == 1:
                out.append(("del", b[:i] + b[i + 1:]))
            elif op == 2:
                j = min(n, i + 1 + rng.below(4))
                out.append(("dup", b[:j] + b[i:j] + b[j:]))
            elif op == 3:
                out.append(("set", b[:i] + bytes([rng.choice([0, 0x7f, 0x80, 0x81, 0x84, 0x88, 0xff])]) + b[i + 1:]))
            else:
                out.append(("lenform", b[:i] + rng.choice(LEN_FORMS) + b[i + 1:]))
    for o in cap(others, 2, rng):
        if o and n:
            i, j = rng.below(n + 1), rng.below(len(o) + 1)
            out.append(("splice", b[:i] + o[j:]))
    out.append(("append", b + bytes([rng.choice([0, 0xff, rng.below(256)])] * rng.range(1, 3))))
    return out


def mut_ber(b, rng, budget, others):
    """structure-aware damage of a valid DER encoding"""
    out = []
    tlvs = ber_walk(b)
    tl_pos = []
    for (t0, l0, c0, c1, cons, d) in tlvs:
        tl_pos += list(range(t0, c0))
    # every bit of every tag and length octet
    flips = [(i, bit) for i in tl_pos for bit in range(8)]
    for (i, bit) in cap(flips, budget["tlflip"], rng):
        out.append(("tlflip", b[:i] + bytes([b[i] ^ (1 << bit)]) + b[i + 1:]))
    # length field of a TLV replaced by each boundary form
    forms = [(t, f) for t in tlvs for f in LEN_FORMS]
    for (t, f) in cap(forms, budget["lenform"], rng):
        out.append(("lenform", b[:t[1]] + f + b[t[2]:]))
    # length +-1 (with the content unchanged), content dropped, content doubled
    for t in cap(tlvs, budget["lenpm"], rng):
        ln = t[3] - t[2]
        for d in (-1, 1):
            if 0 <= ln + d:
                out.append(("lenpm", b[:t[1]] + ber_len(ln + d) + b[t[2]:]))
        out.append(("nocontent", b[:t[2]] + b[t[3]:]))
        out.append(("dupcontent", b[:t[3]] + b[t[2]:t[3]] + b[t[3]:]))
        out.append(("duptlv", b[:t[3]] + b[t[0]:t[3]] + b[t[3]:]))
        out.append(("deltlv", b[:t[0]] + b[t[3]:]))
    # tag replaced by long-form / overflowing / truncated tags
    forms = [(t, f) for t in tlvs for f in TAG_FORMS]
    for (t, f) in cap(forms, budget["tagform"], rng):
        out.append(("tagform", b[:t[0]] + f + b[t[1]:]))
    # indefinite length without / with damaged end-of-contents
    for t in cap([t for t in tlvs if t[4]], budget["indef"], rng):
        body = b[t[2]:t[3]]
        for k, tail in (("indef-noeoc", b""), ("indef-eoc1", b"\x00"), ("indef-eoclen", b"\x00\x01\x00"), ("indef-ok", b"\x00\x00")):
            out.append((k, b[:t[1]] + b"\x80" + body + tail + b[t[3]:]))
    # primitive TLV with the constructed bit and vice versa
    for t in cap(tlvs, budget["indef"], rng):
        out.append(("consbit", b[:t[0]] + bytes([b[t[0]] ^ 0x20]) + b[t[0] + 1:]))
    # valid re-framings (the reference decoder accepts them)
    for mode in ("indef", "long", "mixed", "mixed"):
        try:
            out.append(("reframe-" + mode, ber_reframe(b, rng, mode)))
        except (IndexError, ValueError):
            pass
    # the same damage applied to a valid re-framing
    try:
        r = ber_reframe(b, rng, "mixed")
        out += [("re+" + k, x) for k, x in mut_bytes_generic(r, rng, budget["generic"] // 2, budget["generic"] // 2, [])]
    except (IndexError, ValueError):
        pass
    out += mut_bytes_generic(b, rng, budget["generic"], budget["generic"], others)
    return out


def mut_oer_uper(b, rng, budget, others):
    out = []
    n = len(b)
    head = min(n, budget["headbytes"])
    flips = [(i, bit) for i in range(head) for bit in range(8)]
    for (i, bit) in cap(flips, budget["tlflip"], rng):
        out.append(("headflip", b[:i] + bytes([b[i] ^ (1 << bit)]) + b[i + 1:]))
    forms = [(i, f) for i in range(n) for f in LEN_FORMS]
    for (i, f) in cap(forms, budget["lenform"], rng):
        out.append(("lenform", b[:i] + f + b[i + 1:]))
    out += mut_bytes_generic(b, rng, budget["generic"], budget["generic"], others)
    return out


XER_BITS = [b"<", b">", b"&", b"&amp;", b"&#x41;", b"&#xFFFFFFFFFF;", b"&#99999999999;", b"&bogus;", b"<!-- c -->", b"<!--", b"<?x?>", b"<![CDATA[x]]>",
            b"\x00", b"\xff\xfe", b" " * 40, b"</", b"/>", b"<a>", b"</a>", b"-", b"99999999999999999999999999", b"<true/>", b"<false/>", b"\n"]


CHARREFS = [b"&#0;", b"&#;", b"&#x;", b"&#x0;", b"&#0000000000000;", b"&#1;", b"&#x1;", b"&#127;", b"&#128;", b"&#xD800;", b"&#x10FFFF;", b"&#x110000;",
            b"&#4294967295;", b"&#4294967296;", b"&#-1;", b"&#+1;", b"&#x", b"&#", b"&#0"]


def mut_xer(b, rng, budget, others):
    out = []
    n = len(b)
    tags = [(m.start(), m.end()) for m in re.finditer(rb"<[^<>]*>", b)]
    for (s, e) in cap(tags, budget["lenpm"], rng):
        out.append(("deltag", b[:s] + b[e:]))
        out.append(("duptag", b[:e] + b[s:e] + b[e:]))
        out.append(("cuttag", b[:e - 1] + b[e:]))
        out.append(("rentag", b[:s + 1] + b"x" + b[s + 1:]))
        if e - s > 3:
            out.append(("selfclose", b[:e - 1] + b"/" + b[e - 1:]))
    for _ in range(budget["lenform"]):
        i = rng.below(n + 1)
        out.append(("xins", b[:i] + rng.choice(XER_BITS) + b[i:]))
    # character references at the boundaries of OS__strtoent (0, no digits, 1, surrogate, > 0x10FFFF, overflow,
    # sign) put where element TEXT is: directly behind a tag
    spots = [(e, f) for (s_, e) in tags for f in CHARREFS]
    for (e, f) in cap(spots, budget["lenform"], rng):
        out.append(("charref", b[:e] + f + b[e:]))
    out += mut_bytes_generic(b, rng, budget["generic"], budget["generic"], others)
    return out


def random_strings(rng, n, first=None):
    out = []
    for _ in range(n):
        ln = rng.choice([0, 1, 2, 3, 4, 5, 8, 13, 21, 40])
        s = rng.bytes(ln)
        if first and ln and rng.chance(1, 2):
            s = first[:1 + rng.below(2)] + s[1:]
        out.append(("random", s))
    return out


# --------------------------------------------------------------------------
# parallel runner: several processes of the same moddrv; a dying process is a
# result ("CRASH") for the line that killed it, the rest of the chunk goes on

def _run_raw(exe, lines, timeout):
    """-> (rc, complete output lines, stderr tail); a partial last line (process died while printing) is dropped"""
    data = ("\n".join(lines) + "\n").encode()
    try:
        p = subprocess.run([exe], input=data, stdout=subprocess.PIPE, stderr=subprocess.PIPE, timeout=timeout, env=SAN_ENV)
        rc, so, se = p.returncode, p.stdout, p.stderr
    except subprocess.TimeoutExpired as e:
        rc, so, se = -999, e.stdout or b"", (e.stderr or b"") + b"\nTIMEOUT after %ds (python-level guard)" % timeout
    so = so.decode("latin-1")
    out = so.split("\n")
    out.pop()                      # "" after the last newline, or the partial line
    return rc, out, se.decode("latin-1", "replace")[-6000:]


# a tree that is broken badly kills the driver on thousands of lines; each death costs a sanitizer report and a new
# process.  After this many deaths in one chunk the rest of the chunk is not run (reported as such): the check
# has long failed by then, and a seeded-change run ends in minutes instead of a quarter of an hour
MAX_DEATHS_PER_CHUNK = 400      # default; the extensible-type and leaf layers (no known crash findings there) pass 40


def _run_chunk(exe, lines, timeout, max_deaths=MAX_DEATHS_PER_CHUNK):
    outs = []
    errs = {}
    pos = 0
    guard = 0
    while pos < len(lines) and guard < max_deaths:
        guard += 1
        chunk = lines[pos:]
        rc, out, err = _run_raw(exe, chunk, timeout)
        if rc == 0 and len(out) == len(chunk):
            outs += out
            pos += len(chunk)
            break
        if len(out) >= len(chunk):
            # every line answered but the exit status is bad: a leak report at exit (LSan)
            outs += out[:len(chunk)]
            errs[pos + len(chunk) - 1] = ("EXIT", rc, err)
            outs[-1] = outs[-1] + " ATEXIT"
            pos += len(chunk)
            break
        outs += out
        k = pos + len(out)
        errs[k] = ("CRASH", rc, err)
        outs.append("CRASH")
        pos = k + 1
    while len(outs) < len(lines):
        outs.append("CRASH")
        errs.setdefault(len(outs) - 1, ("CRASH", -1, "too many process deaths in one chunk; not run"))
    return outs, errs


def run_many(jobs, nproc=None, timeout=150, per_chunk=80, max_deaths=MAX_DEATHS_PER_CHUNK):
    """jobs = [(exe, lines)]; all chunks of all jobs share one pool of processes.
    Returns [(outputs, {index: (kind, rc, stderr tail)})] in the order of jobs"""
    nproc = nproc or NCPU
    tasks = []
    for j, (exe, lines) in enumerate(jobs):
        n = len(lines)
        if n == 0:
            continue
        size = max(per_chunk, (n + nproc - 1) // nproc)
        for i in range(0, n, size):
            tasks.append((j, i, exe, lines[i:i + size]))
    res = [([None] * len(lines), {}) for (exe, lines) in jobs]
    with ThreadPoolExecutor(max_workers=nproc) as ex:
        futs = [(j, i, ex.submit(_run_chunk, exe, ch, timeout, max_deaths)) for (j, i, exe, ch) in tasks]
        for j, i, f in futs:
            o, e = f.result()
            res[j][0][i:i + len(o)] = o
            for k, v in e.items():
                res[j][1][i + k] = v
    return res


def run_par(exe, lines, nproc=None, timeout=150):
    """returns (outputs, {index: (kind, rc, stderr tail)})"""
    return run_many([(exe, lines)], nproc, timeout)[0]


def model_par(model, lines, nproc=None, timeout=900):
    """the extracted model on many lines, several processes"""
    if not lines:
        return []
    nproc = nproc or NCPU
    nproc = max(1, min(nproc, (len(lines) + 99) // 100))
    size = (len(lines) + nproc - 1) // nproc
    chunks = [lines[i:i + size] for i in range(0, len(lines), size)]

    # a bounded stack (64 MB) on purpose: the extracted decoders turn an OER quantity into a unary nat before
    # looping (Z.to_nat), so a 5-octet quantity would otherwise eat the machine; the driver answers
    # "EXN Stack overflow" for such a line (no statement about that input) and goes on
    cmd = ["bash", "-c", "ulimit -s 65536; exec %s" % model]

    def one(ch):
        p = subprocess.run(cmd, input=("\n".join(ch) + "\n").encode(), stdout=subprocess.PIPE, stderr=subprocess.PIPE, timeout=timeout)
        out = p.stdout.decode("latin-1").split("\n")
        out.pop()
        if p.returncode != 0 or len(out) != len(ch):
            raise RuntimeError("model driver failed: rc=%s %d/%d %s" % (p.returncode, len(out), len(ch), p.stderr.decode("latin-1")[-500:]))
        return out
    res = []
    with ThreadPoolExecutor(max_workers=nproc) as ex:
        for o in ex.map(one, chunks):
            res += o
    return res


def model_guarded(model, lines, cpu=2, mem_mb=1500, nproc=None):
    """the extracted model on lines whose cost is NOT bounded by the input length (a zero-size element repeated
    `count` times: theorem C04_items_zero_progress): one process per line under CPU and address-space limits;
    the answer is "LIMIT" when the limit is hit"""
    # (limits through the shell: preexec_fn is not safe in a threaded parent)
    cmd = ["bash", "-c", "ulimit -t %d; ulimit -v %d; ulimit -s %d; exec %s" % (cpu, mem_mb * 1024, 64 * 1024, model)]

    def one(l):
        try:
            p = subprocess.run(cmd, input=(l + "\n").encode(), stdout=subprocess.PIPE, stderr=subprocess.DEVNULL, timeout=cpu * 10 + 10)
        except subprocess.TimeoutExpired:
            return "LIMIT"
        out = p.stdout.decode("latin-1").split("\n")
        if p.returncode != 0 or len(out) < 2:
            return "LIMIT"
        return out[0]
    if not lines:
        return []
    with ThreadPoolExecutor(max_workers=nproc or NCPU) as ex:
        return list(ex.map(one, lines))


D4 = re.compile(r"^(OK|MORE|FAIL|RC\?) (\d+) (\S+) ck=(-?\d+) re=(\S+) live=(-?\d+)(?: slack=(\S+))?( ATEXIT)?$")


def parse_d4(o):
    m = D4.match(o)
    if not m:
        return None
    return {"rc": m.group(1), "consumed": int(m.group(2)), "der": m.group(3), "ck": int(m.group(4)), "re": m.group(5), "live": int(m.group(6)),
            "slack": m.group(7)}


def stack_site(err):
    """innermost frames of a sanitizer report that lie in the skeletons / generated code"""
    fr = re.findall(r"#\d+ 0x[0-9a-f]+ in (\w+) [^\n]*?/([\w.-]+\.[ch]):(\d+)", err or "")
    return ["%s@%s:%s" % f for f in fr[:8]]


# --------------------------------------------------------------------------
# classifier support: the TLVs of an input the reference decoder ACCEPTED, walked
# along the model tree (same chain notion as b-c03's lib/c03_util.py:Plan.walk:
# the TLVs whose tags one ber_check_tags call handles = the EXPLICIT wrappers of a
# type with the type's own TLV; a CHOICE ends the chain; members, alternatives and
# elements start a new one)

class BNode:
    __slots__ = ("tag", "cons", "form", "content", "kids", "tree", "end", "hdr", "cons_raw")


def parse_ber_any(b, pos, depth=0):
    """one TLV (definite or indefinite) at b[pos:] -> BNode; raises on malformed input"""
    if depth > 200:
        raise ValueError("too deep")
    n = BNode()
    first = b[pos]
    p = pos + 1
    num = first & 31
    if num == 31:
        num = 0
        while True:
            o = b[p]
            p += 1
            num = num * 128 + (o & 127)
            if o < 128:
                break
    n.tag, n.cons, n.kids, n.tree = num * 4 + (first >> 6), bool(first & 32), [], None
    l = b[p]
    p += 1
    if l == 0x80 and n.cons:
        n.form = "i"
        while not (b[p] == 0 and b[p + 1] == 0):
            kid = parse_ber_any(b, p, depth + 1)
            n.kids.append(kid)
            p = kid.end
        n.content = None
        n.end = p + 2
        return n
    if l >= 128:
        k = l - 128
        l = int.from_bytes(b[p:p + k], "big")
        p += k
    if p + l > len(b):
        raise ValueError("TLV exceeds buffer")
    n.form, n.content, n.end = "d", bytes(b[p:p + l]), p + l
    if n.cons:
        q = p
        while q < p + l:
            kid = parse_ber_any(b, q, depth + 1)
            n.kids.append(kid)
            q = kid.end
    return n


class BerAccepted:
    """chains and typed nodes of an accepted BER input"""

    def __init__(self, tree, data):
        from modgen import first_tags
        self.ft = first_tags
        self.root = parse_ber_any(data, 0)
        self.chains = []
        self.typed = []          # (model tree node, BNode) for every primitive-typed TLV
        self.lists = []          # (model tree node, BNode) for every SEQUENCE OF / SET OF TLV
        self.walk(tree, self.root, self.new_chain())

    def new_chain(self):
        self.chains.append([])
        return len(self.chains) - 1

    def walk(self, tree, node, chain):
        k = tree[0]
        if k == "?":
            return self.walk(tree[1], node, chain)
        if k == "c":
            for a in tree[1]:
                if node.tag in self.ft(a):
                    return self.walk(a, node, self.new_chain())
            raise ValueError("no alternative")
        if node.tag != tree[1]:
            raise ValueError("tag mismatch")
        node.tree = tree
        self.chains[chain].append(node)
        if k == "x":
            self.walk(tree[2], node.kids[0], chain)
        elif k == "s":
            i = 0
            for m in tree[2]:
                if m[0] == "?" and not (i < len(node.kids) and node.kids[i].tag in self.ft(m)):
                    continue
                self.walk(m, node.kids[i], self.new_chain())
                i += 1
        elif k in ("q", "t"):
            self.lists.append((tree, node))
            for kid in node.kids:
                self.walk(tree[3], kid, self.new_chain())
        else:
            self.typed.append((tree, node))

    def mixed_chains(self):
        return [c for c in self.chains if len(c) >= 2 and len(set(n.form for n in c)) == 2]

    def lists_above_bound(self):
        """SEQUENCE OF / SET OF values with more elements than the upper bound of a non-extensible SIZE constraint"""
        return [(t, n) for (t, n) in self.lists if t[2][1] is not None and not t[2][2] and len(n.kids) > t[2][1]]

    def ints_above_bound(self):
        """unsigned-native INTEGER values above the upper bound of their (non-extensible) constraint"""
        return [(t, n) for (t, n) in self.typed if t[0] == "i" and int_unsigned_native(t) and t[3] is not None and not t[4]
                and n.content and int.from_bytes(n.content, "big", signed=True) > t[3]]

    def out_of_constraint(self):
        """primitive values outside a non-extensible PER-visible constraint (what a UPER encoder must refuse)"""
        bad = []
        for (t, n) in self.typed:
            if n.content is None:
                continue
            if t[0] == "o" and not t[4] and not (t[2] <= len(n.content) and (t[3] is None or len(n.content) <= t[3])):
                bad.append((t, n))
            if t[0] == "i" and not t[4] and n.content:
                z = int.from_bytes(n.content, "big", signed=True)
                if (t[2] is not None and z < t[2]) or (t[3] is not None and z > t[3]):
                    bad.append((t, n))
        return bad + self.lists_above_bound()

    def negative_in_unsigned(self):
        return [(t, n) for (t, n) in self.typed if t[0] == "i" and int_unsigned_native(t) and n.content and n.content[0] >= 0x80]


def int_unsigned_native(t):
    """asn1c_type_fits_long == FL_FITS_UNSIGN: the C member is an unsigned long"""
    lo, hi, ext = t[2], t[3], t[4]
    if lo is None or lo < 0:
        return False
    if hi is None:
        return lo <= 2147483647
    return 2147483647 < hi <= 4294967295


def tree_any(tree, pred):
    k = tree[0]
    if pred(tree):
        return True
    if k == "s":
        return any(tree_any(m, pred) for m in tree[2])
    if k == "c":
        return any(tree_any(m, pred) for m in tree[1])
    if k in ("q", "t"):
        return tree_any(tree[3], pred)
    if k in ("x", "?"):
        return tree_any(tree[-1], pred)
    return False


def has_unsigned_native(tree):
    return tree_any(tree, lambda t: t[0] == "i" and int_unsigned_native(t))


def zero_size_elem_list(tree, syn):
    """SEQUENCE OF / SET OF whose element can be encoded in zero octets (OER) / zero bits (UPER)"""
    def zero(t):
        k = t[0]
        if k == "n":
            return True
        if k == "o":
            return t[2] == 0 and t[3] == 0 and not t[4]
        if k == "i":
            return syn == "uper" and t[2] is not None and t[2] == t[3] and not t[4]
        if k == "s":
            return all(m[0] != "?" and zero(m) for m in t[2]) and (syn == "uper" or True)
        if k == "x":
            return zero(t[2])
        if k == "c":
            return syn == "uper" and len(t[1]) == 1 and zero(t[1][0])
        if k in ("q", "t"):
            return syn == "uper" and t[2][0] == 0 and t[2][1] == 0 and not t[2][2]
        return False
    return tree_any(tree, lambda t: t[0] in ("q", "t") and zero(t[3]))


def val_parse(s, pos=0):
    """value string of ocaml/drv_rt.ml -> (nested tuple, next position)"""
    c = s[pos]
    if c in "TFN_":
        return (c,), pos + 1
    if c in "IO":
        j = s.index(";", pos)
        return (c, s[pos + 1:j]), j + 1
    if c in "SL":
        pos += 2
        kids = []
        while s[pos] != "}":
            k, pos = val_parse(s, pos)
            kids.append(k)
        return (c, tuple(kids)), pos + 1
    if c == "C":
        j = s.index(":", pos)
        k, p2 = val_parse(s, j + 1)
        return ("C", s[pos + 1:j], k), p2
    if c == "!":
        k, p2 = val_parse(s, pos + 1)
        return ("!", k), p2
    raise ValueError("value syntax at %d" % pos)


def long_uniform_list(vs, n=200):
    """the value holds a list of more than n elements that are all the same (what a zero-size element decodes to)"""
    try:
        v, _ = val_parse(vs)
    except (ValueError, IndexError, RecursionError):
        return False
    stack = [v]
    while stack:
        x = stack.pop()
        if x[0] == "L" and len(x[1]) > n and len(set(x[1])) == 1:
            return True
        if x[0] in ("S", "L"):
            stack.extend(x[1])
        elif x[0] == "C":
            stack.append(x[2])
        elif x[0] == "!":
            stack.append(x[1])
    return False
