"""c10_regions — generators for the regions of C10's input space that the first corpus under-sampled:

  P  parameterized types: template body x parameter kinds (type, value, value set) x ACTUAL parameters with every
     constraint shape x instantiation site (member, assignment, OF element, nested, through another template,
     across modules) x the same template instantiated twice with equal / different / constraint-only-different actuals;
  M  multi-module inputs: 2-3 modules, in one or several files, every file order, IMPORTS chains and cycles,
     same-named types and values in several modules, type names equal to skeleton file names;
  G  one directed module per construct family of the parser grammar (libasn1parser/asn1p_y.y), see GRAMMAR_FAMILIES.

Every module is a dict {name, text, origin, expect, [files], [sites], [nmods], [family]}.
  files  [(file name, text)] in command-line order (absent: one file <name>.asn1);
  sites  parameterized-type instantiation sites for the specialization tie: [(carrier type, member C name, template,
         serialised actual parameter list)] - the model (coq/Fix/ParamSpec.v) predicts the specialization index;
  nmods  [(module name, [(identifier, is_type)])] in command-line order for the file-set tie (coq/Fix/FileSet.v).
Directed cases first (every value of every dimension at least once), random combinations after."""
import re

# ------------------------------------------------------------------------------------------------ actual parameters
# An actual parameter is a small AST with two renderings: ASN.1 text, and the token string of the model's [pexpr]
# (coq/Fix/ParamSpec.v), which mirrors the fields asn1p_expr_compare() looks at - and the two it does not
# (constraints, the nested actual parameter list).
#   ("t", base, named, constr)      builtin type, e.g. INTEGER {a(1)} (0..7)
#   ("r", name, constr)             type reference with an optional constraint
#   ("i", template, [actuals])      nested instantiation  P {BOOLEAN}
#   ("v", kind, payload)            value: int / ref / bool / str / null
#   ("s", kw, [(id, actual)])       SEQUENCE / SET / CHOICE { ... }
#   ("o", kw, size, actual)         SEQUENCE / SET [size constraint] OF element

META = {"TYPE": 1, "TYPEREF": 2, "VALUE": 3, "VALUESET": 4}
ETYPE = {"REFERENCE": 1, "UNIVERVAL": 2, "VALUESET": 3, "BOOLEAN": 10, "NULL": 11, "INTEGER": 12, "REAL": 13, "ENUMERATED": 14, "BIT STRING": 15,
         "OCTET STRING": 16, "OBJECT IDENTIFIER": 17, "SEQUENCE": 18, "SET": 19, "CHOICE": 20, "SEQUENCE OF": 21, "SET OF": 22,
         "IA5String": 30, "UTF8String": 31, "PrintableString": 32, "NumericString": 33, "VisibleString": 34, "BMPString": 35,
         "UniversalString": 36, "GeneralizedTime": 37, "UTCTime": 38, "RELATIVE-OID": 39}


def a_text(a):
    k = a[0]
    if k == "t":
        _, base, named, c = a
        s = base
        if named:
            s += " { %s }" % ", ".join(("%s(%d)" % (n, v)) if v is not None else n for n, v in named)
        return s + (" " + c if c else "")
    if k == "r":
        return a[1] + (" " + a[2] if a[2] else "")
    if k == "i":
        return "%s {%s}" % (a[1], ", ".join(a_text(x) for x in a[2]))
    if k == "v":
        _, kind, p = a
        return {"int": lambda: str(p), "ref": lambda: p, "bool": lambda: "TRUE" if p else "FALSE", "str": lambda: '"%s"' % p, "null": lambda: "NULL", "hstr": lambda: "'%s'H" % p}[kind]()
    if k == "s":
        return "%s { %s }" % (a[1], ", ".join("%s %s" % (i, a_text(x)) for i, x in a[2]))
    if k == "o":
        return "%s %sOF %s" % (a[1], (a[2] + " ") if a[2] else "", a_text(a[3]))
    raise ValueError(a)


def a_keytext(a):
    """what asn1p_expr_compare can see of an actual parameter: the text without subtype constraints and without nested
    actual parameter lists (the predicate of finding C10-param-actuals-compared-shallowly is: same key text, other text)"""
    k = a[0]
    if k == "t":
        return a_text(("t", a[1], a[2], None))
    if k == "r":
        return a[1]
    if k == "i":
        return a[1] + " {..}"
    if k == "v":
        return a_text(a)
    if k == "s":
        return "%s { %s }" % (a[1], ", ".join("%s %s" % (i, a_keytext(x)) for i, x in a[2]))
    if k == "o":
        return "%s OF %s" % (a[1], a_keytext(a[3]))
    raise ValueError(a)


def hexs(s):
    return s.encode().hex() if s else "-"


def a_model(a, modidx=0):
    """token list of the model's pexpr: E meta etype ident ref value constr npspecs pspecs... nmembers members...
    (tag and marker are always absent on an actual parameter produced by these generators: UntaggedType)"""
    k = a[0]

    def E(meta, et, ident, ref, val, constr, pspecs, members):
        out = ["E", str(META[meta]), str(ETYPE[et]), hexs(ident) if ident is not None else "-"]
        out += (["R", str(modidx), str(len(ref))] + [hexs(c) for c in ref]) if ref else ["-"]
        out += val if val else ["-"]
        out += [hexs(constr) if constr else "-"]
        out += [str(len(pspecs))] + [t for p in pspecs for t in a_model(p, modidx)]
        out += [str(len(members))] + [t for m in members for t in m]
        return out

    if k == "t":
        _, base, named, c = a
        ms = []
        for n, v in named or []:
            # NamedNumber / enumeration item: an AMT_VALUE member carrying the identifier and (when given) the number
            ms.append(E("VALUE", "UNIVERVAL", n, None, ["I", str(v)] if v is not None else None, None, [], []))
        return E("TYPE", base, None, None, None, c, [], ms)
    if k == "r":
        return E("TYPEREF", "REFERENCE", None, [a[1]], None, a[2], [], [])
    if k == "i":
        return E("TYPEREF", "REFERENCE", None, [a[1]], None, None, a[2], [])
    if k == "v":
        _, kind, p = a
        val = {"int": lambda: ["I", str(p)], "ref": lambda: ["F", str(modidx), "1", hexs(p)], "bool": lambda: ["T"] if p else ["X"],
               "str": lambda: ["S", hexs(p)], "null": lambda: ["N"], "hstr": lambda: ["S", hexs("'%s'H" % p)]}[kind]()
        return E("VALUE", "REFERENCE", "?", None, val, None, [], [])
    if k == "s":
        ms = []
        for i, x in a[2]:
            t = a_model(x, modidx)
            t[3] = hexs(i)            # the component's identifier
            ms.append(t)
        return E("TYPE", a[1], None, None, None, None, [], ms)
    if k == "o":
        return E("TYPE", a[1] + " OF", None, None, None, a[2], [], [a_model(a[3], modidx)])
    raise ValueError(a)


def alist_model(actuals, modidx=0):
    """the rhs_pspecs wrapper: an expression with every scalar field unset whose members are the actual parameters"""
    return " ".join(["L", str(len(actuals))] + [t for a in actuals for t in a_model(a, modidx)])


# constraint shapes per base-type family (label, text); "" = unconstrained.  Every shape of the constraint grammar that
# may be attached to an actual type parameter appears at least once (SubtypeElements, Unions, Intersections, EXCEPT,
# extension marker, SIZE, FROM, their combinations, serial application, references to values and types).
C_INT = [("none", ""), ("value", "(5)"), ("range", "(0..7)"), ("range2", "(0..255)"), ("neg", "(-8..7)"), ("min", "(MIN..0)"), ("max", "(0..MAX)"),
         ("ext", "(0..7, ...)"), ("extadd", "(0..7, ..., 9..12)"), ("union", "(1 | 3 | 5)"), ("uranges", "(0..3 | 8..11)"), ("inter", "(0..7 ^ 3..9)"),
         ("except", "(0..9 EXCEPT 5)"), ("allexcept", "(ALL EXCEPT 3)"), ("serial", "(0..100) (5..9)"), ("valref", "(0..five)"), ("includes", "(INCLUDES Small)"),
         ("wide", "(0..4294967295)")]
C_STR = [("none", ""), ("size", "(SIZE(4))"), ("sizerange", "(SIZE(1..8))"), ("sizeext", "(SIZE(1..8, ...))"), ("sizeunion", "(SIZE(1 | 3..5))"),
         ("sizemax", "(SIZE(0..MAX))"), ("from", "(FROM(\"a\"..\"z\"))"), ("fromset", "(FROM(\"ab\"))"), ("fromunion", "(FROM(\"a\"..\"f\" | \"0\"..\"9\"))"),
         ("sizefrom", "(SIZE(1..4) ^ FROM(\"ab\"))"), ("serial", "(SIZE(1..8)) (FROM(\"a\"..\"z\"))"), ("value", "(\"ab\" | \"cd\")")]
C_OCT = [("none", ""), ("size", "(SIZE(4))"), ("sizerange", "(SIZE(1..8))"), ("sizeext", "(SIZE(0..3, ...))"), ("sizeunion", "(SIZE(1 | 3))"),
         ("containing", "(CONTAINING Small)"), ("big", "(SIZE(0..65536))")]
C_BITS = [("none", ""), ("size", "(SIZE(8))"), ("sizerange", "(SIZE(1..16))")]
C_OF = [("none", ""), ("size", "(SIZE(2))"), ("sizerange", "(SIZE(1..3))"), ("sizeext", "(SIZE(0..3, ...))")]
C_REAL = [("none", ""), ("range", "(0..10)")]
C_SEQREF = [("none", ""), ("withc", "(WITH COMPONENTS { a PRESENT })"), ("withcp", "(WITH COMPONENTS { ..., a (0..5) })")]

STR_BASES = ["IA5String", "UTF8String", "PrintableString", "VisibleString", "NumericString", "BMPString", "UniversalString"]


def typed_actuals():
    """every (base type, constraint shape) pair once: [(label, actual)]"""
    out = []
    for lab, c in C_INT:
        out.append(("INTEGER/" + lab, ("t", "INTEGER", None, c or None)))
    for lab, c in C_STR:
        out.append(("IA5String/" + lab, ("t", "IA5String", None, c or None)))
    for b in STR_BASES[1:]:
        c = "(FROM(\"0\"..\"9\"))" if b == "NumericString" else "(SIZE(1..8))"
        out.append((b + "/none", ("t", b, None, None)))
        out.append((b + "/c", ("t", b, None, c)))
    for lab, c in C_OCT:
        out.append(("OCTET STRING/" + lab, ("t", "OCTET STRING", None, c or None)))
    for lab, c in C_BITS:
        out.append(("BIT STRING/" + lab, ("t", "BIT STRING", None, c or None)))
    out.append(("BIT STRING/named", ("t", "BIT STRING", [("f", 0), ("g", 3)], None)))
    out.append(("BIT STRING/named+size", ("t", "BIT STRING", [("f", 0), ("g", 3)], "(SIZE(4))")))
    for lab, c in C_REAL:
        out.append(("REAL/" + lab, ("t", "REAL", None, c or None)))
    out.append(("BOOLEAN/none", ("t", "BOOLEAN", None, None)))
    out.append(("BOOLEAN/value", ("t", "BOOLEAN", None, "(TRUE)")))
    # ("NULL" as an actual parameter parses as the VALUE NULL: finding C10-param-null-actual-assert, module PaNullActual)
    out.append(("OBJECT IDENTIFIER/none", ("t", "OBJECT IDENTIFIER", None, None)))
    out.append(("RELATIVE-OID/none", ("t", "RELATIVE-OID", None, None)))
    out.append(("GeneralizedTime/none", ("t", "GeneralizedTime", None, None)))
    out.append(("UTCTime/none", ("t", "UTCTime", None, None)))
    out.append(("INTEGER/named", ("t", "INTEGER", [("one", 1), ("two", 2)], None)))
    out.append(("INTEGER/named+range", ("t", "INTEGER", [("one", 1), ("two", 2)], "(0..3)")))
    out.append(("ENUMERATED/plain", ("t", "ENUMERATED", [("red", None), ("green", None)], None)))
    out.append(("ENUMERATED/valued", ("t", "ENUMERATED", [("lo", 1), ("hi", 9)], None)))
    out.append(("SEQUENCE/anon", ("s", "SEQUENCE", [("x", ("t", "INTEGER", None, None)), ("y", ("t", "BOOLEAN", None, None))])))
    out.append(("SEQUENCE/anon-constr", ("s", "SEQUENCE", [("x", ("t", "INTEGER", None, "(0..7)"))])))
    out.append(("SET/anon", ("s", "SET", [("x", ("t", "INTEGER", None, None)), ("y", ("t", "BOOLEAN", None, None))])))
    out.append(("CHOICE/anon", ("s", "CHOICE", [("x", ("t", "INTEGER", None, None)), ("y", ("t", "BOOLEAN", None, None))])))
    for lab, c in C_OF:
        out.append(("SEQUENCE OF/" + lab, ("o", "SEQUENCE", c or None, ("t", "INTEGER", None, None))))
    out.append(("SET OF/none", ("o", "SET", None, ("t", "BOOLEAN", None, None))))
    out.append(("SEQUENCE OF/elconstr", ("o", "SEQUENCE", None, ("t", "INTEGER", None, "(0..7)"))))
    out.append(("ref/Small", ("r", "Small", None)))
    out.append(("ref/Small+range", ("r", "Small", "(0..3)")))
    out.append(("ref/Str", ("r", "Str", None)))
    out.append(("ref/Str+size", ("r", "Str", "(SIZE(2))")))
    out.append(("ref/Str+from", ("r", "Str", "(FROM(\"a\"..\"c\"))")))
    for lab, c in C_SEQREF:
        out.append(("ref/Rec/" + lab, ("r", "Rec", c or None)))
    out.append(("ref/Col", ("r", "Col", None)))
    out.append(("ref/Col+size", ("r", "Col", "(SIZE(1))")))
    out.append(("ref/Alt", ("r", "Alt", None)))
    out.append(("ref/Enum", ("r", "Enum", None)))
    return out


SUPPORT = """  Small ::= INTEGER (0..7)
  Str ::= IA5String (SIZE(1..8))
  Rec ::= SEQUENCE { a INTEGER OPTIONAL, b BOOLEAN OPTIONAL }
  Col ::= SEQUENCE OF INTEGER
  Alt ::= CHOICE { i INTEGER, b BOOLEAN }
  Enum ::= ENUMERATED { e0, e1 }
  five INTEGER ::= 5
  eight INTEGER ::= 8
"""

# template bodies over one type parameter T: (label, body text)
T_BODIES = [("seq", "SEQUENCE { a T }"), ("seqopt", "SEQUENCE { a T, b T OPTIONAL }"), ("choice", "CHOICE { a T, n NULL }"),
            ("set", "SET { a [0] T, b [1] BOOLEAN }"), ("seqof", "SEQUENCE OF T"), ("setofsize", "SET (SIZE(0..3)) OF T"),
            ("tagged", "[APPLICATION 7] SEQUENCE { a [0] EXPLICIT T, b [1] T OPTIONAL }"), ("ext", "SEQUENCE { a T, ..., b T OPTIONAL }"),
            ("deep", "SEQUENCE { a SEQUENCE { b SET OF T } }"), ("alias", "T")]


def cident(s):
    return re.sub(r"[^A-Za-z0-9]", "_", s)


def mk(name, body, origin, tagging="AUTOMATIC", **kw):
    d = {"name": name, "text": "%s DEFINITIONS %s ::= BEGIN\n%s\nEND\n" % (name, (tagging + " TAGS") if tagging else "", body),
         "origin": origin, "expect": "valid"}
    d.update(kw)
    return d


def alist_text(acts):
    # "{1, 10}" is lexed as a character-string tuple (refused with a parse error): two numbers are written "1 , 10"
    return (" , " if all(a[0] == "v" for a in acts) else ", ").join(a_text(a) for a in acts)


def site(carrier_name, member, tmpl, acts, modidx=0):
    """one instantiation site: where its C type is found (member of the carrier's struct), the template, the model's
    token string of the actual parameter list, its full text and its key text, the index of the referencing module"""
    return {"carrier": carrier_name, "member": member, "tmpl": tmpl, "model": alist_model(acts, modidx),
            "text": ", ".join(a_text(a) for a in acts), "key": ", ".join(a_keytext(a) for a in acts), "mod": modidx}


def carrier(tmpl, nparams_actuals, name="Use", modidx=0):
    """Use ::= SEQUENCE { s0 P {..}, s1 P {..}, ... } and the specialization sites"""
    ms, sites = [], []
    for i, acts in enumerate(nparams_actuals):
        ms.append("s%d %s {%s}" % (i, tmpl, alist_text(acts)))
        sites.append(site(name, "s%d" % i, tmpl, acts, modidx))
    return "  %s ::= SEQUENCE { %s }\n" % (name, ", ".join(ms)), sites


def param_directed():
    """directed parameterized-type modules: every (base, constraint shape) actual, every template body, every site kind,
    twice-instantiated with equal / different / constraint-only-different actuals, value and value-set parameters"""
    mods = []
    acts = typed_actuals()
    # 1. every actual-parameter shape through the plain template, 6 per module (keeps asn1c's work per module small),
    #    each used TWICE: once alone, once again later (equal actuals must reuse the specialization)
    for b in range(0, len(acts), 6):
        chunk = acts[b:b + 6]
        lists = [[a] for _, a in chunk] + [[chunk[0][1]]]
        body, sites = carrier("P", lists)
        mods.append(mk("PaShape%d" % (b // 6), SUPPORT + "  P {T} ::= SEQUENCE { a T }\n" + body, "param", sites=sites,
                       labels=[l for l, _ in chunk]))
    # 2. every template body x a small set of actuals covering each constraint family
    probe = [("t", "INTEGER", None, "(0..7)"), ("t", "IA5String", None, "(SIZE(1..8))"), ("t", "OCTET STRING", None, None),
             ("r", "Small", None), ("t", "INTEGER", None, "(1 | 3 | 5)"), ("t", "BOOLEAN", None, None)]
    for lab, tb in T_BODIES:
        body, sites = carrier("P", [[a] for a in probe])
        mods.append(mk("PaBody" + lab.capitalize(), SUPPORT + "  P {T} ::= %s\n" % tb + body, "param", sites=sites))
    # 3. the same template twice: equal, different base, constraint-only-different (ranges, SIZE, FROM, union), nested lists
    tw = [[("t", "INTEGER", None, "(0..7)")], [("t", "INTEGER", None, "(0..7)")], [("t", "INTEGER", None, "(0..255)")], [("t", "INTEGER", None, None)],
          [("t", "IA5String", None, "(SIZE(1..8))")], [("t", "IA5String", None, "(SIZE(1..8))")], [("t", "IA5String", None, "(SIZE(2))")],
          [("t", "IA5String", None, "(FROM(\"a\"..\"z\"))")], [("t", "INTEGER", None, "(1 | 3 | 5)")], [("t", "BOOLEAN", None, None)], [("t", "INTEGER", None, "(0..7)")]]
    body, sites = carrier("P", tw)
    mods.append(mk("PaTwice", SUPPORT + "  P {T} ::= SEQUENCE { a T }\n" + body + "  B ::= P {INTEGER (0..7)}\n  C ::= P {INTEGER (0..255)}\n  D ::= P {IA5String (SIZE(1..8))}\n",
                   "param", sites=sites))
    # 4. two and three parameters; the lists differ in one position only
    l2 = [[("t", "INTEGER", None, None), ("t", "BOOLEAN", None, None)], [("t", "BOOLEAN", None, None), ("t", "INTEGER", None, None)],
          [("t", "INTEGER", None, None), ("t", "BOOLEAN", None, None)], [("t", "INTEGER", None, "(0..7)"), ("t", "BOOLEAN", None, None)],
          [("r", "Small", None), ("r", "Str", "(SIZE(2))")], [("r", "Small", None), ("r", "Str", None)]]
    body, sites = carrier("P", l2)
    mods.append(mk("PaTwoParams", SUPPORT + "  P {T, U} ::= SEQUENCE { a T, b U, c SEQUENCE OF T }\n" + body, "param", sites=sites))
    l3 = [[("t", "INTEGER", None, None), ("v", "int", 4), ("t", "BOOLEAN", None, None)], [("t", "INTEGER", None, None), ("v", "int", 5), ("t", "BOOLEAN", None, None)],
          [("t", "INTEGER", None, None), ("v", "int", 4), ("t", "BOOLEAN", None, None)]]
    body, sites = carrier("P", l3)
    mods.append(mk("PaThreeParams", SUPPORT + "  P {T, INTEGER:n, U} ::= SEQUENCE { a SEQUENCE (SIZE(1..n)) OF T, b U }\n" + body, "param", sites=sites))
    # 5. value parameters: literal, reference, equal literal twice, literal equal to the referenced value, negative, zero
    lv = [[("v", "int", 4)], [("v", "ref", "five")], [("v", "int", 4)], [("v", "int", 5)], [("v", "int", 1)], [("v", "ref", "eight")], [("v", "ref", "five")]]
    for lab, tb in [("Size", "SEQUENCE (SIZE(1..n)) OF BOOLEAN"), ("Range", "INTEGER (0..n)"), ("Member", "SEQUENCE { a INTEGER (0..n), b OCTET STRING (SIZE(n)) }"),
                    ("Default", "SEQUENCE { a INTEGER DEFAULT n, b BOOLEAN }")]:
        body, sites = carrier("P", lv)
        mods.append(mk("PaValue" + lab, SUPPORT + "  P {INTEGER:n} ::= %s\n" % tb + body, "param", sites=sites))
    lv2 = [[("v", "int", 1), ("v", "int", 10)], [("v", "int", -5), ("v", "ref", "five")], [("v", "int", 1), ("v", "int", 10)], [("v", "int", 0), ("v", "int", 0)]]
    body, sites = carrier("Q", lv2)
    mods.append(mk("PaValueTwo", SUPPORT + "  Q {INTEGER:lo, INTEGER:hi} ::= INTEGER (lo..hi)\n" + body, "param", sites=sites))
    lb = [[("v", "bool", True)], [("v", "bool", False)], [("v", "bool", True)]]
    body, sites = carrier("P", lb)
    mods.append(mk("PaValueBool", SUPPORT + "  P {BOOLEAN:d} ::= SEQUENCE { a BOOLEAN DEFAULT d, b INTEGER }\n" + body, "param", sites=sites))
    ls = [[("v", "str", "ab")], [("v", "str", "cd")], [("v", "str", "ab")]]
    body, sites = carrier("P", ls)
    mods.append(mk("PaValueStr", SUPPORT + "  P {Str:d} ::= SEQUENCE { a Str DEFAULT d, b INTEGER }\n" + body, "param", sites=sites))
    lo = [[("v", "hstr", "AB")], [("v", "hstr", "CD")], [("v", "hstr", "AB")]]
    body, sites = carrier("P", lo)
    mods.append(mk("PaValueOctets", SUPPORT + "  P {OCTET STRING:d} ::= SEQUENCE { a OCTET STRING DEFAULT d, b INTEGER }\n" + body, "param", sites=sites))
    # a restricted string type with a mixed-case name as the governor: finding C10-param-governor-mixedcase-assert
    mods.append(mk("PaGovString", "  P {IA5String:d} ::= SEQUENCE { a IA5String DEFAULT d, b INTEGER }\n  Use ::= SEQUENCE { s0 P {\"ab\"} }\n", "param"))
    mods.append(mk("PaGovStringUnused", "  P {UTF8String:d} ::= SEQUENCE { a INTEGER }\n  A ::= INTEGER\n", "param"))
    # the VALUE NULL as an actual parameter: finding C10-param-null-value-respecialized
    mods.append(mk("PaNullValue", "  P {NULL:d} ::= SEQUENCE { a INTEGER }\n  Use ::= SEQUENCE { s0 P {NULL} }\n", "param"))
    # 6. the governor of a value parameter is itself a parameter; value-set parameters; NULL as an actual parameter
    mods.append(mk("PaGovParam", SUPPORT + "  P {T, T:v} ::= SEQUENCE { a T DEFAULT v, b BOOLEAN }\n  Use ::= SEQUENCE { s0 P {INTEGER, 5}, s1 P {BOOLEAN, TRUE} }\n", "param"))
    mods.append(mk("PaValueSet", SUPPORT + "  P {INTEGER:Allowed} ::= SEQUENCE { a INTEGER (Allowed) }\n  Use ::= SEQUENCE { s0 P {{1 | 2 | 3}}, s1 P {{1..10}}, s2 P {{1 | 2 | 3}} }\n", "param"))
    mods.append(mk("PaValueSetRef", SUPPORT + "  Vs INTEGER ::= { 1 | 2 | 3 }\n  P {INTEGER:Allowed} ::= SEQUENCE { a INTEGER (Allowed) }\n  Use ::= SEQUENCE { s0 P {{Vs}} }\n", "param"))
    mods.append(mk("PaNullActual", "  P {T} ::= SEQUENCE { a T, b INTEGER }\n  Use ::= SEQUENCE { s0 P {NULL} }\n", "param"))
    mods.append(mk("PaNullActualTop", "  P {T} ::= SEQUENCE { a T OPTIONAL }\n  B ::= P {NULL}\n", "param"))
    # 7. sites: assignment, OF element, CHOICE alternative, SET component, OPTIONAL / DEFAULT-less, tagged use, inside another template
    mods.append(mk("PaSites", SUPPORT + "  P {T} ::= SEQUENCE { a T }\n  A1 ::= P {INTEGER (0..7)}\n  A2 ::= [APPLICATION 2] P {IA5String (SIZE(1..8))}\n"
                   "  A3 ::= SEQUENCE OF P {BOOLEAN}\n  A4 ::= SET (SIZE(1..2)) OF P {INTEGER (1 | 3)}\n  A5 ::= CHOICE { x P {INTEGER (0..7)}, y P {Str (SIZE(2))} }\n"
                   "  A6 ::= SET { x [0] P {Small}, y [1] P {OCTET STRING (SIZE(4))} OPTIONAL }\n  A7 ::= SEQUENCE { x [5] EXPLICIT P {REAL}, y P {NULL2} OPTIONAL }\n  NULL2 ::= NULL\n"
                   "  A8 ::= A1\n  A9 ::= SEQUENCE { COMPONENTS OF A1, z BOOLEAN }\n", "param"))
    # 8. nested instantiation and parameter passing through a second template (flat model does not predict these sites)
    mods.append(mk("PaNested", SUPPORT + "  P {T} ::= SEQUENCE { a T }\n  Q {T} ::= SEQUENCE { b P {T}, c SEQUENCE OF T }\n"
                   "  Use ::= SEQUENCE { s0 Q {BOOLEAN}, s1 Q {INTEGER (0..7)}, s2 Q {IA5String (SIZE(1..8))}, s3 Q {BOOLEAN} }\n", "param"))
    mods.append(mk("PaNestedActual", SUPPORT + "  P {T} ::= SEQUENCE { a T }\n  Q {T} ::= SEQUENCE { b T }\n"
                   "  Use ::= SEQUENCE { s0 P {Q {BOOLEAN}}, s1 P {Q {INTEGER}}, s2 P {Q {BOOLEAN}} }\n", "param",
                   sites=[site("Use", "s0", "P", [("i", "Q", [("t", "BOOLEAN", None, None)])]),
                          site("Use", "s1", "P", [("i", "Q", [("t", "INTEGER", None, None)])]),
                          site("Use", "s2", "P", [("i", "Q", [("t", "BOOLEAN", None, None)])])]))
    mods.append(mk("PaSelfNested", SUPPORT + "  P {T} ::= SEQUENCE { a T }\n  Use ::= SEQUENCE { s0 P {P {INTEGER (0..7)}} }\n", "param"))
    mods.append(mk("PaThroughValue", SUPPORT + "  P {INTEGER:n} ::= SEQUENCE (SIZE(1..n)) OF BOOLEAN\n  Q {INTEGER:m} ::= SEQUENCE { a P {m}, b INTEGER (0..m) }\n"
                   "  Use ::= SEQUENCE { s0 Q {4}, s1 Q {five} }\n", "param"))
    mods.append(mk("PaRecursive", "  P {T} ::= SEQUENCE { a T, next P {T} OPTIONAL }\n  Use ::= SEQUENCE { s0 P {INTEGER (0..7)}, s1 P {BOOLEAN} }\n", "param"))
    mods.append(mk("PaChoiceTwo", "  P {T, U} ::= CHOICE { a T, b U, c SEQUENCE OF T }\n  A ::= P {INTEGER, BOOLEAN}\n  B ::= P {OCTET STRING (SIZE(4)), BOOLEAN}\n"
                   "  C ::= SET OF P {BOOLEAN, INTEGER (0..7)}\n", "param"))
    # a known defect reached through a template (C10-of-unsigned-element: OF element needing unsigned INTEGER specifics)
    mods.append(mk("PaOfUnsigned", "  P {T} ::= SEQUENCE OF T\n  Use ::= SEQUENCE { s0 P {INTEGER (0..MAX)}, s1 P {INTEGER (0..4294967295)}, s2 P {INTEGER (0..7)} }\n", "param"))
    mods.append(mk("PaUnusedParam", "  P {T, U} ::= SEQUENCE { a T }\n  Use ::= SEQUENCE { s0 P {INTEGER, BOOLEAN}, s1 P {INTEGER, IA5String (SIZE(1..8))} }\n", "param"))
    mods.append(mk("PaUnusedTemplate", "  P {T} ::= SEQUENCE { a T }\n  Q {INTEGER:n} ::= INTEGER (0..n)\n  A ::= INTEGER\n", "param"))
    mods.append(mk("PaConstrainedUse", SUPPORT + "  P {T} ::= SEQUENCE OF T\n  Q {T} ::= T\n  Use ::= SEQUENCE { s0 P {INTEGER} (SIZE(1..4)), s1 Q {INTEGER} (0..7), s2 P {Str} (SIZE(2)) }\n", "param"))
    mods.append(mk("PaExplicitTags", SUPPORT + "  P {T} ::= SEQUENCE { a [0] T, b [1] T OPTIONAL }\n  Use ::= SEQUENCE { s0 [0] P {Alt}, s1 [1] P {INTEGER (0..7)} }\n",
                   "param", tagging="EXPLICIT"))
    mods.append(mk("PaImplicitTags", SUPPORT + "  P {T} ::= SEQUENCE { a [0] T, b [1] T OPTIONAL }\n  Use ::= SEQUENCE { s0 [0] P {Small}, s1 [1] P {IA5String (SIZE(1..8))} }\n",
                   "param", tagging="IMPLICIT"))
    # 9. across modules: imported template instantiated in two modules with equal and with different actuals
    #    (a reference records the module it was written in: P {Small} here and P {Small} there are two specializations)
    here = [[("r", "Small", None)], [("t", "IA5String", None, "(SIZE(1..8))")]]
    there = [[("r", "Small", None)], [("t", "IA5String", None, "(SIZE(1..8))")], [("t", "INTEGER", None, "(1 | 3 | 5)")], [("t", "BOOLEAN", None, None)]]
    for k in range(3):
        order = [0, 1] if k != 1 else [1, 0]                     # k = 1: the importing module is named first
        bh, sh_ = carrier("P", here, "Here", order.index(0))
        bt, st = carrier("P", there, "There", order.index(1))
        a = "PaModT DEFINITIONS AUTOMATIC TAGS ::= BEGIN\n  EXPORTS P, Small;\n  P {T} ::= SEQUENCE { a T, b T OPTIONAL }\n  Small ::= INTEGER (0..7)\n" + bh + "END\n"
        b = "PaModU DEFINITIONS AUTOMATIC TAGS ::= BEGIN\n  IMPORTS P, Small FROM PaModT;\n" + bt + "END\n"
        files = {0: [("PaModT.asn1", a), ("PaModU.asn1", b)], 1: [("PaModU.asn1", b), ("PaModT.asn1", a)], 2: [("PaModTU.asn1", a + b)]}[k]
        mods.append({"name": "PaAcross%d" % k, "text": "".join(t for _, t in files), "files": files, "origin": "param", "expect": "valid",
                     "sites": (sh_ + st) if k != 1 else (st + sh_)})
    return mods


def param_random(rng, n):
    """random parameterized modules: 1-2 templates with random bodies, 4-7 sites with actuals drawn from the whole
    (base x constraint shape) table; draws repeat earlier actuals on purpose (equal / constraint-only-different)"""
    acts = [a for _, a in typed_actuals()]
    mods = []
    for i in range(n):
        lab, tb = rng.choice(T_BODIES[:9])
        nsites = rng.range(4, 7)
        lists = []
        for s in range(nsites):
            r = rng.below(10)
            if lists and r < 3:
                lists.append(list(rng.choice(lists)))                       # exactly an earlier list
            elif lists and r < 5:
                prev = rng.choice(lists)[0]                                 # an earlier actual with another constraint
                if prev[0] == "t" and prev[1] == "INTEGER":
                    lists.append([("t", "INTEGER", prev[2], rng.choice(C_INT)[1] or None)])
                elif prev[0] == "t" and prev[1] == "IA5String":
                    lists.append([("t", "IA5String", None, rng.choice(C_STR)[1] or None)])
                elif prev[0] == "r" and prev[1] == "Small":
                    lists.append([("r", "Small", rng.choice([None, "(0..3)", "(1 | 2)"]))])
                else:
                    lists.append([rng.choice(acts)])
            else:
                lists.append([rng.choice(acts)])
        body, sites = carrier("P", lists)
        extra = ""
        if rng.chance(1, 2):
            extra = "  Top%d ::= P {%s}\n" % (i, a_text(rng.choice(lists)[0]))
        mods.append(mk("PaRnd%d" % i, SUPPORT + "  P {T} ::= %s\n" % tb + body + extra, "param", sites=sites))
    return mods


# ------------------------------------------------------------------------------------------------ multi-module inputs

def nmods_of(files):
    """[(module name, [(identifier, is_type)])] in command-line order (good for the generated texts: one assignment per line)"""
    out = []
    for _, text in files:
        for m in re.finditer(r"(?ms)^\s*([A-Z][\w-]*)\s*(?:\{[^}]*\}\s*)?DEFINITIONS\b.*?\bBEGIN\b(.*?)^\s*END\b", text):
            ids = []
            for a in re.finditer(r"(?m)^\s*([A-Za-z][\w-]*)\s*(\{[^}]*\}\s*)?(?:[A-Z][\w. -]*?\s*)?::=", m.group(2)):
                ids.append((a.group(1), a.group(1)[0].isupper()))
            out.append((m.group(1), ids))
    return out


def multi(name, modtexts, origin="multi", layouts=("sep", "rev", "one"), **kw):
    """the same module set as several inputs: one file per module in the given order ("sep"), in reverse order ("rev"),
    every permutation ("perm"), all modules in one file ("one")"""
    import itertools
    out = []
    names = [re.match(r"\s*([A-Z][\w-]*)", t).group(1) for t in modtexts]
    sep = [("%s.asn1" % n, t) for n, t in zip(names, modtexts)]
    orders = []
    if "perm" in layouts:
        orders = [list(p) for p in itertools.permutations(sep)]
    else:
        if "sep" in layouts:
            orders.append(sep)
        if "rev" in layouts and len(sep) > 1:
            orders.append(sep[::-1])
    for k, files in enumerate(orders):
        out.append(dict({"name": "%sF%d" % (name, k), "text": "".join(t for _, t in files), "files": files, "origin": origin, "expect": "valid",
                         "nmods": nmods_of(files)}, **kw))
    if "one" in layouts:
        files = [("%s.asn1" % name, "".join(modtexts))]
        out.append(dict({"name": "%sOne" % name, "text": files[0][1], "files": files, "origin": origin, "expect": "valid", "nmods": nmods_of(files)}, **kw))
    return out


def MT(name, body, tagging="AUTOMATIC", oid=""):
    return "%s %sDEFINITIONS %s ::= BEGIN\n%s\nEND\n" % (name, (oid + " ") if oid else "", (tagging + " TAGS") if tagging else "", body)


def multi_directed():
    mods = []
    # 1. two modules define a type of the same name; a third type uses both (qualified references)
    a = MT("Mod-A", "  IMPORTS Item FROM Mod-B;\n  Top ::= SEQUENCE { mine Mod-A.Item, theirs Mod-B.Item }\n  Item ::= SEQUENCE { a INTEGER, o OCTET STRING }")
    b = MT("Mod-B", "  Item ::= SEQUENCE { b BOOLEAN, s BIT STRING }")
    mods += multi("MmSame2", [a, b], layouts=("perm", "one"))
    # 2. three modules, each with Item and Info; only some are used; plain-named types next to them
    a = MT("Ma", "  Item ::= SEQUENCE { a INTEGER }\n  Info ::= INTEGER (0..7)\n  OnlyA ::= SEQUENCE { i Ma.Item, f Ma.Info }")
    b = MT("Mb", "  Item ::= CHOICE { b BOOLEAN, n NULL }\n  Info ::= IA5String (SIZE(1..8))\n  OnlyB ::= SET OF Mb.Item")
    c = MT("Mc", "  IMPORTS OnlyA FROM Ma OnlyB FROM Mb;\n  Item ::= ENUMERATED { x, y }\n  All ::= SEQUENCE { a OnlyA, b OnlyB, c Mc.Item, d Ma.Item, e Mb.Info }")
    mods += multi("MmSame3", [a, b, c], layouts=("perm", "one"))
    # 3. the clash is between a type that is used unqualified inside its own module and an unrelated one elsewhere
    a = MT("Local-A", "  Item ::= SEQUENCE { a INTEGER }\n  UseA ::= SEQUENCE { x Item, l SEQUENCE OF Item }")
    b = MT("Local-B", "  Item ::= OCTET STRING (SIZE(4))\n  UseB ::= SEQUENCE { x Item OPTIONAL, y BOOLEAN }")
    mods += multi("MmLocal", [a, b])
    # 4. same-named VALUES in two modules (referenced from constraints and DEFAULTs), same-named value and type stems
    a = MT("Val-A", "  max INTEGER ::= 7\n  dflt INTEGER ::= 1\n  Ta ::= SEQUENCE { a INTEGER (0..max) DEFAULT max, b INTEGER DEFAULT dflt }")
    b = MT("Val-B", "  max INTEGER ::= 255\n  dflt INTEGER ::= 2\n  Tb ::= SEQUENCE { a INTEGER (0..max), b INTEGER DEFAULT dflt, c SEQUENCE (SIZE(1..max)) OF NULL }")
    mods += multi("MmValues", [a, b])
    a = MT("Vi-A", "  EXPORTS max, Ta;\n  max INTEGER ::= 7\n  Ta ::= INTEGER (0..max)")
    b = MT("Vi-B", "  IMPORTS max, Ta FROM Vi-A;\n  Tb ::= SEQUENCE { a INTEGER (0..max), t Ta, d Ta DEFAULT max }")
    mods += multi("MmImportValue", [a, b])
    # 5. IMPORTS chain, cycle, re-export, unused import, import list with several FROMs, module OIDs in FROM
    a = MT("Ch-A", "  IMPORTS B1 FROM Ch-B;\n  A1 ::= SEQUENCE { b B1, n INTEGER }")
    b = MT("Ch-B", "  IMPORTS C1 FROM Ch-C;\n  B1 ::= SEQUENCE OF C1")
    c = MT("Ch-C", "  C1 ::= CHOICE { i INTEGER (0..7), s IA5String }")
    mods += multi("MmChain", [a, b, c], layouts=("sep", "rev"))
    a = MT("Cy-A", "  IMPORTS B1 FROM Cy-B;\n  A1 ::= SEQUENCE { b B1 OPTIONAL, n INTEGER }")
    b = MT("Cy-B", "  IMPORTS A1 FROM Cy-A;\n  B1 ::= SEQUENCE { a SEQUENCE OF A1, f BOOLEAN }")
    mods += multi("MmCycle", [a, b])
    a = MT("Oid-A", "  IMPORTS B1, b-val FROM Oid-B { iso org(3) 99 2 } C1 FROM Oid-C;\n  A1 ::= SEQUENCE { b B1, c C1, n INTEGER (0..b-val) }", oid="{ iso org(3) 99 1 }")
    b = MT("Oid-B", "  EXPORTS ALL;\n  B1 ::= BOOLEAN\n  b-val INTEGER ::= 9", oid="{ iso org(3) 99 2 }")
    c = MT("Oid-C", "  C1 ::= NULL\n  Unused ::= REAL")
    mods += multi("MmOid", [a, b, c], layouts=("sep", "rev"))
    # 6. both modules carry an OID and define the same name (asn1f_check_duplicate compares OIDs, not names, in that case)
    a = MT("Oc-A", "  Item ::= INTEGER\n  UseA ::= SEQUENCE { x Oc-A.Item }", oid="{ 1 2 3 1 }")
    b = MT("Oc-B", "  Item ::= BOOLEAN\n  UseB ::= SEQUENCE { x Oc-B.Item }", oid="{ 1 2 3 2 }")
    mods += multi("MmOidClash", [a, b], layouts=("sep",))
    # 7. type names that are the base names of skeleton files or of other emitted files
    mods.append(mk("MmSkelNativeInteger", "  NativeInteger ::= INTEGER (0..7)\n  T ::= SEQUENCE { a NativeInteger, b INTEGER }", "multi"))
    mods.append(mk("MmSkelNativeEnumerated", "  NativeEnumerated ::= ENUMERATED { a, b }\n  T ::= SEQUENCE { a NativeEnumerated }", "multi"))
    mods.append(mk("MmSkelNativeReal", "  NativeReal ::= REAL\n  T ::= SEQUENCE { a NativeReal, r REAL }", "multi"))
    mods.append(mk("MmSkelHyphen", "  OPEN-TYPE ::= SEQUENCE { a INTEGER }\n  BIT-STRING ::= OCTET STRING\n  Asn-SET-OF ::= SET OF OPEN-TYPE\n  T ::= SEQUENCE { a OPEN-TYPE, b BIT-STRING, c Asn-SET-OF, d BIT STRING }", "multi"))
    mods.append(mk("MmSkelSupport", "  Pdu-collection ::= INTEGER\n  Converter-example ::= BOOLEAN\n  Makefile ::= NULL\n  T ::= SEQUENCE { a Pdu-collection, b Converter-example, c Makefile }", "multi"))
    a = MT("Sk-A", "  Constr-TYPE ::= SEQUENCE { a INTEGER }\n  Per-support ::= INTEGER (0..7)")
    b = MT("Sk-B", "  Constr-TYPE ::= SET OF BOOLEAN\n  UseB ::= SEQUENCE { x Sk-B.Constr-TYPE, y Sk-A.Constr-TYPE }")
    mods += multi("MmSkelClash", [a, b])
    # 8. module name == a type name; module name with digits and hyphens; module name equal to a type of the OTHER module
    a = MT("Item", "  Item ::= SEQUENCE { a INTEGER }\n  Other ::= Item.Item")
    b = MT("Other", "  Item ::= BOOLEAN\n  Third ::= SEQUENCE { a Other.Item, b Item.Item }")
    mods += multi("MmModIsType", [a, b])
    a = MT("M-1-x", "  T-1 ::= INTEGER\n  U ::= SEQUENCE { a T-1 }")
    b = MT("M-1-y", "  T-1 ::= BOOLEAN\n  V ::= SEQUENCE { a M-1-y.T-1, b M-1-x.T-1 }")
    mods += multi("MmHyphenDigits", [a, b])
    # 9. the clashing type is parameterized / an ENUMERATED / contains anonymous inner types (generated helper names)
    a = MT("Pc-A", "  Box {T} ::= SEQUENCE { v T }\n  UseA ::= SEQUENCE { x Pc-A.Box {INTEGER} }")
    b = MT("Pc-B", "  Box {T} ::= SET OF T\n  UseB ::= SEQUENCE { x Pc-B.Box {BOOLEAN} }")
    mods += multi("MmParamClash", [a, b], layouts=("sep", "one"))
    a = MT("En-A", "  Colour ::= ENUMERATED { red, green }\n  Shape ::= SEQUENCE { c Colour, inner SEQUENCE { k INTEGER } }")
    b = MT("En-B", "  Colour ::= ENUMERATED { red, blue }\n  Shape ::= SEQUENCE { c Colour, inner CHOICE { k BOOLEAN, l NULL } }")
    mods += multi("MmEnumClash", [a, b])
    # 10. tagging defaults differ between importing and defining module
    a = MT("Tg-A", "  IMPORTS B1 FROM Tg-B;\n  A1 ::= SEQUENCE { x [0] B1, y [1] INTEGER OPTIONAL }", tagging="IMPLICIT")
    b = MT("Tg-B", "  B1 ::= CHOICE { i [0] INTEGER, s [1] SEQUENCE { z [0] BOOLEAN } }", tagging="EXPLICIT")
    mods += multi("MmTagDefaults", [a, b])
    # 11. a module without types next to one with; a module importing from a module that comes later in the same file
    a = MT("Em-A", "  k INTEGER ::= 3")
    b = MT("Em-B", "  IMPORTS k FROM Em-A;\n  T ::= INTEGER (0..k)")
    mods += multi("MmValuesOnly", [a, b])
    return mods


def multi_random(rng, n):
    """2-3 modules over a small pool of type names: each module defines a random subset (so names clash at random),
    uses qualified references to every module's types and imports the unambiguous ones; random file layout"""
    mods = []
    pool = ["Item", "Info", "Data", "Rec", "Kind"]
    rhs = ["INTEGER (0..7)", "BOOLEAN", "OCTET STRING (SIZE(1..4))", "SEQUENCE { a INTEGER, b BOOLEAN OPTIONAL }", "CHOICE { x NULL, y IA5String }",
           "ENUMERATED { p, q }", "SEQUENCE OF INTEGER", "SET { a [0] INTEGER, b [1] REAL }", "BIT STRING { f(0) }", "IA5String (SIZE(1..8))"]
    for i in range(n):
        k = rng.range(2, 3)
        names = ["R%d-%s" % (i, "abc"[j]) for j in range(k)]
        defs = []
        for j in range(k):
            mine = [t for t in pool if rng.chance(1, 2)] or [rng.choice(pool)]
            defs.append(mine)
        texts = []
        for j in range(k):
            lines = ["  %s ::= %s" % (t, rng.choice(rhs)) for t in defs[j]]
            uses = []
            for jj in range(k):
                for t in defs[jj]:
                    if rng.chance(1, 2):
                        uses.append("u%d %s.%s%s" % (len(uses), names[jj], t, " OPTIONAL" if rng.chance(1, 3) else ""))
            if uses:
                lines.append("  Use%s ::= SEQUENCE { %s }" % ("ABC"[j], ", ".join(uses)))
            lines.append("  v%d INTEGER ::= %d" % (rng.below(2), j))
            texts.append(MT(names[j], "\n".join(lines)))
        layout = rng.choice([("sep",), ("rev",), ("one",)])
        mods += multi("MmRnd%d" % i, texts, layouts=layout)
    return mods


# ------------------------------------------------------------------------------------------------ grammar families
# One directed module per construct family of libasn1parser/asn1p_y.y (the first argument names the rule or rule group).
# A family module holds only the forms asn1c accepts (so that their output is BUILT); the forms it refuses with a
# diagnostic are single-construct modules of grammar_refused() (asn1c only; the refusal is counted, a death is a violation).

def grammar_directed():
    G = []

    def g(family, name, body, tagging="", **kw):
        G.append(mk(name, body, "grammar", tagging=tagging, family=family, **kw))

    def raw(family, name, text):
        G.append({"name": name, "family": family, "origin": "grammar", "expect": "valid", "text": text})

    def gm(family, name, texts, **kw):
        for m in multi(name, texts, origin="grammar", **kw):
            m["family"] = family
            G.append(m)

    # ModuleDefinition / optObjectIdentifier / ModuleDefinitionFlags / optModuleBody
    raw("ModuleDefinition:oid-forms", "GrHeaderOid", "GrHeaderOid { iso(1) org(3) dod(6) 99 name-only sub(5) } DEFINITIONS ::= BEGIN\n  T ::= INTEGER\nEND\n")
    raw("ModuleDefinitionFlags", "GrHeaderFlags", "GrHeaderFlags DEFINITIONS IMPLICIT TAGS EXTENSIBILITY IMPLIED ::= BEGIN\n"
        "  T ::= SEQUENCE { a INTEGER, b CHOICE { x [0] NULL, y [1] BOOLEAN } }\n  E ::= ENUMERATED { a, b }\nEND\n")
    raw("ModuleDefinitionFlags:INSTRUCTIONS", "GrHeaderInstr", "GrHeaderInstr DEFINITIONS XER INSTRUCTIONS AUTOMATIC TAGS ::= BEGIN\n  T ::= SEQUENCE { a INTEGER }\nEND\n")
    raw("optModuleBody:empty", "GrEmptyBody", "GrEmptyBody DEFINITIONS ::= BEGIN END\nGrEmptyBody2 DEFINITIONS ::= BEGIN\n  T ::= NULL\nEND\n")
    # Exports
    g("ExportsDefinition", "GrExports", "  EXPORTS T, v, U;\n  T ::= INTEGER\n  U ::= BOOLEAN\n  v INTEGER ::= 1")
    g("ExportsDefinition:ALL", "GrExportsAll", "  EXPORTS ALL;\n  T ::= INTEGER")
    g("ExportsDefinition:empty", "GrExportsNone", "  EXPORTS ;\n  T ::= INTEGER")
    # ValueSetTypeAssignment (used as a constraint; as a TYPE it is refused: grammar_refused)
    g("ValueSetTypeAssignment", "GrValueSetType", "  Vs INTEGER ::= { 1 | 2 | 5..9 }\n  T ::= SEQUENCE { b INTEGER (Vs), c INTEGER (Vs | 20) }")
    # Types: every ConcreteTypeDeclaration / BasicTypeId / BasicString
    g("BasicTypeId", "GrBasicTypes", "  T ::= SEQUENCE { b BOOLEAN, n NULL, r REAL, o OBJECT IDENTIFIER, ro RELATIVE-OID, u UTCTime, g GeneralizedTime, os OCTET STRING, "
      "bs BIT STRING, i INTEGER, en ENUMERATED { a } }")
    g("BasicTypeId:EXTERNAL/EMBEDDED PDV/CHARACTER STRING", "GrUnsupportedTypes", "  T ::= SEQUENCE { e EXTERNAL OPTIONAL, p EMBEDDED PDV OPTIONAL, c CHARACTER STRING OPTIONAL, z INTEGER }")
    g("BasicString", "GrStringTypes", "  T ::= SEQUENCE { a BMPString, b GeneralString, c GraphicString, d IA5String, f NumericString, g PrintableString, "
      "h T61String, i TeletexString, j UniversalString, k UTF8String, l VideotexString, m VisibleString, n ObjectDescriptor }")
    g("BasicString:ISO646String", "GrIso646", "  T ::= SEQUENCE { e ISO646String, z INTEGER }")
    g("TaggedType:classes", "GrTags", "  A ::= [UNIVERSAL 29] IMPLICIT INTEGER\n  B ::= [APPLICATION 1] EXPLICIT BOOLEAN\n  C ::= [PRIVATE 2] NULL\n  D ::= [3] INTEGER\n"
      "  E ::= [4] IMPLICIT SEQUENCE { a [0] IMPLICIT INTEGER, b [1] EXPLICIT CHOICE { c NULL } }\n  F ::= [5] E\n  G ::= [APPLICATION 31] INTEGER\n  H ::= [APPLICATION 128] INTEGER")
    g("NamedNumberList/NamedBitList", "GrNamed", "  v3 INTEGER ::= 3\n  A ::= INTEGER { zero(0), neg(-1), ref(v3) }\n  B ::= BIT STRING { first(0), ref(v3) }\n  C ::= A (zero | neg)\n"
      "  D ::= SEQUENCE { a A DEFAULT neg, b B DEFAULT { first } }")
    g("Enumerations", "GrEnums", "  A ::= ENUMERATED { a, b(5), c, ..., d, e(9) }\n  B ::= ENUMERATED { x(1), ... }\n  C ::= ENUMERATED { only }\n  D ::= ENUMERATED { p(-1), q(0), ..., r(100) }\n"
      "  S ::= SEQUENCE { a A DEFAULT c, b B, c C, d D }", tagging="AUTOMATIC")
    g("Enumerations:value reference", "GrEnumValueRef", "  v3 INTEGER ::= 3\n  E ::= ENUMERATED { k(v3), l }")
    g("ComponentTypeLists:extensions", "GrExtMarkers", "  A ::= SEQUENCE { a INTEGER, ... }\n  B ::= SEQUENCE { ..., b INTEGER }\n  C ::= SEQUENCE { a INTEGER, ..., ..., c BOOLEAN }\n"
      "  D ::= SEQUENCE { a INTEGER, ..., [[ b BOOLEAN ]], [[ c NULL OPTIONAL, d INTEGER ]], ..., e BOOLEAN }\n  E ::= SET { a [0] INTEGER, ..., b [1] BOOLEAN OPTIONAL }\n"
      "  F ::= CHOICE { a [0] INTEGER, ..., b [1] BOOLEAN }", tagging="AUTOMATIC")
    g("ExtensionAndException", "GrException", "  A ::= SEQUENCE { a INTEGER, ...!1 }\n  B ::= CHOICE { a INTEGER, ... ! 5 }")
    g("ComponentType:COMPONENTS OF", "GrComponentsOf", "  A ::= SEQUENCE { a INTEGER, b BOOLEAN OPTIONAL, ..., x NULL }\n  B ::= SEQUENCE { COMPONENTS OF A, c REAL }\n  C ::= SET { a [0] INTEGER }\n  D ::= SET { COMPONENTS OF C, d [1] NULL }",
      tagging="AUTOMATIC")
    g("Marker", "GrMarkers", "  A ::= SEQUENCE { a INTEGER OPTIONAL, b BOOLEAN DEFAULT TRUE, c INTEGER DEFAULT 0, d NULL OPTIONAL, e SEQUENCE OF INTEGER OPTIONAL, f IA5String DEFAULT \"x\", "
      "g BIT STRING DEFAULT '101'B, h OCTET STRING DEFAULT 'AB'H, i ENUMERATED { p, q } DEFAULT q, j REAL DEFAULT 0, l SEQUENCE { m INTEGER } DEFAULT { m 1 } }", tagging="AUTOMATIC")
    g("ANY / ANY DEFINED BY", "GrAny", "  A ::= SEQUENCE { t OBJECT IDENTIFIER, v ANY DEFINED BY t }\n  B ::= SEQUENCE { a INTEGER, b ANY OPTIONAL }\n  C ::= ANY\n  D ::= SEQUENCE OF ANY")
    g("SEQUENCE OF / SET OF forms", "GrOfForms", "  A ::= SEQUENCE OF INTEGER\n  B ::= SEQUENCE SIZE(1..4) OF INTEGER\n  C ::= SEQUENCE (SIZE(1..4)) OF elem INTEGER\n  D ::= SET SIZE(2) OF BOOLEAN\n"
      "  E ::= SET (SIZE(0..MAX)) OF x NULL\n  F ::= SEQUENCE (SIZE(1..4, ...)) OF INTEGER (0..7)\n  G ::= SEQUENCE OF [5] INTEGER\n  H ::= SEQUENCE OF CHOICE { a INTEGER, b NULL }")
    g("DefinedType:Module.Type", "GrQualifiedRef", "  A ::= INTEGER\n  B ::= GrQualifiedRef.A\n  C ::= SEQUENCE { a GrQualifiedRef.A, b GrQualifiedRef.B (0..5) }")
    g("INSTANCE OF as a component", "GrInstanceOfMember", "  U ::= SEQUENCE { a INSTANCE OF TYPE-IDENTIFIER, z INTEGER }", tagging="AUTOMATIC")
    g("ValueSetTypeAssignment used as a type", "GrValueSetAsType", "  Vs INTEGER ::= { 1 | 2 }\n  T ::= SEQUENCE { a Vs, z INTEGER }", tagging="AUTOMATIC")
    g("TYPE-IDENTIFIER.&Type", "GrTypeIdentifier", "  T ::= SEQUENCE { id TYPE-IDENTIFIER.&id, v TYPE-IDENTIFIER.&Type }")
    # Values
    g("ValueAssignment:SimpleValue", "GrValues", "  i0 INTEGER ::= 0\n  i1 INTEGER ::= -5\n  i2 INTEGER ::= 2147483648\n  b0 BOOLEAN ::= TRUE\n  b1 BOOLEAN ::= FALSE\n  n0 NULL ::= NULL\n  r0 REAL ::= 0\n  r1 REAL ::= 3.14\n"
      "  r2 REAL ::= { mantissa 1, base 2, exponent 3 }\n  s0 IA5String ::= \"abc\"\n  s1 IA5String ::= \"with \"\"quote\"\"\"\n  h0 OCTET STRING ::= '0123ABCD'H\n"
      "  h1 OCTET STRING ::= '0101'B\n  bs BIT STRING ::= '1010'B\n  bh BIT STRING ::= 'F0'H\n  T ::= INTEGER (i1..i2)")
    g("ValueAssignment:OID/defined values", "GrValuesOid", "  o0 OBJECT IDENTIFIER ::= { iso(1) 2 3 }\n  o1 OBJECT IDENTIFIER ::= { o0 4 five(5) }\n  ro RELATIVE-OID ::= { 1 2 }\n  i0 INTEGER ::= 7\n  i1 INTEGER ::= i0\n"
      "  i2 INTEGER ::= GrValuesOid.i0\n  T ::= INTEGER (0..i2)")
    g("ValueAssignment:structured values", "GrValuesStruct", "  S ::= SEQUENCE { a INTEGER, b BOOLEAN }\n  L ::= SEQUENCE OF INTEGER\n  s0 S ::= { a 1, b TRUE }\n  l0 L ::= { 1, 2, 3 }\n"
      "  l1 L ::= { }\n  E ::= ENUMERATED { p, q }\n  e0 E ::= q\n  T ::= SEQUENCE { s S DEFAULT s0, e E DEFAULT e0 }")
    g("RestrictedCharacterStringValue:tuple/quadruple", "GrCharValues", "  a IA5String ::= {0,10}\n  b UniversalString ::= {0,0,1,0}\n  T ::= IA5String (FROM({0,2}..{7,14}))\n  U ::= BMPString (FROM({0,0,0,65}..{0,0,0,90}))")
    # Constraints
    g("Unions/Intersections/EXCEPT spelled out", "GrSetOps", "  A ::= INTEGER (1 UNION 3 UNION 5..7)\n  B ::= INTEGER (0..9 INTERSECTION 5..20)\n  C ::= INTEGER (0..9 EXCEPT 3 | 20..29 ^ 25..40)\n  D ::= INTEGER (ALL EXCEPT (1..3))\n  E ::= INTEGER ((1..5) | (7..9))\n"
      "  S ::= SEQUENCE { a A, b B, c C, d D, e E }")
    g("ContainedSubtype", "GrIncludes", "  A ::= INTEGER (0..7)\n  B ::= INTEGER (INCLUDES A | 10..12)\n  C ::= INTEGER (A)\n  D ::= INTEGER (A | B)\n  S ::= SEQUENCE { b B, c C, d D }")
    g("PatternConstraint", "GrPattern", "  A ::= IA5String (PATTERN \"[a-z]+\")\n  pat UTF8String ::= \"x*\"\n  B ::= UTF8String (PATTERN pat)\n  S ::= SEQUENCE { a A, b B }")
    g("InnerTypeConstraints", "GrInnerType", "  R ::= SEQUENCE { a INTEGER OPTIONAL, b BOOLEAN OPTIONAL, c IA5String OPTIONAL }\n  A ::= R (WITH COMPONENTS { a PRESENT, b ABSENT })\n  B ::= R (WITH COMPONENTS { ..., a (0..5), c (SIZE(1..2)) OPTIONAL })\n"
      "  L ::= SEQUENCE OF INTEGER\n  C ::= L (WITH COMPONENT (0..7))\n  K ::= CHOICE { x INTEGER, y BOOLEAN }\n  D ::= K (WITH COMPONENTS { x PRESENT })\n  E ::= SET OF R (WITH COMPONENT (WITH COMPONENTS { a PRESENT }))\n  S ::= SEQUENCE { a A, b B, c C, d D, e E }")
    g("UserDefinedConstraint", "GrConstrainedBy", "  A ::= OCTET STRING (CONSTRAINED BY { -- anything -- })\n  B ::= INTEGER (CONSTRAINED BY { INTEGER : 5 })\n  S ::= SEQUENCE { a A, b B }")
    g("ContentsConstraint:CONTAINING", "GrContents", "  I ::= INTEGER (0..7)\n  A ::= OCTET STRING (CONTAINING I)\n  B ::= BIT STRING (CONTAINING I)\n  S ::= SEQUENCE { a A, b B }")
    g("SizeConstraint / PermittedAlphabet on every string type", "GrSizeFrom", "\n".join("  A%d ::= %s (SIZE(1..%d)) (FROM(%s))" % (i, st, i + 2, '"0".."9"' if st == "NumericString" else '"A".."Z"')
                                                                                    for i, st in enumerate(["IA5String", "PrintableString", "VisibleString", "NumericString", "BMPString", "UniversalString", "UTF8String"])) +
      "\n  B ::= BIT STRING (SIZE(3))\n  C ::= OCTET STRING (SIZE(1..MAX))\n  S ::= SEQUENCE { a0 A0, a3 A3, a4 A4, a5 A5, a6 A6, b B, c C }")
    g("SingleValue / BitStringValue constraints", "GrValueConstraints", "  A ::= INTEGER (5)\n  B ::= BOOLEAN (TRUE)\n  C ::= IA5String (\"abc\")\n  D ::= BIT STRING ('101'B)\n  E ::= OCTET STRING ('AB'H)\n  F ::= ENUMERATED { p, q, r } (p | r)\n"
      "  G ::= NULL (NULL)\n  H ::= REAL (0 | 1.5)\n  S ::= SEQUENCE { a A, b B, c C, d D, e E, f F, h H }")
    # Classes, objects, object sets, table constraints (the shapes property C18 found supported: WITH SYNTAX, named row types, "|")
    cls = ("  OPS ::= CLASS { &id INTEGER UNIQUE, &Type } WITH SYNTAX { ID &id TYPE &Type }\n  TA ::= INTEGER\n  TB ::= BOOLEAN\n"
           "  op1 OPS ::= { ID 1 TYPE TA }\n  op2 OPS ::= { ID 2 TYPE TB }\n  Ops OPS ::= { op1 | op2 }\n")
    g("ObjectClass/FieldSpec/WithSyntax/TableConstraint", "GrClass", cls + "  Msg ::= SEQUENCE { id OPS.&id ({Ops}), val OPS.&Type ({Ops}{@id}) }", tagging="AUTOMATIC")
    g("ComponentRelationConstraint:@.", "GrClassDot", cls + "  Msg ::= SEQUENCE { id OPS.&id ({Ops}), val OPS.&Type ({Ops}{@.id}) }", tagging="AUTOMATIC")
    g("ParameterArgumentList:class parameter", "GrParamClass", cls + "  Msg {OPS:Set} ::= SEQUENCE { id OPS.&id ({Set}), val OPS.&Type ({Set}{@id}) }\n  Use ::= Msg {{Ops}}", tagging="AUTOMATIC")
    # Lexer
    raw("lexer: comments, whitespace, number and string forms", "GrLexer",
        "GrLexer -- comment -- DEFINITIONS /* block\n comment */ AUTOMATIC TAGS ::= BEGIN\n\tT\t::=\tSEQUENCE {\r\n  a-b-c INTEGER(0..7),--x--b BOOLEAN, -- to end of line\n  c /* nested /* block */ */ NULL,\n"
        "  d IA5String DEFAULT \"multi\n   line\", g OCTET STRING DEFAULT 'AB CD'H, h INTEGER DEFAULT 007 }\n  T1a2-b3 ::= INTEGER\nEND\n")
    # Imports family: see multi_directed (chain, cycle, OIDs); here the syntax forms only
    gm("ImportsDefinition forms", "GrImports", [MT("Gi-A", "  IMPORTS B1, b1 FROM Gi-B C1 FROM Gi-C { 1 2 3 };\n  A ::= SEQUENCE { b B1 (0..b1), c C1 }", tagging=""),
                                                 MT("Gi-B", "  B1 ::= INTEGER\n  b1 INTEGER ::= 5", tagging=""), MT("Gi-C", "  C1 ::= BOOLEAN", tagging="", oid="{ 1 2 3 }")], layouts=("sep",))
    gm("ImportsDefinition:empty", "GrImportsNone", [MT("Gn-A", "  IMPORTS ;\n  A ::= INTEGER", tagging="")], layouts=("sep",))
    return G


def grammar_refused():
    """single-construct modules asn1c is expected to refuse with a diagnostic (valid ASN.1 outside the supported constructs);
    they run through asn1c only: exit by signal = violation, refusal = counted, acceptance = built like any other module"""
    R = [
        ("ValueRange:open ends", "  A ::= INTEGER (0<..8)"), ("ValueRange:open ends", "  A ::= REAL (0<..<1)"),
        ("ActualParameter:open range", "  P {T} ::= SEQUENCE { a T }\n  U ::= P {INTEGER (0<..<8)}"),
        ("ActualParameter:two numbers lexed as a tuple", "  Q {INTEGER:lo, INTEGER:hi} ::= INTEGER (lo..hi)\n  U ::= Q {1, 10}"),
        ("ActualParameter:ValueSet", "  P {INTEGER:Allowed} ::= SEQUENCE { a INTEGER (Allowed) }\n  U ::= SEQUENCE { s0 P {{1 | 2 | 3}}, s1 P {{1..10}} }"),
        ("version brackets with a number", "  D ::= SEQUENCE { a INTEGER, ..., [[ 3: c NULL OPTIONAL ]] }"),
        ("version brackets in CHOICE", "  F ::= CHOICE { a [0] INTEGER, ..., [[ c [2] NULL ]] }"),
        ("ExceptionSpec:typed", "  B ::= CHOICE { a INTEGER, ... ! INTEGER : 5 }"), ("ExceptionSpec:ENUMERATED", "  C ::= ENUMERATED { a, ... ! 3 }"),
        ("ExceptionSpec:constraint", "  D ::= INTEGER (0..7, ... ! 9)"),
        ("choice value", "  C ::= CHOICE { x INTEGER, y NULL }\n  c0 C ::= x : 5\n  T ::= INTEGER"), ("DEFAULT choice value", "  A ::= SEQUENCE { k CHOICE { x INTEGER } DEFAULT x : 5 }"),
        ("selection type", "  C ::= CHOICE { a INTEGER, b BOOLEAN }\n  S ::= a < C"),
        ("INSTANCE OF", "  T ::= INSTANCE OF TYPE-IDENTIFIER"),
        ("EXTERNAL at top level", "  T ::= EXTERNAL"),
        ("REAL special values", "  r REAL ::= PLUS-INFINITY\n  T ::= INTEGER"), ("REAL special values", "  r REAL ::= MINUS-INFINITY\n  T ::= INTEGER"),
        ("tuple out of range", "  a IA5String ::= { 0, 65 }\n  T ::= INTEGER"),
        ("ENCODED BY", "  C ::= OCTET STRING (ENCODED BY { 2 1 1 })"), ("CONTAINING ... ENCODED BY", "  I ::= INTEGER\n  B ::= BIT STRING (CONTAINING I ENCODED BY { 2 1 1 })"),
        ("empty bstring / hstring", "  T ::= SEQUENCE { e BIT STRING DEFAULT ''B, z INTEGER }"), ("empty bstring / hstring", "  T ::= SEQUENCE { f OCTET STRING DEFAULT ''H, z INTEGER }"),
        ("class without WITH SYNTAX", "  K ::= CLASS { &id INTEGER UNIQUE, &Type OPTIONAL }\n  k1 K ::= { &id 1, &Type BOOLEAN }\n  Ks K ::= { k1 }\n  M ::= SEQUENCE { id K.&id ({Ks}), v K.&Type ({Ks}{@id}) OPTIONAL }"),
        ("WITH SYNTAX without literals", "  K ::= CLASS { &id INTEGER UNIQUE, &Type } WITH SYNTAX { &id &Type }\n  k1 K ::= { 1 INTEGER }\n  Ks K ::= { k1 }\n  M ::= SEQUENCE { id K.&id ({Ks}) }"),
        ("class value field of a string type", "  OPS ::= CLASS { &id INTEGER UNIQUE, &Type, &name IA5String OPTIONAL } WITH SYNTAX { ID &id TYPE &Type [NAMED &name] }\n  TA ::= INTEGER\n  TB ::= BOOLEAN\n"
         "  op1 OPS ::= { ID 1 TYPE TA NAMED \"a\" }\n  op2 OPS ::= { ID 2 TYPE TB }\n  Ops OPS ::= { op1 | op2 }\n  Msg ::= SEQUENCE { id OPS.&id ({Ops}), val OPS.&Type ({Ops}{@id}) }"),
        ("both modules carry an OID and define the same name", None),
        ("BOOLEAN DEFAULT through a value reference", "  flag BOOLEAN ::= TRUE\n  Ta ::= SEQUENCE { b BOOLEAN DEFAULT flag, c INTEGER }"),
        ("OBJECT IDENTIFIER value as an actual parameter", "  P {OBJECT IDENTIFIER:d} ::= SEQUENCE { a INTEGER }\n  Use ::= SEQUENCE { s0 P {{1 2 3}} }"),
    ]
    out = []
    for k, (family, body) in enumerate(R):
        if body is None:
            continue
        m = mk("GrRefused%d" % k, body, "grammar-refused", tagging="AUTOMATIC", family=family)
        m["expect"] = "refused-or-valid"
        out.append(m)
    return out


GRAMMAR_FAMILIES_NOT_COVERED = [
    "XMLValue notation / ENCODING-CONTROL sections (the lexer skips ENCODING-CONTROL ... END; no grammar rule)",
    "macro notation (the lexer recognises MACRO ... END only to skip it)",
    "class fields beyond fixed-type value fields and type fields: variable-type value fields, value-set fields, object fields, object-set fields",
    "information from objects (obj.&field as a value or type), ObjectSetFromObjects",
    "parameterized values, value sets, classes, objects and object sets (only parameterized TYPES are generated)",
    "NSTD_IndirectMarker (the non-standard '*' pointer marker of asn1c)",
]


def regions(rng, tier):
    nrp, nrm = (6, 4) if tier == "quick" else (24, 16)
    return param_directed() + param_random(rng, nrp) + multi_directed() + multi_random(rng, nrm) + grammar_directed() + grammar_refused()
