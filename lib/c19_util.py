"""c19_util — the dynamic half of C19: generated modules covering every constructed
kind, built (from vlib.REPO) with several asn1c option sets, and driven by
harness/c19drv.c in two builds:
  ro   all skeleton + generated objects linked into libc19mod.so (PIC, -O1,
       -finstrument-functions, no sanitizer); c19drv snapshots and mprotect()s the
       library's writable PT_LOAD segment read-only before any type is used and
       reports every store (pc, address, old/new bytes) and every changed byte;
  thr  the same sources with -fsanitize=thread, static link; N threads behind a
       barrier run the whole battery over every type on their own values, then
       alone; logs must agree and ThreadSanitizer must stay silent.
Nothing here edits shared files; asn1c and the skeletons come from vlib.REPO."""
import bisect, os, re, subprocess
from vlib import *
import modgen, widegen
import c19_zoo as ZOO

# ---------------------------------------------------------------------------
# hand-made modules: every constructed kind, members with and without constraints of
# their own, every built-in type, extension markers, recursion, ANY, an open type.
# Constructs that crash the unchanged library for reasons recorded under other
# properties are avoided (INTEGER range 0..2^63-1 in asn_random_between: assertion).

K0 = """C19K DEFINITIONS AUTOMATIC TAGS ::= BEGIN
  Msg ::= CHOICE { num INTEGER, small INTEGER (0..7), txt UTF8String, ia IA5String (SIZE(1..4)),
                   flag BOOLEAN, oid OBJECT IDENTIFIER, nul NULL, re REAL, en Enum, sub Inner, ..., ext1 INTEGER }
  Plain ::= CHOICE { a INTEGER, b BOOLEAN, c OCTET STRING }
  Inner ::= SEQUENCE { p INTEGER, q BOOLEAN OPTIONAL }
  Enum ::= ENUMERATED { red(0), green(1), blue(5), ..., purple(10) }
  Enum2 ::= ENUMERATED { one(1), two(2) }
  Seq ::= SEQUENCE { a INTEGER, b INTEGER (1..100) OPTIONAL, c BOOLEAN DEFAULT TRUE, d OCTET STRING (SIZE(0..4)),
                     e Msg, f Enum, i Inner, n INTEGER DEFAULT 5, ..., g IA5String OPTIONAL, [[ h INTEGER, j BOOLEAN OPTIONAL ]] }
  SeqNC ::= SEQUENCE { a INTEGER, b BOOLEAN, c Plain, d Inner OPTIONAL }
  SeqCF ::= SEQUENCE { b INTEGER (1..100), v VisibleString (FROM("a".."f")), n NumericString (SIZE(0..5)), bits BIT STRING (SIZE(0..12)),
                       d OCTET STRING (SIZE(0..4)), w INTEGER (0..9) OPTIONAL, u UTF8String (SIZE(1..3)), l SEQUENCE (SIZE(0..2)) OF BOOLEAN, a INTEGER }
  SetCF ::= SET { w INTEGER (0..9), i IA5String (SIZE(1..4)), p Plain }
  SetT ::= SET { x INTEGER, y UTF8String OPTIONAL, z Plain, w INTEGER (0..9) }
  SetNC ::= SET { x INTEGER, y BOOLEAN OPTIONAL }
  SeqOfC ::= SEQUENCE (SIZE(0..3)) OF INTEGER (0..255)
  SeqOfS ::= SEQUENCE OF Inner
  SeqOfM ::= SEQUENCE OF Msg
  SetOfI ::= SET OF INTEGER
  SetOfC ::= SET (SIZE(1..2)) OF Plain
  SetOfS ::= SET OF SEQUENCE { k INTEGER (0..15), v OCTET STRING OPTIONAL }
  Rec ::= SEQUENCE { v INTEGER, next Rec OPTIONAL, kids SEQUENCE OF Rec OPTIONAL, alt RecCh OPTIONAL }
  RecCh ::= CHOICE { leaf INTEGER, node Rec }
  Strs ::= SEQUENCE { u UTF8String, i IA5String, p PrintableString, v VisibleString (FROM("a".."f")), n NumericString (SIZE(0..5)),
                      b BMPString, w UniversalString, g GeneralString OPTIONAL, t TeletexString OPTIONAL,
                      bits BIT STRING (SIZE(0..12)), named BIT STRING { aa(0), bb(1), cc(7) }, o OCTET STRING,
                      gt GeneralizedTime, ut UTCTime, oid OBJECT IDENTIFIER, roid RELATIVE-OID, r REAL, z NULL }
  Big ::= INTEGER (0..4294967295)
  Wide ::= INTEGER (0..4611686018427387904)
  Neg ::= INTEGER (-128..127, ...)
  NamedI ::= INTEGER { lo(0), hi(10) } (0..10)
  Alias ::= Seq
  AliasI ::= Big
  Tagged ::= [APPLICATION 3] EXPLICIT Inner
  TaggedI ::= [PRIVATE 200] IMPLICIT OCTET STRING (SIZE(2))
  WithAny ::= SEQUENCE { id INTEGER, body ANY }
  FUNC ::= CLASS { &code INTEGER UNIQUE, &ArgType } WITH SYNTAX { CODE &code ARG &ArgType }
  ArgA ::= INTEGER (0..1000)
  ArgB ::= IA5String
  ArgC ::= Inner
  Funcs FUNC ::= { { CODE 1 ARG ArgA } | { CODE 2 ARG ArgB } | { CODE 3 ARG ArgC } }
  Call ::= SEQUENCE { code FUNC.&code({Funcs}), arg FUNC.&ArgType({Funcs}{@code}) }
END
"""
K0_TYPES = ("Msg Plain Inner Enum Enum2 Seq SeqNC SeqCF SetCF SetT SetNC SeqOfC SeqOfS SeqOfM SetOfI SetOfC SetOfS Rec RecCh Strs Big Wide Neg "
            "NamedI Alias AliasI Tagged TaggedI WithAny ArgA ArgB ArgC Call").split()
# value sources where asn_random_fill cannot work (ANY and open-type members have no random_fill)
K0_SEEDS = {"WithAny": ["3008800105a103020107", "300b80020100a1050403616263"],
            "Call": ["3008800101a10302012a", "300a800102a1051603616263", "300a800103a1053003800109"]}

K1 = """C19X DEFINITIONS EXPLICIT TAGS ::= BEGIN
  XMsg ::= [APPLICATION 1] CHOICE { a [0] INTEGER, b [1] IMPLICIT OCTET STRING, c [2] XInner, d [3] SEQUENCE OF INTEGER (0..3), e [4] SET OF BOOLEAN }
  XInner ::= SEQUENCE { p [0] INTEGER (0..255) DEFAULT 7, q [1] IMPLICIT XEnum DEFAULT two, r [2] XChoice OPTIONAL, s BOOLEAN }
  XEnum ::= ENUMERATED { one(1), two(2), three(3) }
  XChoice ::= CHOICE { x [5] NULL, y [6] REAL, z [7] IMPLICIT UTF8String (SIZE(0..8)) }
  XSet ::= [PRIVATE 2] SET { a [0] INTEGER, b [1] XChoice, c [2] SEQUENCE { k [0] INTEGER, v [1] BIT STRING } OPTIONAL, ... }
  XList ::= SEQUENCE (SIZE(1..4)) OF XChoice
  XSetOf ::= SET OF XInner
  XSetI ::= SET OF INTEGER (0..9)
  XNest ::= SEQUENCE { l1 [0] SEQUENCE { l2 [0] SEQUENCE { l3 [0] CHOICE { i [0] INTEGER, s [1] IA5String } } }, arr [1] SEQUENCE OF XSetI }
  XBits ::= BIT STRING { f0(0), f1(1), f9(9) } (SIZE(10))
  XTime ::= SEQUENCE { g GeneralizedTime, u UTCTime OPTIONAL }
  XLong ::= [APPLICATION 40] IMPLICIT INTEGER (-2147483648..2147483647)
  XOD ::= SEQUENCE { od ObjectDescriptor OPTIONAL, gs GraphicString }
END
"""
K1_TYPES = "XMsg XInner XEnum XChoice XSet XList XSetOf XSetI XNest XBits XTime XLong XOD".split()
K1_SEEDS = {"XOD": ["300a0703616263190368656c", "30051903414243"]}

VARIANTS = [
    # (tag, asn1c options, extra cflags for skeletons AND generated code, tiers, regex of skeleton files left out)
    ("native", ("-fcompound-names",), (), ("quick", "thorough"), None),
    ("wide-indirect", ("-fcompound-names", "-fwide-types", "-findirect-choice"), (), ("quick", "thorough"), None),
    # "-fno-constraints" is not a variant: buildable since /repo commit bfcde1e, but a type that is a reference to another one
    # (`Tagged ::= [APPLICATION 3] EXPLICIT Inner`) then gets `{ 0, 0, 0 }` encoding constraints and asn_check_constraints() calls
    # the NULL checker (SIGSEGV on 60 of 221 types; a code-generation matter, passed on, not C19)
    # unnamed unions change the layout of every CHOICE structure
    ("unnamed-unions", ("-fcompound-names", "-funnamed-unions"), (), ("thorough",), None),
    # the last field: skeleton sources asn1c leaves out with that option (they do not compile with the matching -D)
    ("nooer", ("-fcompound-names", "-no-gen-OER"), ("-DASN_DISABLE_OER_SUPPORT",), ("thorough",), r"(^oer_|_oer\.c$)"),
    ("noper", ("-fcompound-names", "-no-gen-PER"), ("-DASN_DISABLE_PER_SUPPORT",), ("thorough",), None),
]

COV_VARIANTS = ("native", "wide-indirect")     # same preprocessor flags: their gcov counters can be merged branch by branch
SKEL_EXCLUDE_C19 = {"converter-example.c"}
RO_CFLAGS = ["-std=gnu99", "-w", "-O1", "-g", "-fPIC", "-finstrument-functions", "-DASN_PDU_COLLECTION"]
THR_CFLAGS = ["-std=gnu99", "-w", "-O1", "-g", "-fsanitize=thread", "-DASN_PDU_COLLECTION"]
# the gcov build: the same battery with the image left writable (the counters live in .bss); -O0 so that every source-level
# branch is a branch of the object code
COV_CFLAGS = ["-std=gnu99", "-w", "-O0", "-g", "--coverage", "-DASN_PDU_COLLECTION"]
TSAN_ENV = dict(os.environ, TSAN_OPTIONS="exitcode=66:halt_on_error=0:second_deadlock_stack=1:report_signal_unsafe=0:suppressions=" +
                os.path.join(HARNESS, "c19_tsan.supp"))

CANARY_C = """/* detector self-test: stores the read-only harness must see (excluded from the verdict by name) */
int c19_canary_data = 41;
int c19_canary_bss;
int c19_canary_same = 7;
void c19_canary_poke(void) { c19_canary_data++; c19_canary_bss = 5; *(volatile int *)&c19_canary_same = 7; }
"""
CANARY_SYMS = ("c19_canary_data", "c19_canary_bss", "c19_canary_same")


def modules_for(rng, tier):
    """-> list of (module dict, [type names], {type: [DER hex seeds]}); a module dict may carry "peers" (see c19_zoo.Z0_PEERS)"""
    mods = [({"name": "C19K", "text": K0}, K0_TYPES, dict(K0_SEEDS, **ZOO.K0_MORE_SEEDS)), ({"name": "C19X", "text": K1}, K1_TYPES, K1_SEEDS),
            ({"name": "C19Z", "text": ZOO.Z0, "peers": ZOO.Z0_PEERS}, ZOO.Z0_TYPES, ZOO.Z0_SEEDS),
            # no ASN.1 text: built-in descriptors of the skeletons named so that they can be given hand-made values
            ({"name": "builtin", "text": None}, sorted(ZOO.BUILTIN_SEEDS), ZOO.BUILTIN_SEEDS)]
    g = modgen.Gen(rng).module("C19G", 6 if tier == "quick" else 10)
    mods.append((g, [n for n, _ in g["defs"]], {}))
    return mods


def write_pdu_table(outdir, mods):
    with open(os.path.join(outdir, "pdu_table.c"), "w") as f:
        f.write("#include <asn_application.h>\n")
        for m, names, seeds in mods:
            for n in names:
                f.write("extern asn_TYPE_descriptor_t asn_DEF_%s;\n" % n)
            for n, hs in seeds.items():
                f.write("static const char *const seeds_%s[] = {%s, 0};\n" % (n, ", ".join('"%s"' % h for h in hs)))
            # peers: {dst: [src...]} (encodings of src are also decoded as dst) -> per source type the list of destinations
            fwd = {}
            for dst, srcs in (m.get("peers") or {}).items():
                for src in srcs:
                    fwd.setdefault(src, []).append(dst)
            m["_decode_as"] = fwd
            for n, ds in fwd.items():
                f.write("static const char *const decode_as_%s[] = {%s, 0};\n" % (n, ", ".join('"%s"' % d for d in ds)))
        f.write("struct pdu_ent { const char *name; asn_TYPE_descriptor_t *td; const char *const *seeds; const char *const *decode_as; };\n")
        f.write("struct pdu_ent pdu_table[] = {\n")
        for m, names, seeds in mods:
            for n in names:
                f.write('  {"%s", &asn_DEF_%s, %s, %s},\n' % (n, n, ("seeds_" + n) if n in seeds else "0", ("decode_as_" + n) if n in m["_decode_as"] else "0"))
        f.write("  {0, 0, 0, 0}\n};\n")


def build_variant(asn1c, skel, root, tag, opts, xcflags, mods, skip_rx=None, cov=False):
    """generate + compile one variant in both builds (+ a gcov build, `cov`).  -> dict(dir, ro_exe, lib, thr_exe, nfiles) ; raises BuildError"""
    d = os.path.join(root, tag)
    gen = os.path.join(d, "gen")
    os.makedirs(gen, exist_ok=True)
    for m, _, _ in mods:
        if m["text"] is not None:
            open(os.path.join(gen, m["name"] + ".asn1"), "w").write(m["text"])
    cmd = [asn1c, "-S", skel, "-R"] + list(opts) + [m["name"] + ".asn1" for m, _, _ in mods if m["text"] is not None]
    p = subprocess.run(cmd, cwd=gen, stdout=subprocess.PIPE, stderr=subprocess.STDOUT, text=True, errors="replace", timeout=120)
    if p.returncode != 0:
        raise BuildError("asn1c %s failed:\n%s" % (" ".join(opts), p.stdout[-2000:]))
    write_pdu_table(gen, mods)
    open(os.path.join(gen, "c19_canary.c"), "w").write(CANARY_C)
    gsrcs = sorted(f for f in os.listdir(gen) if f.endswith(".c"))
    sk = os.path.join(REPO, "skeletons")
    ssrcs = sorted(f for f in os.listdir(sk) if f.endswith(".c") and f not in SKEL_EXCLUDE_C19 and not (skip_rx and re.search(skip_rx, f)))
    inc = "-I%s -I%s" % (gen, sk)
    mk = ["CC=gcc", "XC=" + " ".join(xcflags), "RO=%s $(XC) %s" % (" ".join(RO_CFLAGS), inc), "TH=%s $(XC) %s" % (" ".join(THR_CFLAGS), inc),
          "CV=%s $(XC) %s" % (" ".join(COV_CFLAGS), inc),
          "DRV=" + os.path.join(HARNESS, "c19drv.c"), "all: ro/c19drv th/c19drv" + (" cov/c19drv" if cov else "")]
    cv_objs = ["cov/g_%s.o" % s[:-2] for s in gsrcs] + ["cov/s_%s.o" % s[:-2] for s in ssrcs]
    mk.append("cov/g_%.o: gen/%.c\n\t@$(CC) $(CV) -c $< -o $@")
    mk.append("cov/s_%%.o: %s/%%.c\n\t@$(CC) $(CV) -c $< -o $@" % sk)
    mk.append("cov/c19drv: $(DRV) %s\n\t@$(CC) -std=gnu99 -w -O1 -g $(XC) %s $(DRV) %s --coverage -lpthread -lm -o $@" % (" ".join(cv_objs), inc, " ".join(cv_objs)))
    os.makedirs(os.path.join(d, "cov"), exist_ok=True)
    ro_objs = ["ro/g_%s.o" % s[:-2] for s in gsrcs] + ["ro/s_%s.o" % s[:-2] for s in ssrcs]
    th_objs = ["th/g_%s.o" % s[:-2] for s in gsrcs] + ["th/s_%s.o" % s[:-2] for s in ssrcs]
    mk.append("ro/g_%.o: gen/%.c\n\t@$(CC) $(RO) -c $< -o $@")
    mk.append("ro/s_%%.o: %s/%%.c\n\t@$(CC) $(RO) -c $< -o $@" % sk)
    mk.append("th/g_%.o: gen/%.c\n\t@$(CC) $(TH) -c $< -o $@")
    mk.append("th/s_%%.o: %s/%%.c\n\t@$(CC) $(TH) -c $< -o $@" % sk)
    mk.append("ro/libc19mod.so: %s\n\t@$(CC) -shared -Wl,-z,relro,-z,now -o $@ %s -lm" % (" ".join(ro_objs), " ".join(ro_objs)))
    # the driver is compiled -fPIC so that it refers to the library's data through the GOT (no copy relocations:
    # a copied asn_DEF_* would live in the executable's .bss, outside the protected image)
    mk.append("ro/c19drv: $(DRV) ro/libc19mod.so\n\t@$(CC) -std=gnu99 -w -O1 -g -fPIC $(XC) %s -DC19_CANARY $(DRV) -Lro -lc19mod -Wl,-rpath,%s/ro -lpthread -lm -o $@" % (inc, d))
    mk.append("th/c19drv: $(DRV) %s\n\t@$(CC) $(TH) $(DRV) %s -lpthread -lm -o $@" % (" ".join(th_objs), " ".join(th_objs)))
    os.makedirs(os.path.join(d, "ro"), exist_ok=True)
    os.makedirs(os.path.join(d, "th"), exist_ok=True)
    open(os.path.join(d, "Makefile"), "w").write("\n".join(mk) + "\n")
    rc, out = sh("make -j%d all" % NCPU, cwd=d, timeout=1500)
    if rc != 0:
        raise BuildError("c19 variant %s build failed:\n%s" % (tag, out[-3000:]))
    return {"tag": tag, "dir": d, "ro_exe": os.path.join(d, "ro", "c19drv"), "lib": os.path.join(d, "ro", "libc19mod.so"),
            "thr_exe": os.path.join(d, "th", "c19drv"), "cov_exe": os.path.join(d, "cov", "c19drv") if cov else None, "nfiles": len(gsrcs) + len(ssrcs), "opts": list(opts) + list(xcflags)}


# ---------------------------------------------------------------------------
# symbolisation of library offsets


class Symtab:
    def __init__(self, lib):
        self.lib = lib
        rc, out = sh(["nm", "-n", "-S", "--defined-only", lib], timeout=120)
        self.syms = []          # (addr, size, kind, name)
        for line in out.split("\n"):
            f = line.split()
            if len(f) == 4:
                self.syms.append((int(f[0], 16), int(f[1], 16), f[2], f[3]))
            elif len(f) == 3 and len(f[0]) == 16:
                self.syms.append((int(f[0], 16), 0, f[1], f[2]))
        self.syms.sort()
        self.addrs = [s[0] for s in self.syms]
        rc, out = sh(["readelf", "-SW", lib], timeout=120)
        self.sections = []      # (addr, size, name, flags)
        for m in re.finditer(r"\]\s+(\S+)\s+\S+\s+([0-9a-f]{16})\s+[0-9a-f]+\s+([0-9a-f]+)\s+\S+\s+([A-Za-z]*)\s", out):
            self.sections.append((int(m.group(2), 16), int(m.group(3), 16), m.group(1), m.group(4)))

    def section_of(self, off):
        for a, n, name, fl in self.sections:
            if a and a <= off < a + n:
                return name
        return "?"

    def data_sym(self, off):
        """symbol covering a data offset -> (name, offset inside)"""
        i = bisect.bisect_right(self.addrs, off) - 1
        best = None
        while i >= 0 and off - self.addrs[i] < 1 << 20:
            a, n, k, name = self.syms[i]
            if k in "dDbBrR" and a <= off < a + max(n, 1):
                best = (name, off - a)
                break
            i -= 1
        return best or ("<%s+0x%x>" % (self.section_of(off), off), 0)

    def func_sym(self, off):
        i = bisect.bisect_right(self.addrs, off) - 1
        while i >= 0:
            a, n, k, name = self.syms[i]
            if k in "tTwW":
                return name
            i -= 1
        return "?"

    def functions(self):
        return {a: name for a, n, k, name in self.syms if k in "tT"}

    def files_of(self, addrs):
        """source file (basename) of each function address, one addr2line call"""
        if not addrs:
            return []
        rc, out = sh(["addr2line", "-e", self.lib] + ["0x%x" % a for a in addrs], timeout=120)
        ls = out.strip().split("\n")
        return [os.path.basename(l.split(":")[0]) for l in ls] + ["?"] * (len(addrs) - len(ls))

    def line_of(self, pc):
        rc, out = sh(["addr2line", "-e", self.lib, "-f", "-C", "0x%x" % pc], timeout=60)
        ls = out.strip().split("\n")
        return (ls[1] if len(ls) > 1 else "?").replace(REPO.rstrip("/") + "/", "")


RUNTIME_FUNCS = {"_init", "_fini", "frame_dummy", "register_tm_clones", "deregister_tm_clones", "__do_global_dtors_aux", "c19_canary_poke"}


def run_ro(v, seed, iters, timeout=600):
    """-> dict(stores=[...], diffs=[...], crashes=[...], funcs_seen, funcs_all, summary, selftest_ok, rc, raw_tail)"""
    st = Symtab(v["lib"])
    rc, out = sh([v["ro_exe"], "ro", str(seed), str(iters)], timeout=timeout)
    res = {"stores": [], "diffs": [], "crashes": [], "summary": "", "rc": rc, "raw_tail": out[-1500:], "segments": [],
           "parts": None, "parts_outside": [], "values": {}, "closure": {}, "closure_bad": [], "probes": [], "ops": {}}
    seen = set()
    canary_store, canary_diff = set(), set()
    for line in out.split("\n"):
        if line.startswith("STORE "):
            kv = dict(x.split("=", 1) for x in line.split()[1:7])
            m = re.search(r" type=(.*) op=(.*)$", line)
            addr, pc = int(kv["addr"], 16), int(kv["pc"], 16)
            sym, inner = st.data_sym(addr)
            ev = {"symbol": sym, "offset_in_symbol": inner, "section": st.section_of(addr), "store_at": "%s (%s)" % (st.func_sym(pc), st.line_of(pc)),
                  "old16": kv["old"], "new16": kv["new"], "times": int(kv["count"]), "first_during": m.group(2) if m else "?",
                  "type": m.group(1) if m else "?", "same_value": kv["old"] == kv["new"]}
            if sym in CANARY_SYMS:
                canary_store.add(sym)
            else:
                res["stores"].append(ev)
        elif line.startswith("DIFF "):
            kv = dict(x.split("=", 1) for x in line.split()[1:])
            off = int(kv["off"], 16)
            sym, inner = st.data_sym(off)
            if sym in CANARY_SYMS:
                canary_diff.add(sym)
            else:
                res["diffs"].append({"symbol": sym, "offset_in_symbol": inner, "section": st.section_of(off), "bytes": int(kv["len"])})
        elif line.startswith("CANARY "):
            f = line.split()
            (canary_store if f[1] == "store" else canary_diff).add(f[2])
        elif line.startswith("CRASH "):
            res["crashes"].append(line[6:])
        elif line.startswith("FUNC "):
            seen.add(int(line.split()[1], 16))
        elif line.startswith("SEG "):
            res["segments"].append(line[4:])
        elif line.startswith("PARTS "):
            res["parts"] = {k: int(x) for k, x in (kv.split("=") for kv in line.split()[1:])}
        elif line.startswith("OPS "):
            f = line.split(" ", 2)
            res["ops"][f[2]] = res["ops"].get(f[2], 0) + int(f[1])
        elif line.startswith("PROBE "):
            m = re.match(r"PROBE (\S+) type=(.*) op=(\S+) (?:sig=(\d+)|survived rc=(-?\d+))$", line)
            if m:
                res["probes"].append({"probe": m.group(1), "type": m.group(2), "op": m.group(3), "sig": int(m.group(4)) if m.group(4) else None,
                                      "rc": int(m.group(5)) if m.group(5) else None})
        elif line.startswith("CLOSURE "):
            kv = dict(x.split("=", 1) for x in line.split()[1:])
            res["closure"][kv["when"]] = {"words_pointing_into_library": int(kv["words_pointing_into_library"]),
                                          "words_pointing_to_writable_memory_outside(raw, dynamic linker slots included)": int(kv["words_pointing_to_writable_memory_outside"])}
        elif line.startswith("PTRX "):
            kv = dict(x.split("=", 1) for x in line.split()[1:])
            off = int(kv["off"], 16)
            sec = st.section_of(off)
            if sec.startswith(".got"):      # GLOB_DAT slots of stdout/stderr etc.: the dynamic linker's, not a table of the library
                res["closure"].setdefault("got_slots_ignored", set()).add(off)
                continue
            sym, inner = st.data_sym(off)
            res["closure_bad"].append({"when": kv["when"], "symbol": sym, "offset_in_symbol": inner, "section": sec, "points_into": kv["target"]})
        elif line.startswith("PARTX "):
            res["parts_outside"].append(line[6:])
        elif line.startswith("VAL "):
            f = line.split(" ", 3)
            res["values"][f[3]] = (int(f[1]), int(f[2]))
        elif line.startswith("RO "):
            res["summary"] = line
    if "got_slots_ignored" in res["closure"]:
        res["closure"]["got_slots_ignored"] = len(res["closure"]["got_slots_ignored"])
    allf = st.functions()
    res["funcs_all"] = len([n for n in allf.values() if n not in RUNTIME_FUNCS])
    miss = sorted((a, n) for a, n in allf.items() if a not in seen and n not in RUNTIME_FUNCS)
    files = st.files_of([a for a, _ in miss])
    res["funcs_unreached"] = sorted(set("%s (%s)" % (n, f) for (a, n), f in zip(miss, files)))
    res["funcs_seen"] = len([a for a in allf if a in seen and allf[a] not in RUNTIME_FUNCS])
    # the detector must have seen the three canary stores (one of them re-writes the same value: store, no diff)
    res["selftest_ok"] = (canary_store == set(CANARY_SYMS) and canary_diff == {"c19_canary_data", "c19_canary_bss"})
    res["selftest"] = {"stores_seen": sorted(canary_store), "diffs_seen": sorted(canary_diff)}
    return res


def run_thr(v, seed, nthr, iters, timeout=900):
    """-> (verdict, summary dict, report text); verdict in ok / race / diff / crash"""
    rc, out = sh([v["thr_exe"], "thr", str(seed), str(nthr), str(iters)], env=TSAN_ENV, timeout=timeout)
    races = out.count("WARNING: ThreadSanitizer: data race")
    summary = [l for l in out.split("\n") if l.startswith("THR ")]
    if races:
        locs = sorted(set(re.findall(r"Location is global '([^']+)'", out)))
        fns = sorted(set(re.findall(r"#0 (\w+) ", out)))[:12]
        first = out[out.find("WARNING: ThreadSanitizer"):][:3000]
        return "race", {"races": races, "globals": locs, "functions": fns, "summary": summary}, first
    if rc == 3 or any("THR DIFF" in l for l in summary):
        return "diff", {"summary": summary}, out[:3000]
    if rc != 0 or not summary:
        return "crash", {"rc": rc, "summary": summary}, out[-3000:]
    return "ok", {"summary": summary}, ""


def solo_crashes(v, seed, nthr, iters):
    """does some thread's script crash when run alone (plain, sequential)?  -> list of thread indexes"""
    bad = []
    for i in range(nthr):
        rc, out = sh([v["thr_exe"], "log", str(seed), str(i), str(iters)], env=TSAN_ENV, timeout=600)
        if rc != 0:
            bad.append(i)
    return bad


def list_types(v):
    rc, out = sh([v["ro_exe"], "types"], timeout=60)
    ts = []
    for line in out.split("\n"):
        if line.startswith("TYPE "):
            m = re.match(r"TYPE (.*) elements=(\d+) (.*)$", line)
            kv = dict(x.split("=") for x in m.group(3).split())
            ts.append(dict(name=m.group(1), elements=int(m.group(2)), **{k: int(x) for k, x in kv.items()}))
    return ts


def run_cov(v, seed, iters, timeout=900):
    """runs the ro battery in the gcov build and reads the counters of every skeleton source.
    -> dict(summary, functions, functions_never_executed=[...], lines, lines_never_executed, branches, branches_never_taken,
            per_file={file: {...}}, untaken_by_function={"file:function": n})"""
    import json
    d = os.path.join(v["dir"], "cov")
    for f in os.listdir(d):
        if f.endswith(".gcda"):
            os.unlink(os.path.join(d, f))
    rc, out = sh([v["cov_exe"], "cov", str(seed), str(iters)], cwd=v["dir"], timeout=timeout)
    res = {"rc": rc, "summary": next((l for l in out.split("\n") if l.startswith("RO ")), ""), "per_file": {}, "functions_never_executed": [],
           "untaken_by_function": {}, "untaken_lines": {}, "raw": {"fn": {}, "ln": {}, "br": {}}}
    raw = res["raw"]
    tot = {"functions": 0, "functions_executed": 0, "lines": 0, "lines_executed": 0, "branches": 0, "branches_taken": 0}
    gcdas = sorted(f for f in os.listdir(d) if f.startswith("s_") and f.endswith(".gcda"))
    if not gcdas:
        res["error"] = "no .gcda written: " + out[-500:]
        return res
    rc2, js = sh("gcov -b -c -j -t " + " ".join(gcdas), cwd=d, timeout=timeout)
    skdir = os.path.join(REPO, "skeletons")
    for line in js.split("\n"):
        line = line.strip()
        if not line.startswith("{"):
            continue
        try:
            j = json.loads(line)
        except ValueError:
            continue
        for fl in j.get("files", []):
            fn = fl["file"]
            if not fn.endswith(".c") or os.path.dirname(os.path.abspath(os.path.join(d, fn))) != os.path.abspath(skdir):
                continue       # headers (inline helpers) are counted with the .c that includes them only once below; generated code is left out
            base = os.path.basename(fn)
            pf = res["per_file"].setdefault(base, {"functions": 0, "functions_executed": 0, "lines": 0, "lines_executed": 0, "branches": 0, "branches_taken": 0})
            for f in fl.get("functions", []):
                pf["functions"] += 1
                raw["fn"][(base, f["name"])] = raw["fn"].get((base, f["name"]), 0) + f.get("execution_count", 0)
                if f.get("execution_count", 0) > 0:
                    pf["functions_executed"] += 1
                else:
                    res["functions_never_executed"].append("%s (%s)" % (f["name"], base))
            for ln in fl.get("lines", []):
                pf["lines"] += 1
                pf["lines_executed"] += 1 if ln.get("count", 0) > 0 else 0
                raw["ln"][(base, ln["line_number"])] = raw["ln"].get((base, ln["line_number"]), 0) + ln.get("count", 0)
                for bi, b in enumerate(ln.get("branches", [])):
                    if b.get("throw"):
                        continue
                    raw["br"][(base, ln.get("function_name", "?"), ln["line_number"], bi)] = raw["br"].get((base, ln.get("function_name", "?"), ln["line_number"], bi), 0) + b.get("count", 0)
                    pf["branches"] += 1
                    if b.get("count", 0) > 0:
                        pf["branches_taken"] += 1
                    else:
                        k = "%s:%s" % (base, ln.get("function_name", "?"))
                        res["untaken_by_function"][k] = res["untaken_by_function"].get(k, 0) + 1
                        res["untaken_lines"].setdefault(base, set()).add(ln["line_number"])
    for pf in res["per_file"].values():
        for k in tot:
            tot[k] += pf[k]
    res.update(tot)
    res["functions_never_executed"].sort()
    res["branches_never_taken"] = tot["branches"] - tot["branches_taken"]
    res["lines_never_executed"] = tot["lines"] - tot["lines_executed"]
    res["untaken_lines"] = {k: sorted(x) for k, x in res["untaken_lines"].items()}
    return res


def shape_sides(v):
    """runs `c19drv shapes` -> {key: {side: [type names with a value source]}} for one built variant"""
    rc, out = sh([v["ro_exe"], "shapes"], timeout=60)
    res = {}
    for line in out.split("\n"):
        if not line.startswith("SHAPE "):
            continue
        m = re.match(r"SHAPE (.*?) src=(\S+)(.*)$", line)
        if not m or m.group(2) not in ("fill", "seeds", "parent"):
            continue
        for kv in m.group(3).split():
            k, _, val = kv.partition("=")
            for side in val.split(","):
                res.setdefault(k, {}).setdefault(side, []).append(m.group(1))
    return res


def shape_report(per_variant):
    """per_variant: {tag: shape_sides(...)} -> dict(keys, sides_expected, sides_seen, missing=[...], unreachable=[...], unknown=[...], table={key: {side: n types}})
    against the decision list c19_zoo.SHAPES"""
    seen = {}
    for tag, ss in per_variant.items():
        for k, sides in ss.items():
            for side, ts in sides.items():
                seen.setdefault(k, {}).setdefault(side, set()).update("%s:%s" % (tag, t) for t in ts)
    missing, unreachable, table, nexp, nseen = [], [], {}, 0, 0
    known = {}
    for key, sides, where, impossible in ZOO.SHAPES:
        known[key] = sides
        table[key] = {}
        for side in sides:
            n = len(seen.get(key, {}).get(side, ()))
            table[key][side] = n
            if side in impossible:
                unreachable.append({"key": key, "side": side, "why": impossible[side], "where": where})
                continue
            nexp += 1
            if n:
                nseen += 1
            else:
                missing.append({"key": key, "side": side, "meaning": sides[side], "where": where})
    unknown = sorted("%s=%s" % (k, s) for k, sides in seen.items() for s in sides if s not in known.get(k, {}))
    return {"keys": len(ZOO.SHAPES), "sides_expected": nexp, "sides_seen": nseen, "missing": missing, "unreachable_by_generated_code": unreachable,
            "unknown": unknown, "types_per_side": table}


def merge_cov(covs):
    """covs: {variant tag: run_cov(...)} of builds with the same preprocessor flags -> one report: a function / line / branch counts as
    exercised when any variant exercised it.  The raw counters are dropped; what stays is small enough for the evidence file."""
    fn, ln, br = {}, {}, {}
    for cv in covs.values():
        for k, n in cv["raw"]["fn"].items():
            fn[k] = fn.get(k, 0) + n
        for k, n in cv["raw"]["ln"].items():
            ln[k] = ln.get(k, 0) + n
        for k, n in cv["raw"]["br"].items():
            br[k] = br.get(k, 0) + n
    per_file, by_fn = {}, {}
    for (f, name), n in fn.items():
        pf = per_file.setdefault(f, {"functions": 0, "functions_executed": 0, "lines": 0, "lines_executed": 0, "branches": 0, "branches_taken": 0})
        pf["functions"] += 1
        pf["functions_executed"] += 1 if n else 0
    for (f, l), n in ln.items():
        pf = per_file.setdefault(f, {"functions": 0, "functions_executed": 0, "lines": 0, "lines_executed": 0, "branches": 0, "branches_taken": 0})
        pf["lines"] += 1
        pf["lines_executed"] += 1 if n else 0
    for (f, name, l, bi), n in br.items():
        pf = per_file[f]
        pf["branches"] += 1
        if n:
            pf["branches_taken"] += 1
        else:
            by_fn["%s:%s" % (f, name)] = by_fn.get("%s:%s" % (f, name), 0) + 1
    tot = {k: sum(pf[k] for pf in per_file.values()) for k in ("functions", "functions_executed", "lines", "lines_executed", "branches", "branches_taken")}
    out = {"build": "gcc -O0 --coverage, skeletons/*.c only, the read-only battery (`c19drv cov`, image left writable), variants merged: " + ", ".join(sorted(covs)),
           "runs": {t: cv["summary"] for t, cv in covs.items()}, "errors": {t: cv["error"] for t, cv in covs.items() if cv.get("error")}}
    out.update(tot)
    out["functions_never_executed"] = sorted("%s (%s)" % (name, f) for (f, name), n in fn.items() if not n)
    out["lines_never_executed"] = tot["lines"] - tot["lines_executed"]
    out["branches_never_taken"] = tot["branches"] - tot["branches_taken"]
    out["branches_never_taken_by_function(top 60)"] = dict(sorted(by_fn.items(), key=lambda x: -x[1])[:60])
    out["per_file"] = {f: per_file[f] for f in sorted(per_file)}
    return out
