"""c10_gcov — which generated module reaches which part of the emitter (thorough tier of check C10).

A scratch copy of vlib.REPO gets libasn1compiler/asn1c_C.c recompiled with --coverage (nothing else changes; /repo is
never touched); every module of the corpus is run through that asn1c once per option set of a small rotation, each
module writing its counters into a directory of its own (GCOV_PREFIX), so that execution can be ATTRIBUTED:
  emitters      every function of asn1c_C.c (the asn1c_lang_C_type_* emitters, emit_type_DEF, emit_member_table ...):
                how many modules execute it, and the first one that does;
  switch arms   every `case` / `default` label of every switch of the file: the first module that reaches the arm, or NEVER;
  never         the executable lines no module executes, as ranges with their first source line - the next blind spot.
This is evidence about the GENERATOR (which regions of the emitter the corpus samples), not a verdict."""
import os, re, json, shutil, subprocess
from concurrent.futures import ThreadPoolExecutor
from vlib import *

SRC = "libasn1compiler/asn1c_C.c"
OUT_FUNCTIONS = ("emit_type_DEF", "emit_member_table", "asn1c_lang_C_type_SIMPLE_TYPE", "asn1c_lang_C_type_REFERENCE", "emit_tags_vectors")


def build_cov():
    """-> (asn1c, skeletons dir, root of the copy, path of asn1c_C.gcno, GCOV_PREFIX_STRIP)"""
    root = os.path.join(scratch(), "covrepo")
    if not os.path.exists(root):
        rc, o = sh(["rsync", "-a", "--exclude", "tests", "--exclude", "doc", "--exclude", "examples", "--exclude", ".git", REPO.rstrip("/") + "/", root + "/"], timeout=600)
        if rc != 0:
            raise BuildError("rsync of the repository failed:\n" + o[-1500:])
        # bring every library up to date first (the working tree may carry edits), then recompile the one file with counters
        for d in ("libasn1common", "libasn1parser", "libasn1fix", "libasn1print", "libasn1compiler"):
            rc, o = sh("make -j%d CFLAGS='-g -O1'" % NCPU, cwd=os.path.join(root, d), timeout=1200)
            if rc != 0:
                raise BuildError("make in %s failed:\n%s" % (d, o[-2000:]))
        cd = os.path.join(root, "libasn1compiler")
        for f in ("asn1c_C.o", "asn1c_C.lo", ".libs/asn1c_C.o", "libasn1compiler.la", ".libs/libasn1compiler.a"):
            try:
                os.remove(os.path.join(cd, f))
            except OSError:
                pass
        rc, o = sh("make CFLAGS='-g -O0 --coverage'", cwd=cd, timeout=1200)
        if rc != 0:
            raise BuildError("coverage build of libasn1compiler failed:\n" + o[-2000:])
        try:
            os.remove(os.path.join(root, "asn1c", "asn1c"))
        except OSError:
            pass
        rc, o = sh("make CFLAGS='-g -O0 --coverage'", cwd=os.path.join(root, "asn1c"), timeout=1200)
        if rc != 0:
            raise BuildError("coverage link of asn1c failed:\n" + o[-2000:])
    gcno = None
    for cand in (".libs/asn1c_C.gcno", "asn1c_C.gcno"):
        p = os.path.join(root, "libasn1compiler", cand)
        if os.path.exists(p):
            gcno = p
            break
    if not gcno:
        raise BuildError("no asn1c_C.gcno after the coverage build")
    strip = len([c for c in os.path.realpath(root).split("/") if c])
    return os.path.join(root, "asn1c", "asn1c"), os.path.join(root, "skeletons"), root, gcno, strip


def run_module(args):
    """-> (module name, set of executed line numbers of asn1c_C.c, {function: count}) ; the directory is removed"""
    asn1c, skel, gcno, strip, root, mod, optsets, d = args
    os.makedirs(d, exist_ok=True)
    gc = os.path.join(d, "gc")
    files = mod.get("files") or [(mod["name"] + ".asn1", mod["text"])]
    try:
        for fn, text in files:
            open(os.path.join(d, fn), "w").write(text)
        env = dict(os.environ, GCOV_PREFIX=gc, GCOV_PREFIX_STRIP=str(strip))
        for k, opts in enumerate(optsets):
            out = os.path.join(d, "o%d" % k)
            os.makedirs(out, exist_ok=True)
            try:
                subprocess.run([asn1c, "-S", skel, "-pdu=all", "-D", out] + list(opts) + [os.path.join(d, fn) for fn, _ in files], cwd=d, stdout=subprocess.DEVNULL,
                               stderr=subprocess.DEVNULL, timeout=120, env=env)
            except subprocess.TimeoutExpired:
                pass
            shutil.rmtree(out, ignore_errors=True)
        gcda = None
        for r_, _ds, fs in os.walk(gc):
            for f in fs:
                if f == "asn1c_C.gcda":
                    gcda = os.path.join(r_, f)
        if not gcda:
            return mod["name"], set(), {}       # asn1c died before its exit handlers (a crash finding): no counters
        shutil.copyfile(gcno, os.path.join(os.path.dirname(gcda), "asn1c_C.gcno"))
        p = subprocess.run(["gcov", "--json-format", "--stdout", "-o", os.path.dirname(gcda), os.path.join(root, SRC)], cwd=os.path.dirname(gcda),
                           stdout=subprocess.PIPE, stderr=subprocess.DEVNULL, timeout=120)
        lines, funcs = set(), {}
        for doc in p.stdout.decode("utf-8", "replace").split("\n"):
            if not doc.strip().startswith("{"):
                continue
            for f in json.loads(doc).get("files", []):
                if not f["file"].endswith("asn1c_C.c"):
                    continue
                for l in f["lines"]:
                    if l["count"] > 0:
                        lines.add(l["line_number"])
                for fn in f["functions"]:
                    funcs[fn["name"]] = fn["execution_count"]
        return mod["name"], lines, funcs
    finally:
        shutil.rmtree(d, ignore_errors=True)


def executable_lines(gcno, root):
    """line numbers gcov considers executable + function extents, from a run without counters"""
    d = os.path.join(scratch(), "gcov_static")
    os.makedirs(d, exist_ok=True)
    shutil.copyfile(gcno, os.path.join(d, "asn1c_C.gcno"))
    p = subprocess.run(["gcov", "--json-format", "--stdout", "-o", d, os.path.join(root, SRC)], cwd=d, stdout=subprocess.PIPE, stderr=subprocess.DEVNULL, timeout=120)
    ex, fns = set(), []
    for doc in p.stdout.decode("utf-8", "replace").split("\n"):
        if doc.strip().startswith("{"):
            for f in json.loads(doc).get("files", []):
                if f["file"].endswith("asn1c_C.c"):
                    ex |= {l["line_number"] for l in f["lines"]}
                    fns = [(fn["name"], fn["start_line"], fn["end_line"]) for fn in f["functions"]]
    return ex, sorted(fns, key=lambda x: x[1])


def coverage_report(mods, optsets_of, limit=None):
    """-> dict for the evidence file.  optsets_of(index, module) -> option sets to run that module under"""
    asn1c, skel, root, gcno, strip = build_cov()
    base = os.path.join(scratch(), "covjobs")
    jobs = [(asn1c, skel, gcno, strip, root, m, optsets_of(i, m), os.path.join(base, "%d_%s" % (i, m["name"]))) for i, m in enumerate(mods[:limit] if limit else mods)]
    with ThreadPoolExecutor(max_workers=NCPU) as ex:
        res = list(ex.map(run_module, jobs))
    src = open(os.path.join(root, SRC), errors="replace").read().split("\n")
    exe, fns = executable_lines(gcno, root)
    first_line, nmods_line = {}, {}
    fn_first, fn_n = {}, {}
    for name, lines, funcs in res:
        for l in lines:
            first_line.setdefault(l, name)
            nmods_line[l] = nmods_line.get(l, 0) + 1
        for f, c in funcs.items():
            if c > 0:
                fn_first.setdefault(f, name)
                fn_n[f] = fn_n.get(f, 0) + 1

    def fn_of(line):
        for n, a, b in fns:
            if a <= line <= b:
                return n
        return "?"

    # switch arms: a label's arm = the first executable line at or after the label, before the next label of the file
    labels = [i + 1 for i, t in enumerate(src) if re.match(r"\s*(case\s+[\w:]+\s*:|default\s*:)", t)]
    arms = {}
    for k, l in enumerate(labels):
        stop = labels[k + 1] if k + 1 < len(labels) else l + 40
        body = [x for x in range(l, max(stop, l + 1) + 12) if x in exe and (x < stop or not any(y in exe for y in range(l, stop)))]
        if not body:
            continue
        b = body[0]
        arms["%s:%d:%s" % (fn_of(l), l, src[l - 1].strip()[:40])] = "%s (+%d more)" % (first_line[b], nmods_line[b] - 1) if b in first_line else "NEVER"
    # the emitted-output decisions of the descriptor emitters: every OUT( statement of these functions (the if-ladders
    # of emit_type_DEF are not switch arms)
    outs = {}
    for n, a, b in fns:
        if n in OUT_FUNCTIONS:
            for l in range(a, b + 1):
                if l in exe and re.search(r"\bOUT\(", src[l - 1]):
                    outs["%s:%d:%s" % (n, l, src[l - 1].strip()[:60])] = "%s (+%d more)" % (first_line[l], nmods_line[l] - 1) if l in first_line else "NEVER"
    never = sorted(exe - set(first_line))
    ranges, cur = [], []
    for l in never:
        if cur and l <= cur[-1] + 2:
            cur.append(l)
        else:
            if cur:
                ranges.append(cur)
            cur = [l]
    if cur:
        ranges.append(cur)
    return {
        "source": SRC, "modules_run": len(res), "executable_lines": len(exe), "executed_lines": len(exe & set(first_line)),
        "functions": {n: ("%s (+%d more)" % (fn_first[n], fn_n[n] - 1) if n in fn_first else "NEVER") for n, _a, _b in fns},
        "switch_arms": arms,
        "out_statements": outs,
        "never_executed": ["%s L%d-%d (%d lines): %s" % (fn_of(r[0]), r[0], r[-1], len(r), src[r[0] - 1].strip()[:70]) for r in ranges],
    }
