"""primbgen — generator of ASN.1 modules + values for the restricted-character-string layer
(model: coq/Rt/PrimB.v, front end: ocaml/drv_primb.ml, tie: lib/primb_layer.py).

A leaf is a dict {asn, size, alpha, tag}: the ASN.1 type name, the SIZE constraint (lo, hi, ext) or
None, the permitted alphabet as a canonical list of intervals [(lo, hi), ...] or None, and the type's
own tag as the C's ber_tlv_tag_t (number * 4 + class).  Every leaf is a named top-level type of its
module; tagged forms, SEQUENCE members and SEQUENCE OF elements refer to it by name (so that the
descriptor with the type's own PER constraints is used), a few members are written inline.
Modules say IMPLICIT TAGS and spell IMPLICIT / EXPLICIT on every tag.  Alphabets are written with
quoted characters only (asn1c cannot read any number after a Tuple/Quadruple in the same module),
hence lie in 32..126 without the quotation mark as an interval end.

Directed cases first (every representation boundary of every dimension: octets per character, bits
per character 0..7 / 16 / 32, value-as-is against index, character map present or not, SIZE none / fixed
/ range / extensible inside and outside the root, length forms 1 / 2 octets / 16K fragments), then
random ones from the run's Rng."""

KINDS = {
    # name: (model letter, universal tag number, octets per character, default alphabet)
    "IA5String": ("a", 22, 1, [(0, 127)]),
    "VisibleString": ("v", 26, 1, [(32, 126)]),
    "PrintableString": ("p", 19, 1, [(32, 32), (39, 41), (43, 58), (61, 61), (63, 63), (65, 90), (97, 122)]),
    "NumericString": ("u", 18, 1, [(32, 32), (48, 57)]),
    "BMPString": ("m", 30, 2, [(0, 65533)]),
    "UniversalString": ("w", 28, 4, [(0, 4294967295)]),
    "UTF8String": ("f", 12, 1, None),
    "GeneralString": ("g", 27, 1, None),
    "GraphicString": ("g", 25, 1, None),
    "TeletexString": ("g", 20, 1, None),
    "VideotexString": ("g", 21, 1, None),
    "ObjectDescriptor": ("g", 7, 1, None),
}
KM = ["IA5String", "VisibleString", "PrintableString", "NumericString", "BMPString", "UniversalString"]


def utag(n):
    return n * 4


def ctag(n):
    return n * 4 + 2


def atag(n):
    return n * 4 + 1


def leaf(asn, size=None, alpha=None, tag=None):
    return {"asn": asn, "size": size, "alpha": alpha, "tag": utag(KINDS[asn][1]) if tag is None else tag}


def bpc(l):
    return KINDS[l["asn"]][2]


def known_mult(l):
    return KINDS[l["asn"]][3] is not None


def eff_alpha(l):
    return l["alpha"] if l["alpha"] is not None else KINDS[l["asn"]][3]


# ---------------------------------------------------------------- text

def chr_lit(c):
    assert 32 <= c <= 126 and c not in (34, 39), c
    return '"%s"' % chr(c)


def tuple_lit(asn, c):
    """Tuple (IA5String and the other 1-octet kinds: {column,row}) / Quadruple ({group,plane,row,cell}) notation"""
    if KINDS[asn][2] == 1:
        assert 0 <= c <= 127
        return "{%d,%d}" % (c // 16, c % 16)
    return "{%d,%d,%d,%d}" % (c >> 24, (c >> 16) & 255, (c >> 8) & 255, c & 255)


def alpha_text(a, asn=None, tup=False):
    lit = (lambda c: tuple_lit(asn, c)) if tup else chr_lit
    return "FROM(" + " | ".join(lit(lo) if lo == hi else "%s..%s" % (lit(lo), lit(hi)) for lo, hi in a) + ")"


def size_text(s):
    lo, hi, ext = s
    body = str(lo) if lo == hi else "%d..%s" % (lo, "MAX" if hi is None else hi)
    return "SIZE(%s%s)" % (body, ",..." if ext else "")


def leaf_text(l):
    cs = []
    if l["alpha"] is not None:
        cs.append(alpha_text(l["alpha"], l["asn"], l.get("tuple", False)))
    if l["size"] is not None:
        cs.append(size_text(l["size"]))
    return l["asn"] + (" (" + " ^ ".join(cs) + ")" if cs else "")


def tag_text(tg, mode):
    cls = {0: "UNIVERSAL ", 1: "APPLICATION ", 2: "", 3: "PRIVATE "}[tg % 4]
    return "[%s%d] %s " % (cls, tg // 4, mode)


# ---------------------------------------------------------------- model strings

def con_str(s):
    if s is None:
        return "[-]"
    lo, hi, ext = s
    return "[%d,%s,%d]" % (lo, "*" if hi is None else hi, 1 if ext else 0)


def leaf_str(l):
    a = "(" + ",".join("%d-%d" % r for r in l["alpha"]) + ")" if l["alpha"] is not None else "()"
    return "Z%d%s%s%s" % (l["tag"], KINDS[l["asn"]][0], con_str(l["size"]), a)


def etags_str(e):
    return ",".join(str(t) for t in e) + ":"


def sty_str(x):
    k = x["kind"]
    if k == "P":
        return "P" + etags_str(x["etags"]) + leaf_str(x["leaf"])
    if k == "R":
        return "R%d%s%s%s" % (x["tag"], con_str(x["scon"]), etags_str(x["etags"]), leaf_str(x["leaf"]))
    out = "Q%d{" % x["tag"]
    for m in x["members"]:
        if m["kind"] == "B":
            out += "B" + m["ty"]
        else:
            out += "M" + etags_str(m["etags"]) + ("1" if m["opt"] else "0") + leaf_str(m["leaf"])
    return out + "}"


def octets(l, chars):
    n = bpc(l)
    return b"".join(int(c).to_bytes(n, "big") for c in chars)


def val_str(v):
    """python value -> drv_rt value syntax: bytes, bool, int, ("S", [..]), ("L", [..]), ("_",), ("!", v)"""
    if isinstance(v, bool):
        return "T" if v else "F"
    if isinstance(v, int):
        return "I%d;" % v
    if isinstance(v, (bytes, bytearray)):
        return "O%s;" % bytes(v).hex()
    if v[0] == "S":
        return "S{" + "".join(val_str(x) for x in v[1]) + "}"
    if v[0] == "L":
        return "L{" + "".join(val_str(x) for x in v[1]) + "}"
    if v[0] == "_":
        return "_"
    if v[0] == "!":
        return "!" + val_str(v[1])
    if v[0] == "N":
        return "N"
    raise ValueError(v)


# ---------------------------------------------------------------- leaves at the boundaries

def directed_leaves(rng, tier):
    L = []
    # no constraint: every kind
    for asn in KINDS:
        L.append(leaf(asn))
    # SIZE forms on the known-multiplier kinds and on the others (where SIZE is not PER/OER-visible)
    sizes = [(3, 3, False), (1, 5, False), (1, 5, True), (0, 0, False), (2, 2, True), (0, 255, False), (0, 256, False),
             (2, 65535, False), (0, 65536, False), (4, None, False), (0, 7, True)]
    for i, s in enumerate(sizes):
        L.append(leaf(KM[i % len(KM)], size=s))
    for asn in KM:
        L.append(leaf(asn, size=(1, 3, True)))
        L.append(leaf(asn, size=(2, 2, False)))
    L.append(leaf("UTF8String", size=(2, 2, False)))
    L.append(leaf("UTF8String", size=(1, 5, True)))
    L.append(leaf("GraphicString", size=(3, 3, False)))
    L.append(leaf("GeneralString", size=(1, 4, False)))
    # permitted alphabets: N = 1, 2, 3, 4, 5, 8, 9, 16, 17, 32, 33, 64 (index), 65 (as is), 95
    for n in (1, 2, 3, 4, 5, 8, 9, 16, 17, 32, 33, 64, 65, 95):
        L.append(leaf("IA5String" if n % 2 else "VisibleString", alpha={3: [(35, 37)], 8: [(40, 47)]}.get(n, [(32, 32 + n - 1)])))
    L.append(leaf("IA5String", alpha=[(65, 90)]))
    L.append(leaf("IA5String", alpha=[(126, 126)]))
    # with a character map (two or more intervals)
    maps = [[(65, 66), (88, 90)], [(48, 57), (65, 70)], [(48, 57), (65, 71)], [(32, 32), (48, 57)], [(33, 33), (35, 35), (37, 37), (126, 126)],
            [(48, 57), (65, 90), (97, 122)], [(32, 33), (35, 95), (97, 126)]]
    for i, a in enumerate(maps):
        L.append(leaf(("IA5String", "VisibleString")[i % 2], alpha=a))
    L.append(leaf("NumericString", alpha=[(48, 57)]))
    L.append(leaf("NumericString", alpha=[(32, 32), (48, 55)]))
    L.append(leaf("NumericString", alpha=[(32, 32)]))
    L.append(leaf("PrintableString", alpha=[(48, 57)]))
    L.append(leaf("PrintableString", alpha=[(65, 90), (97, 122)]))
    for asn in ("BMPString", "UniversalString"):
        L.append(leaf(asn, alpha=[(65, 90)]))
        L.append(leaf(asn, alpha=[(65, 66), (88, 90)]))
        L.append(leaf(asn, alpha=[(32, 126)]))
        L.append(leaf(asn, alpha=[(97, 97)]))
    # alphabet and size together
    L.append(leaf("IA5String", size=(1, 3, True), alpha=[(65, 66), (88, 90)]))
    L.append(leaf("NumericString", size=(2, 4, False), alpha=[(48, 57)]))
    L.append(leaf("BMPString", size=(1, 2, True), alpha=[(65, 70)]))
    L.append(leaf("VisibleString", size=(5, 5, False), alpha=[(97, 112)]))
    L.append(leaf("UniversalString", size=(0, 3, True), alpha=[(48, 57), (65, 70)]))
    L.append(leaf("PrintableString", size=(0, 300, False), alpha=[(65, 90)]))
    return L


def in_alpha(a, c):
    return any(lo <= c <= hi for lo, hi in a)


def random_leaf(rng):
    asn = rng.choice(KM + ["UTF8String", "GeneralString"] if rng.chance(1, 5) else KM)
    size = None
    if rng.chance(2, 3):
        lo = rng.choice([0, 0, 1, 2, 3, 7])
        if rng.chance(1, 4):
            hi = lo
        elif rng.chance(1, 8):
            hi = None
        else:
            hi = lo + rng.choice([1, 2, 3, 4, 7, 8, 15, 16, 100, 255, 256, 1000])
        size = (lo, hi, rng.chance(1, 3))
    alpha = None
    if known_mult({"asn": asn}) and rng.chance(1, 2):
        base = KINDS[asn][3] if asn in ("PrintableString", "NumericString") else [(32, 126)]
        allowed = [c for lo, hi in base for c in range(lo, hi + 1)]
        # 1..4 intervals inside the type's own alphabet
        k = rng.choice([1, 1, 2, 2, 3, 4])
        pts = sorted(set(rng.choice(allowed) for _ in range(2 * k)))
        ivs = []
        for i in range(0, len(pts) - 1, 2):
            lo, hi = pts[i], pts[i + 1]
            if lo in (34, 39):
                lo += 1
            if hi in (34, 39):
                hi -= 1
            if lo > hi:
                continue
            if not all(in_alpha(base, c) for c in range(lo, hi + 1)):
                hi = lo
            ivs.append((lo, hi))
        # canonical: merge adjacent / overlapping
        can = []
        for lo, hi in ivs:
            if can and lo <= can[-1][1] + 1:
                can[-1] = (can[-1][0], max(can[-1][1], hi))
            else:
                can.append((lo, hi))
        can = [(lo, hi) for lo, hi in can if lo not in (34, 39) and hi not in (34, 39)]
        if can:
            alpha = can
    return leaf(asn, size=size, alpha=alpha)


def boundary_alphabets():
    """the X.691 30.5.4 decision (character value as it is / index in the canonical order) at its boundaries:
    alphabets by (N characters, b = ceil(log2 N) bits, largest character ub) with ub in {2^b - 1, 2^b, 2^b + 1} for
    b = 1..7 (IA5String, Tuple notation) and 8, 15, 16 (BMPString, Quadruple notation), N = 2^b, 2^(b-1) + 1 and
    in between, contiguous and with a hole.  These live in a module of their own WITHOUT any other number
    (asn1c refuses every number token that follows a Tuple/Quadruple with a non-zero component)."""
    L, seen = [], set()

    def add(asn, a):
        a = [(lo, hi) for lo, hi in a if lo <= hi]
        key = (asn, tuple(a))
        top = 127 if KINDS[asn][2] == 1 else 65533 if asn == "BMPString" else 0x7fffffff
        if not a or a[0][0] < 0 or a[-1][1] > top or key in seen:
            return
        seen.add(key)
        l = leaf(asn, alpha=a)
        l["tuple"] = True
        L.append(l)

    for asn, bs in (("IA5String", (1, 2, 3, 4, 5, 6, 7)), ("BMPString", (8, 15, 16)), ("UniversalString", (8, 16))):
        for b in bs:
            p = 1 << b
            for ub in (p - 1, p, p + 1):
                for n in sorted(set([p, p // 2 + 1])):
                    if n < 1 or ub - n + 1 < 0:
                        continue
                    add(asn, [(ub - n + 1, ub)])                                 # contiguous
                    if n >= 3 and ub - n >= 0:
                        h = ub - n // 2                                            # one hole: n characters in two intervals
                        add(asn, [(ub - n, h - 1), (h + 1, ub)])
    # holes above 255: no character map is generated for these
    add("BMPString", [(256, 259), (512, 515)])
    add("UniversalString", [(65536, 65537), (65792, 65793)])
    return L


# ---------------------------------------------------------------- values

LONG_QUICK = [127, 128, 16383, 16384, 16385, 32768, 65535, 65536]
LONG_MORE = [129, 255, 256, 16382, 32767, 49152, 65537, 81920, 98304]


def pick_chars(l, n, rng, pattern="mix"):
    if not known_mult(l):
        if l["asn"] == "UTF8String":
            out = bytearray()
            while len(out) < n:
                e = chr(rng.choice([0x41, 0x7a, 0x20, 0xe9, 0x20ac, 0x1f600, 0x30])).encode("utf-8")
                if len(out) + len(e) <= n:
                    out += e
            return list(out)
        return [rng.choice(range(32, 127)) for _ in range(n)]
    a = eff_alpha(l)
    if l["asn"] == "UniversalString" and l["alpha"] is None:
        pool = [0, 65, 255, 256, 65535, 65536, 0x10ffff, 0x7fffffff]      # not above: the generated alphabet checker shifts into the sign bit (C04-generated-alphabet-shift)
    elif l["asn"] == "BMPString" and l["alpha"] is None:
        pool = [0, 65, 255, 256, 0x20ac, 65532, 65533]
    else:
        pool = sorted(set(c for lo, hi in a for c in (lo, hi, (lo + hi) // 2)))
    edge = [a[0][0], a[-1][1]]
    out = []
    for i in range(n):
        if pattern == "lo":
            out.append(edge[0])
        elif pattern == "hi":
            out.append(edge[1] if not (l["asn"] in ("BMPString", "UniversalString") and l["alpha"] is None) else pool[-1])
        elif i < len(pool) and n <= 40:
            out.append(pool[i])
        else:
            lo, hi = rng.choice(a)
            out.append(lo + rng.below(hi - lo + 1) if hi - lo < 1 << 20 else rng.choice(pool))
    return out


def lengths_for(l, rng, tier):
    s = l["size"]
    if s is None:
        return [0, 1, 2, 5, 12]
    lo, hi, ext = s
    ns = {lo, lo + 1}
    if hi is not None:
        ns |= {hi, max(lo, hi - 1), (lo + hi) // 2}
        ns |= {hi + 1, hi + 3}                       # outside: extension encoding or refused
        if ext:
            ns |= {hi + 130}
    else:
        ns |= {lo + 9}
    if lo > 0:
        ns.add(lo - 1)
    return sorted(n for n in ns if 0 <= n <= 2000)


# ---------------------------------------------------------------- modules

BASE_MEMBERS = [
    # (ASN.1 text after the tag, model type string with %d for the tag, value generator)
    ("BOOLEAN", "b%d", lambda rng: rng.chance(1, 2)),
    ("INTEGER (0..255)", "i%d[0,255,0]", lambda rng: rng.choice([0, 1, 127, 128, 255])),
    ("INTEGER (-5..5)", "i%d[-5,5,0]", lambda rng: rng.choice([-5, 0, 5])),
    ("OCTET STRING (SIZE(0..4))", "o%d[0,4,0]", lambda rng: bytes(rng.below(256) for _ in range(rng.below(5)))),
    ("OCTET STRING", "o%d[0,*,0]", lambda rng: bytes(rng.below(256) for _ in range(rng.below(9)))),
]


def gen_modules(rng, tier):
    """-> list of modules {name, text, defs, x: {type name: descriptor}}; descriptor = {kind P|Q|R, ...}"""
    leaves = directed_leaves(rng, tier) + [random_leaf(rng) for _ in range(8 if tier == "quick" else 60)]
    mods = []
    per = 40
    for mi in range(0, len(leaves), per):
        part = leaves[mi:mi + per]
        name = "PB%d" % (mi // per)
        x, lines = {}, []
        names = []
        for i, l in enumerate(part):
            tn = "L%d" % i
            l["name"] = tn
            names.append(tn)
            x[tn] = {"kind": "P", "etags": [], "leaf": l}
            lines.append("%s ::= %s" % (tn, leaf_text(l)))
        # tagged forms of a few leaves
        for j in range(6):
            l = part[rng.below(len(part))]
            mode = ("EXPLICIT", "IMPLICIT", "EXPLICIT2")[j % 3]
            tn = "X%d" % j
            tg = (ctag, atag)[j % 2](rng.choice([0, 1, 5, 30, 31, 127, 128, 300]))
            if mode == "IMPLICIT":
                x[tn] = {"kind": "P", "etags": [], "leaf": dict(l, tag=tg)}
                lines.append("%s ::= %s%s" % (tn, tag_text(tg, "IMPLICIT"), l["name"]))
            elif mode == "EXPLICIT":
                x[tn] = {"kind": "P", "etags": [tg], "leaf": l}
                lines.append("%s ::= %s%s" % (tn, tag_text(tg, "EXPLICIT"), l["name"]))
            else:
                tg2 = ctag(7)          # two EXPLICIT tags: through an intermediate type (asn1c's grammar takes one tag per type)
                x[tn + "a"] = {"kind": "P", "etags": [tg2], "leaf": l}
                lines.append("%sa ::= %s%s" % (tn, tag_text(tg2, "EXPLICIT"), l["name"]))
                x[tn] = {"kind": "P", "etags": [tg, tg2], "leaf": l}
                lines.append("%s ::= %s%sa" % (tn, tag_text(tg, "EXPLICIT"), tn))
        # SEQUENCEs: string members (mandatory / OPTIONAL, IMPLICIT / EXPLICIT / inline) next to base members
        for j in range(5):
            members, mtxt = [], []
            nm = 2 + rng.below(5)
            for k in range(nm):
                tg = ctag(k)
                opt = rng.chance(1, 3)
                if rng.chance(1, 3):
                    txt, ty, gen = rng.choice(BASE_MEMBERS)
                    tys = ty % tg
                    members.append({"kind": "B", "ty": ("?" + tys) if opt else tys, "opt": opt, "gen": gen})
                    mtxt.append("m%d %s%s%s" % (k, tag_text(tg, "IMPLICIT"), txt, " OPTIONAL" if opt else ""))
                else:
                    l = part[rng.below(len(part))]
                    how = rng.choice(["IMPLICIT", "EXPLICIT", "INLINE"])
                    if how == "INLINE" and l["asn"] in ("PrintableString", "NumericString") and l["size"] is None and l["alpha"] is None:
                        how = "IMPLICIT"      # plain inline members of these two use the skeleton's default constraints (known findings of C01's wide layer)
                    if how == "EXPLICIT":
                        members.append({"kind": "M", "etags": [tg], "opt": opt, "leaf": l})
                        mtxt.append("m%d %s%s%s" % (k, tag_text(tg, "EXPLICIT"), l["name"], " OPTIONAL" if opt else ""))
                    else:
                        members.append({"kind": "M", "etags": [], "opt": opt, "leaf": dict(l, tag=tg)})
                        mtxt.append("m%d %s%s%s" % (k, tag_text(tg, "IMPLICIT"), l["name"] if how == "IMPLICIT" else leaf_text(l), " OPTIONAL" if opt else ""))
            tn = "S%d" % j
            x[tn] = {"kind": "Q", "tag": utag(16), "members": members}
            lines.append("%s ::= SEQUENCE { %s }" % (tn, ", ".join(mtxt)))
        # SEQUENCE OF
        for j, sc in enumerate([None, (0, 3, False), (2, 2, False), (1, 4, True), (0, 70000, False)]):
            l = part[rng.below(len(part))]
            tn = "R%d" % j
            x[tn] = {"kind": "R", "tag": utag(16), "scon": sc if sc else (0, None, False), "etags": [], "leaf": l}
            lines.append("%s ::= SEQUENCE %sOF %s" % (tn, ("(" + size_text(sc) + ") ") if sc else "", l["name"]))
        text = "%s DEFINITIONS IMPLICIT TAGS ::= BEGIN\n%s\nEND\n" % (name, "\n".join(lines))
        for tn in x:
            x[tn]["sty"] = sty_str(x[tn])
        mods.append({"name": name, "text": text, "defs": [(tn, None) for tn in x], "x": x})
    # the alphabets at the as-is / index boundaries: Tuple / Quadruple notation, no other number in the module
    bl = boundary_alphabets()
    x, lines = {}, []
    for i, l in enumerate(bl):
        tn = "T%s" % "".join(chr(ord("A") + int(d)) for d in str(i))            # no digits needed, but keep names number-free anyway
        l["name"] = tn
        x[tn] = {"kind": "P", "etags": [], "leaf": l, "sty": None}
        lines.append("%s ::= %s" % (tn, leaf_text(l)))
    for tn in x:
        x[tn]["sty"] = sty_str(x[tn])
    mods.append({"name": "PBT", "text": "PBT DEFINITIONS IMPLICIT TAGS ::= BEGIN\n%s\nEND\n" % "\n".join(lines), "defs": [(tn, None) for tn in x], "x": x})
    # the long strings: one small module of its own
    ll = [leaf("IA5String"), leaf("BMPString"), leaf("IA5String", alpha=[(65, 66), (88, 90)]), leaf("UTF8String"),
          leaf("IA5String", size=(0, 65535, False)), leaf("IA5String", size=(0, 65536, False)), leaf("NumericString", size=(0, 20000, True), alpha=[(48, 57)]),
          leaf("UniversalString"), leaf("VisibleString", size=(16384, 16384, False))]
    x, lines = {}, []
    for i, l in enumerate(ll):
        tn = "G%d" % i
        l["name"] = tn
        x[tn] = {"kind": "P", "etags": [], "leaf": l, "long": True}
        lines.append("%s ::= %s" % (tn, leaf_text(l)))
    x["GR"] = {"kind": "R", "tag": utag(16), "scon": (0, None, False), "etags": [], "leaf": ll[2], "long": True}
    lines.append("GR ::= SEQUENCE OF G2")
    for tn in x:
        x[tn]["sty"] = sty_str(x[tn])
    mods.append({"name": "PBL", "text": "PBL DEFINITIONS IMPLICIT TAGS ::= BEGIN\n%s\nEND\n" % "\n".join(lines), "defs": [(tn, None) for tn in x], "x": x})
    return mods


def leaf_value(l, n, rng, pattern="mix"):
    cs = pick_chars(l, n, rng, pattern)
    return cs, octets(l, cs) if known_mult(l) else bytes(cs)


def make_cases(mods, rng, tier):
    cases = []

    def add(m, tn, v, cat, chars=None):
        x = m["x"][tn]
        cases.append({"m": m, "tn": tn, "x": x, "v": v, "vs": val_str(v), "cat": cat, "chars": chars})

    for m in mods:
        for tn, x in m["x"].items():
            if x.get("long"):
                continue
            if x["kind"] == "P":
                l = x["leaf"]
                for n in lengths_for(l, rng, tier):
                    pats = ["mix"] + (["lo", "hi"] if n in (1, 2) and not x["etags"] else [])
                    for p in pats:
                        cs, b = leaf_value(l, n, rng, p)
                        add(m, tn, b, "leaf:%s:n%d" % (l["asn"], n), cs if known_mult(l) else None)
            elif x["kind"] == "R":
                l = x["leaf"]
                lo, hi, ext = x["scon"]
                counts = sorted(set([lo, lo + 1] + ([hi, hi + 1] if hi is not None and hi < 100 else [3])))
                for cnt in counts:
                    els = []
                    for _ in range(cnt):
                        ns = [n for n in lengths_for(l, rng, tier) if n < 200]
                        els.append(leaf_value(l, rng.choice(ns), rng)[1])
                    add(m, tn, ("L", els), "seqof:n%d" % cnt)
            else:
                for rep in range(4 if tier == "quick" else 10):
                    vs = []
                    for mem in x["members"]:
                        absent = mem["opt"] and (rep == 0 or (rep > 1 and rng.chance(1, 2)))
                        if absent:
                            vs.append(("_",))
                            continue
                        if mem["kind"] == "B":
                            v = mem["gen"](rng)
                        else:
                            l = mem["leaf"]
                            ns = [n for n in lengths_for(l, rng, tier) if n < 400]
                            v = leaf_value(l, rng.choice(ns), rng)[1]
                        vs.append(("!", v) if mem["opt"] else v)
                    add(m, tn, ("S", vs), "seq:rep%d" % rep)
    # long strings
    pbl = [m for m in mods if m["name"] == "PBL"]
    if pbl:
        m = pbl[0]
        if tier == "quick":
            plan = [("G0", 16383), ("G0", 16384), ("G0", 16385), ("G2", 32768), ("G1", 16384), ("G3", 65536), ("G3", 127), ("G3", 128),
                    ("G4", 65535), ("G5", 65536), ("G6", 20001), ("G7", 16384)]
        else:
            plan = [(tn, n) for n in LONG_QUICK + LONG_MORE for tn in ("G0", "G1", "G2", "G3", "G7")] + \
                   [("G4", 0), ("G4", 65535), ("G5", 65535), ("G5", 65536), ("G6", 20000), ("G6", 20001), ("G6", 16384), ("G8", 16384)]
        for tn, n in plan:
            l = m["x"][tn]["leaf"]
            cs, b = leaf_value(l, n, rng)
            add(m, tn, b, "long:%s:n%d" % (l["asn"], n), cs if known_mult(l) and n <= 20000 else None)
        if tier != "quick":
            l = m["x"]["GR"]["leaf"]
            for cnt in [16383, 16384, 16385, 32768]:
                add(m, "GR", ("L", [leaf_value(l, rng.below(3), rng)[1] for _ in range(cnt)]), "long:seqof:n%d" % cnt)
    return cases


# ---------------------------------------------------------------- X.691 clause 30 / X.690 / X.696 in Python (independent of the Coq spec_*)

def py_bits_per_char(a):
    n = sum(hi - lo + 1 for lo, hi in a)
    b = 0
    while (1 << b) < n:
        b += 1
    return b


def py_char_code(a, c):
    """X.691 30.5.4: the value itself when the largest fits in b bits, else the index in canonical order"""
    b = py_bits_per_char(a)
    if not in_alpha(a, c):
        return None
    if a[-1][1] <= (1 << b) - 1:
        return c
    idx = 0
    for lo, hi in a:
        if lo <= c <= hi:
            return idx + c - lo
        idx += hi - lo + 1


def py_length_fragments(nitems, put_items, bits):
    """X.691 11.9.3.5-8: general length determinant with 16K fragmentation"""
    pos = 0
    while True:
        n = nitems - pos
        if n <= 127:
            bits.append(format(n, "08b"))
            put_items(pos, n)
            return
        if n < 16384:
            bits.append(format(0x8000 | n, "016b"))
            put_items(pos, n)
            return
        m = min(n // 16384, 4)
        bits.append(format(0xC0 | m, "08b"))
        put_items(pos, m * 16384)
        pos += m * 16384


def py_uper_str(l, chars):
    """-> bytes or None: X.691 30 for known-multiplier strings"""
    s = l["size"] or (0, None, False)
    lo, hi, ext = s
    n = len(chars)
    inroot = lo <= n and (hi is None or n <= hi)
    bits = []
    if not inroot and not ext:
        return None
    a = eff_alpha(l) if inroot else KINDS[l["asn"]][3]
    if l["asn"] == "BMPString" and a == [(0, 65533)]:
        a = [(0, 65535)]
    b = py_bits_per_char(a)
    codes = [py_char_code(a, c) for c in chars]
    if any(c is None for c in codes):
        return None
    if ext:
        bits.append("0" if inroot else "1")

    def put(pos, k):
        if b:
            bits.append("".join(format(c, "0%db" % b) for c in codes[pos:pos + k]))

    if inroot and hi is not None and hi < 65536:
        w = 0
        while (1 << w) < hi - lo + 1:
            w += 1
        if w:
            bits.append(format(n - lo, "0%db" % w))
        put(0, n)
    else:
        py_length_fragments(n, put, bits)
    s = "".join(bits)
    if not s:
        return b"\x00"
    s += "0" * (-len(s) % 8)
    return int(s, 2).to_bytes(len(s) // 8, "big")


def py_der_str(tag, l, chars):
    content = octets(l, chars)
    cls, num = tag % 4, tag // 4
    if num < 31:
        t = bytes([cls << 6 | num])
    else:
        ds = []
        while num:
            ds.append(num & 127)
            num >>= 7
        t = bytes([cls << 6 | 31] + [d | 128 for d in ds[:0:-1]] + [ds[0]])
    n = len(content)
    if n < 128:
        ln = bytes([n])
    else:
        nb = (n.bit_length() + 7) // 8
        ln = bytes([128 | nb]) + n.to_bytes(nb, "big")
    return t + ln + content


def py_oer_str(l, chars):
    content = octets(l, chars)
    s = l["size"]
    if known_mult(l) and s is not None and s[0] == s[1] and not s[2]:
        return content
    n = len(content)
    if n < 128:
        return bytes([n]) + content
    nb = (n.bit_length() + 7) // 8
    return bytes([128 | nb]) + n.to_bytes(nb, "big") + content
