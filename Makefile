# /verif/Makefile — builds the framework offline from files on disk.
#   make setup   full Coq build (.vo, no quick modes), extraction, OCaml model driver
#   make all     Coq development only
#   make model   extraction + ocaml/modeldrv
SHELL := /bin/bash
COQTIMEOUT ?= 3000
GEN := $(shell bin/gen-build-files)
VFILES := $(shell grep '\.v$$' coq/_CoqProject)
MODELV := $(filter-out Props/%,$(VFILES))

.PHONY: all setup model clean
all: coq/Makefile.coq
	cd coq && timeout $(COQTIMEOUT) $(MAKE) -f Makefile.coq

coq/Makefile.coq: coq/_CoqProject
	cd coq && coq_makefile -f _CoqProject -o Makefile.coq

AREAS := $(shell cat ocaml/gen/areas 2>/dev/null)
MODELML := $(foreach a,$(AREAS),ocaml/gen/model_$(a).ml)

ocaml/gen/model_%.ml: ocaml/gen/Extract_%.v $(addprefix coq/,$(MODELV)) | all
	cd ocaml/gen && timeout 600 coqc -Q ../../coq A1 Extract_$*.v

ocaml/modeldrv: $(MODELML) $(wildcard ocaml/*.ml) ocaml/gen/main.ml
	cd ocaml/gen && ocamlfind ocamlopt -package zarith -linkpkg -w -a -O2 $$(cat ocaml.order) -o ../modeldrv

model: all ocaml/modeldrv

setup: all model

clean:
	-cd coq && [ -f Makefile.coq ] && $(MAKE) -f Makefile.coq clean
	rm -f coq/Makefile.coq coq/Makefile.coq.conf
	rm -rf ocaml/gen ocaml/*.cm* ocaml/*.o ocaml/modeldrv
