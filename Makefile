# /verif/Makefile — builds the framework offline from files on disk.
#   make setup   full Coq build (.vo, no quick modes), extraction, OCaml model driver
#   make all     Coq development only
#   make model   extraction + ocaml/modeldrv
SHELL := /bin/bash
COQTIMEOUT ?= 3000
GEN := $(shell bin/gen-build-files)
VFILES := $(shell grep '\.v$$' coq/_CoqProject)
MODELV := $(filter-out Props/%,$(VFILES))

.PHONY: all setup model clean
all: coq/Makefile.coq
	cd coq && timeout $(COQTIMEOUT) $(MAKE) -f Makefile.coq

coq/Makefile.coq: coq/_CoqProject
	cd coq && coq_makefile -f _CoqProject -o Makefile.coq

ocaml/gen/model.ml: coq/Extract.v $(addprefix coq/,$(MODELV)) $(wildcard coq/extract/*.list) | all
	mkdir -p ocaml/gen && cd ocaml/gen && timeout 600 coqc -Q ../../coq A1 ../../coq/Extract.v

ocaml/modeldrv: ocaml/gen/model.ml $(wildcard ocaml/*.ml)
	cd ocaml && cp gen/model.ml gen/model.mli . && \
	ocamlfind ocamlopt -package zarith -linkpkg -w -a -O2 model.mli model.ml $$(cat ocaml.order) -o modeldrv

model: all ocaml/modeldrv

setup: all model

clean:
	-cd coq && [ -f Makefile.coq ] && $(MAKE) -f Makefile.coq clean
	rm -f coq/Makefile.coq coq/Makefile.coq.conf coq/Extract.vo coq/Extract.glob coq/.Extract.aux
	rm -rf ocaml/gen ocaml/model.ml ocaml/model.mli ocaml/*.cm* ocaml/*.o ocaml/modeldrv
