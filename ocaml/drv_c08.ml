(* drv_c08.ml — front end of coq/Rt/Constraints.v (C08).
     cty   := b | n | i[parts;parts] | o[parts] | s{cty*} | q[parts]cty | c{cty*} | R<0|1>cty | ?cty
     parts := empty | edge:edge(,edge:edge)*        edge := [-]digits | *   (MIN on the left, MAX on the right)
     val   := as in drv_rt.ml:  T | F | N | I<num>; | O<hex>; | S{val*} | L{val*} | C<num>:val | _ | !val
   commands (<w> = 1: the module is compiled with -fwide-types, 0: not):
     c08chk <w> <cty> <val>    -> OK | FAIL <constraint|toolarge|absent|noalt|shape>     (the model of asn_check_constraints)
     spec_c08sat <cty> <val>   -> true | false                                            (the Spec)
     c08safe <w> <cty>         -> true | false      (inside the region where check_exact is proved)
     c08repr <w> <cty> <val>   -> true | false      (every INTEGER fits the C type asn1c chose)
     c08clamp <maxlen> <vlen>  -> NONE | <errlen> <nulpos>                                (_asn_i_ctfailcb)
     c08set <w> <cty s{..}> <val S{..}> <map>  -> OK | FAIL <why>      SET_constraint on the SET with these members, the structure
                                 holding these slots and this _presence_map: map := dec (as a decoder leaves it) | hb (built by
                                 assignment: all clear) | <0|1>* (one bit per member)
     c08setpm ...              the same through the variant that consults the map (not the C; for the witnesses)
     u8len <hex|-|NULL>        -> <ssize_t>           UTF8String_length
     u8chk <hex|-|NULL>        -> 0 | -1              UTF8String_constraint
     u8wcs <hex|-> <dstlen>    -> <ret> <cell,...|->  UTF8String_to_wcs: the cells of dst written, in order
     spec_u8unicode <hex|->    -> true | false        well-formed UTF-8 of the Unicode standard (table 3-7) *)
open Model
open Drvlib

exception Parse of string

let expect s pos c =
  if pos < String.length s && s.[pos] = c then pos + 1
  else raise (Parse (Printf.sprintf "expected %c at %d" c pos))

let parse_int s pos : z * int =
  let n = String.length s in
  let j = ref pos in
  if !j < n && s.[!j] = '-' then incr j;
  while !j < n && s.[!j] >= '0' && s.[!j] <= '9' do incr j done;
  if !j = pos then raise (Parse ("number expected at " ^ string_of_int pos));
  (cz_of_string (String.sub s pos (!j - pos)), !j)

let parse_edge s pos (star : edge) : edge * int =
  if pos < String.length s && s.[pos] = '*' then (star, pos + 1)
  else let (z, p) = parse_int s pos in (EV z, p)

(* edge:edge(,edge:edge)* up to one of the stop characters *)
let rec parse_parts s pos : (edge * edge) list * int =
  if pos < String.length s && (s.[pos] = ';' || s.[pos] = ']') then ([], pos)
  else begin
    let (l, p) = parse_edge s pos EMin in
    let p = expect s p ':' in
    let (r, p) = parse_edge s p EMax in
    if p < String.length s && s.[p] = ',' then
      let (rest, p) = parse_parts s (p + 1) in ((l, r) :: rest, p)
    else ([(l, r)], p)
  end

let rec parse_ty s pos : cty * int =
  if pos >= String.length s then raise (Parse "type expected");
  match s.[pos] with
  | 'b' -> (CBool, pos + 1)
  | 'n' -> (CNull, pos + 1)
  | 'i' -> let p = expect s (pos + 1) '[' in
           let (ps, p) = parse_parts s p in
           let p = expect s p ';' in
           let (ex, p) = parse_parts s p in
           (CInt (ps, ex), expect s p ']')
  | 'o' -> let p = expect s (pos + 1) '[' in
           let (ps, p) = parse_parts s p in
           (COct ps, expect s p ']')
  | 's' -> let (ms, p) = parse_tys s (expect s (pos + 1) '{') in (CSeq ms, p)
  | 'q' -> let p = expect s (pos + 1) '[' in
           let (ps, p) = parse_parts s p in
           let p = expect s p ']' in
           let (e, p) = parse_ty s p in (CSeqOf (ps, e), p)
  | 'c' -> let (alts, p) = parse_tys s (expect s (pos + 1) '{') in (CChoice alts, p)
  | 'R' -> let g = (pos + 1 < String.length s && s.[pos + 1] = '1') in
           let (t, p) = parse_ty s (pos + 2) in (CRef (g, t), p)
  | '?' -> let (t, p) = parse_ty s (pos + 1) in (COpt t, p)
  | c -> raise (Parse (Printf.sprintf "bad type char %c at %d" c pos))
and parse_tys s pos : cty list * int =
  if pos < String.length s && s.[pos] = '}' then ([], pos + 1)
  else let (t, p) = parse_ty s pos in
       let (ts, p) = parse_tys s p in (t :: ts, p)

let rec parse_val s pos : val0 * int =
  if pos >= String.length s then raise (Parse "value expected");
  match s.[pos] with
  | 'T' -> (VBool true, pos + 1)
  | 'F' -> (VBool false, pos + 1)
  | 'N' -> (VNull, pos + 1)
  | 'I' -> let (z, p) = parse_int s (pos + 1) in (VInt z, expect s p ';')
  | 'O' -> let j = String.index_from s pos ';' in
           (VOct (bytes_of_hex (let h = String.sub s (pos + 1) (j - pos - 1) in if h = "" then "-" else h)), j + 1)
  | 'S' -> let (vs, p) = parse_vals s (expect s (pos + 1) '{') in (VSeq vs, p)
  | 'L' -> let (vs, p) = parse_vals s (expect s (pos + 1) '{') in (VList vs, p)
  | 'C' -> let (i, p) = parse_int s (pos + 1) in
           let (v, p) = parse_val s (expect s p ':') in (VChoice (nat_of_int (int_of_cz i), v), p)
  | '_' -> (VNone, pos + 1)
  | '!' -> let (v, p) = parse_val s (pos + 1) in (VSome v, p)
  | c -> raise (Parse (Printf.sprintf "bad value char %c at %d" c pos))
and parse_vals s pos =
  if pos < String.length s && s.[pos] = '}' then ([], pos + 1)
  else let (v, p) = parse_val s pos in
       let (vs, p) = parse_vals s p in (v :: vs, p)

let ty_of s = let (t, p) = parse_ty s 0 in
  if p <> String.length s then raise (Parse "trailing type text"); t
let val_of s = let (v, p) = parse_val s 0 in
  if p <> String.length s then raise (Parse "trailing value text"); v

let why_s = function
  | WConstraint -> "constraint" | WTooLarge -> "toolarge" | WAbsent -> "absent"
  | WNoAlt -> "noalt" | WShape -> "shape"
let res_s = function ROk -> "OK" | RFail w -> "FAIL " ^ why_s w

let dispatch cmd args =
  match cmd, args with
  | "c08chk", [w; t; v] -> Some (res_s (check (w = "1") (ty_of t) (val_of v)))
  | "spec_c08sat", [t; v] -> Some (bool_s (satisfies (ty_of t) (val_of v)))
  | "c08safe", [w; t] -> Some (bool_s (safe (w = "1") (ty_of t) false))
  | "c08repr", [w; t; v] -> Some (bool_s (repr (w = "1") (ty_of t) (val_of v)))
  | "c08clamp", [m; v] ->
      Some (match ctfail_clamp (cz_of_string m) (cz_of_string v) with
            | None -> "NONE"
            | Some (l, n) -> string_of_cz l ^ " " ^ string_of_cz n)
  | ("c08set" | "c08setpm"), [w; t; v; m] ->
      let ms = (match ty_of t with CSeq ms -> ms | _ -> raise (Parse "SET members expected")) in
      let vs = (match val_of v with VSeq vs -> vs | _ -> raise (Parse "S{..} expected")) in
      let st = (match m with
                | "dec" -> decoded vs
                | "hb" -> hand_built vs
                | bits -> with_map vs (List.init (String.length bits) (fun i -> bits.[i] = '1'))) in
      Some (res_s (if cmd = "c08set" then set_constraint (w = "1") ms st
                   else set_walk_pm (fun m x -> chk (w = "1") m true x) ms st))
  | "u8len", [h] -> Some (string_of_cz (utf8_length (if h = "NULL" then None else Some (bytes_of_hex h))))
  | "u8chk", [h] -> Some (string_of_cz (utf8_constraint (if h = "NULL" then None else Some (bytes_of_hex h))))
  | "u8wcs", [h; n] ->
      let (r, cells) = utf8_to_wcs (bytes_of_hex h) (nat_of_int (int_of_string n)) in
      Some (string_of_cz r ^ " " ^ (if cells = [] then "-" else String.concat "," (List.map string_of_cz cells)))
  | "spec_u8unicode", [h] -> Some (bool_s (uwf (bytes_of_hex h)))
  | _ -> None
