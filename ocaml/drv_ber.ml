(* drv_ber.ml — BER tag/length octets (same protocol as harness/leafdrv_ber.inc) *)
open Model
open Drvlib

let fres_s = function
  | FOk (v, n) -> Printf.sprintf "OK %s %d" (string_of_cz v) (int_of_nat n)
  | FMore -> "MORE"
  | FErr -> "ERR"

let dispatch cmd args =
  match cmd, args with
  | "tag_ser", [t] -> Some (hex_of_bytes (tag_serialize (cz_of_string t)))
  | "tag_fetch", [h] -> Some (fres_s (fetch_tag (bytes_of_hex h)))
  | "len_ser", [l] -> Some (hex_of_bytes (len_serialize (cz_of_string l)))
  | "len_fetch", [c; h] -> Some (fres_s (fetch_length (c = "1") (bytes_of_hex h)))
  | _ -> None
