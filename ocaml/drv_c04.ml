(* drv_c04.ml — the skip functions of Rt/SafetySkip.v (same protocol as harness/leafdrv_c04.inc)
     skiplen <constructed 0|1> <hex>      -> OK <n> | MORE | ERR            ber_skip_length
     uskip <hex> <bit offset 0..7>        -> OK <bits consumed> | FAIL      uper_open_type_skip
     oskip <hex>                          -> OK <length> <n> | MORE | ERR   oer_open_type_skip (n = length determinant + length)
     xskip <tcv 0..7> <depth>             -> <ret> <depth'>                 xer_skip_unknown
     xskiprun <depth> <tcv,tcv,...>       -> <ret> <depth'> <tags looked at>
   the tag-to-member lookups of Rt/SafetyTagMap.v, run on the tables `tm4` reads from the descriptors:
     seqmem <els> <map> <first_ext|-> <tags>   -> OK <i,j,..|none> | FAIL | SHORT | FUEL   phase 1 of SEQUENCE_decode_ber
     setmem <map> <ext 0|1> <tags>             -> OK <i,j,..|none> | FAIL                  member loop of SET_decode_ber
     tagfind <map> <tag>                       -> <member> | NONE                          CHOICE_decode_ber / SET
     seqfind <els> <map> <edx> <tag>           -> <member> | NONE
     tmapok <count> <map>                      -> names=<0|1> inside=<0|1>
       els = tag:optional:ctx,...   map = tag:el_no:toff_first:toff_last,...   tags = t,t,...   (- = empty)
   the reassembly loops of Rt/SafetyFrag.v on the chunk sizes (octets) the length determinants announce:
     fragot <c,c,...>                          -> OK <bufLen> <bufSize> rq=<realloc requests|-> w=<1: every store inside its block|0>
     fragstr <brk 0|1> <c,c,...>               -> rq=<..> w=<0|1>        OCTET STRING / BIT STRING / ANY (1), INTEGER (0)
     fragarr <n>                               -> rq=<..> w=<0|1>        n calls of asn_set_add()
   spec side (model only):
     spec_fragot_double <c,c,...>         the open-type loop with the growth rule of seeded/C04-6
     spec_skiplen_early <hex>             the loop of seeded/C04-2 on the contents of an indefinite TLV
     spec_seqmem_back <els> <map> <first_ext|-> <tags>    the member loop with the backwards walk of seeded/C04-5
     spec_seqfind_back <els> <map> <edx> <tag> *)
open Model
open Drvlib

let sres_s = function
  | SOk n -> Printf.sprintf "OK %d" (int_of_nat n)
  | SMore -> "MORE"
  | SErr -> "ERR"
  | SFuel -> "FUEL"
  | SOob -> "OOB"

let xct_of_int = function
  | 1 -> XOpening | 2 -> XClosing | 3 -> XBoth | 5 -> XUnkOpening | 6 -> XUnkClosing | 7 -> XUnkBoth
  | _ -> XOther

let rec drop n l = if n <= 0 then l else match l with [] -> [] | _ :: t -> drop (n - 1) t

let csv s = if s = "-" || s = "" then [] else String.split_on_char ',' s
let fields s = String.split_on_char ':' s
let els_of s = List.map (fun x -> match fields x with
    | t :: o :: _ -> (cz_of_string t, nat_of_int (int_of_string o)) | _ -> failwith "els") (csv s)
let reent_of s = List.map (fun x -> match fields x with
    | _ :: _ :: c :: _ -> (int_of_string c) land 1 = 1 | _ -> false) (csv s)
let map_of s = List.map (fun x -> match fields x with
    | [t; n; f; l] -> { el_tag = cz_of_string t; el_no = nat_of_int (int_of_string n); toff_first = cz_of_string f; toff_last = cz_of_string l }
    | _ -> failwith "map") (csv s)
let tags_of s = List.map cz_of_string (csv s)
let fext_of s = if s = "-" then None else Some (nat_of_int (int_of_string s))
let trace_s l = if l = [] then "none" else String.concat "," (List.map (fun n -> string_of_int (int_of_nat n)) l)
let lres_s = function
  | LOk tr -> "OK " ^ trace_s tr
  | LFail -> "FAIL"
  | LShort -> "SHORT"
  | LFuel -> "FUEL"
let onat_s = function Some n -> string_of_int (int_of_nat n) | None -> "NONE"

let zs_s l = if l = [] then "-" else String.concat "," (List.map string_of_cz l)
let ot_s r = Printf.sprintf "OK %s %s rq=%s w=%d" (string_of_cz r.ot_len) (string_of_cz r.ot_size) (zs_s r.ot_reqs)
    (if List.for_all wr_inb r.ot_writes then 1 else 0)

let dispatch cmd args =
  match cmd, args with
  | "fragot", [cs] -> Some (ot_s (ot_c (tags_of cs)))
  | "spec_fragot_double", [cs] -> Some (ot_s (ot_double (tags_of cs)))
  | "fragstr", [b; cs] ->
      let (rq, ws) = str_all (b = "1") (cz_of_string "1") (tags_of cs) in
      Some (Printf.sprintf "rq=%s w=%d" (zs_s rq) (if List.for_all wr_inb ws then 1 else 0))
  | "fragarr", [n] ->
      let r = arr_run (nat_of_int (int_of_string n)) (cz_of_string "0") (cz_of_string "0") in
      Some (Printf.sprintf "rq=%s w=%d" (zs_s r.a_reqs) (if List.for_all wr_inb r.a_writes then 1 else 0))
  | "seqmem", [e; m; x; t] -> Some (lres_s (seq_members (els_of e) (map_of m) (fext_of x) (reent_of e) (tags_of t)))
  | "spec_seqmem_back", [e; m; x; t] -> Some (lres_s (seq_members_back (els_of e) (map_of m) (fext_of x) (reent_of e) (tags_of t)))
  | "setmem", [m; x; t] ->
      Some (match set_members (map_of m) (x = "1") (tags_of t) with Some tr -> "OK " ^ trace_s tr | None -> "FAIL")
  | "tagfind", [m; t] -> Some (onat_s (tag_find (map_of m) (cz_of_string t)))
  | "seqfind", [e; m; x; t] -> Some (onat_s (seq_find (els_of e) (map_of m) (nat_of_int (int_of_string x)) (cz_of_string t)))
  | "spec_seqfind_back", [e; m; x; t] -> Some (onat_s (seq_find_back (els_of e) (map_of m) (nat_of_int (int_of_string x)) (cz_of_string t)))
  | "tmapok", [c; m] ->
      let mm = map_of m in
      Some (Printf.sprintf "names=%d inside=%d" (if names_members (nat_of_int (int_of_string c)) mm then 1 else 0)
              (if offsets_inside mm then 1 else 0))
  | "skiplen", [c; h] -> Some (sres_s (ber_skip_length (c = "1") (bytes_of_hex h)))
  | "spec_skiplen_early", [h] ->
      let b = bytes_of_hex h in
      let f = nat_of_int (List.length b + 1) in
      Some (sres_s (skip_loop_early (skip_length f) f O b))
  | "uskip", [h; off] ->
      let bits = drop (int_of_string off) (bytes_bits (bytes_of_hex h)) in
      Some (match uper_open_skip bits with
            | Some r -> Printf.sprintf "OK %d" (List.length bits - List.length r)
            | None -> "FAIL")
  | "oskip", [h] ->
      Some (match oer_open_type_skip_m (bytes_of_hex h) with
            | FOk (v, n) -> Printf.sprintf "OK %s %d" (string_of_cz v) (int_of_nat n)
            | FMore -> "MORE"
            | FErr -> "ERR")
  | "xskip", [t; d] ->
      let (r, d') = xer_skip (xct_of_int (int_of_string t)) (cz_of_string d) in
      Some (Printf.sprintf "%s %s" (string_of_cz r) (string_of_cz d'))
  | "xskiprun", [d; ts] ->
      let evs = List.map (fun s -> xct_of_int (int_of_string s)) (String.split_on_char ',' ts) in
      let ((r, d'), k) = xer_skip_run evs (cz_of_string d) O in
      Some (Printf.sprintf "%s %s %d" (string_of_cz r) (string_of_cz d') (int_of_nat k))
  | _ -> None
