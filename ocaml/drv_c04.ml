(* drv_c04.ml — the skip functions of Rt/SafetySkip.v (same protocol as harness/leafdrv_c04.inc)
     skiplen <constructed 0|1> <hex>      -> OK <n> | MORE | ERR            ber_skip_length
     uskip <hex> <bit offset 0..7>        -> OK <bits consumed> | FAIL      uper_open_type_skip
     oskip <hex>                          -> OK <length> <n> | MORE | ERR   oer_open_type_skip (n = length determinant + length)
     xskip <tcv 0..7> <depth>             -> <ret> <depth'>                 xer_skip_unknown
     xskiprun <depth> <tcv,tcv,...>       -> <ret> <depth'> <tags looked at>
   spec side (model only):
     spec_skiplen_early <hex>             the loop of seeded/C04-2 on the contents of an indefinite TLV *)
open Model
open Drvlib

let sres_s = function
  | SOk n -> Printf.sprintf "OK %d" (int_of_nat n)
  | SMore -> "MORE"
  | SErr -> "ERR"
  | SFuel -> "FUEL"
  | SOob -> "OOB"

let xct_of_int = function
  | 1 -> XOpening | 2 -> XClosing | 3 -> XBoth | 5 -> XUnkOpening | 6 -> XUnkClosing | 7 -> XUnkBoth
  | _ -> XOther

let rec drop n l = if n <= 0 then l else match l with [] -> [] | _ :: t -> drop (n - 1) t

let dispatch cmd args =
  match cmd, args with
  | "skiplen", [c; h] -> Some (sres_s (ber_skip_length (c = "1") (bytes_of_hex h)))
  | "spec_skiplen_early", [h] ->
      let b = bytes_of_hex h in
      let f = nat_of_int (List.length b + 1) in
      Some (sres_s (skip_loop_early (skip_length f) f O b))
  | "uskip", [h; off] ->
      let bits = drop (int_of_string off) (bytes_bits (bytes_of_hex h)) in
      Some (match uper_open_skip bits with
            | Some r -> Printf.sprintf "OK %d" (List.length bits - List.length r)
            | None -> "FAIL")
  | "oskip", [h] ->
      Some (match oer_open_type_skip_m (bytes_of_hex h) with
            | FOk (v, n) -> Printf.sprintf "OK %s %d" (string_of_cz v) (int_of_nat n)
            | FMore -> "MORE"
            | FErr -> "ERR")
  | "xskip", [t; d] ->
      let (r, d') = xer_skip (xct_of_int (int_of_string t)) (cz_of_string d) in
      Some (Printf.sprintf "%s %s" (string_of_cz r) (string_of_cz d'))
  | "xskiprun", [d; ts] ->
      let evs = List.map (fun s -> xct_of_int (int_of_string s)) (String.split_on_char ',' ts) in
      let ((r, d'), k) = xer_skip_run evs (cz_of_string d) O in
      Some (Printf.sprintf "%s %s %d" (string_of_cz r) (string_of_cz d') (int_of_nat k))
  | _ -> None
