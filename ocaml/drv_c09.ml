(* drv_c09.ml — constraint ranges (asn1fix_crange.c), PER/OER constraint rows
   (asn1c_C.c) and the Spec-side effective constraints.  One command per type:
     c09 <T|O|Q> <chain>        model: what asn1c prints / emits
     spec_c09 <T|O|Q> <chain>   spec: X.680 root/extensibility, X.691/X.696 effective constraint
   <chain> ::= n link*n ; link ::= k spec*k ; spec ::= r ess | x ess | a ess ess
   ess ::= v int | g bnd bnd | u ess ess | i ess ess | e ess ess | p ess | A ess
   bnd ::= MIN | MAX | int *)
open Model
open Drvlib

exception Parse of string

let p_bnd = function
  | "MIN" :: tl -> (BMin, tl)
  | "MAX" :: tl -> (BMax, tl)
  | s :: tl -> (BInt (cz_of_string s), tl)
  | [] -> raise (Parse "bnd")

let rec p_ess = function
  | "v" :: s :: tl -> (EVal (cz_of_string s), tl)
  | "g" :: tl -> let (a, tl) = p_bnd tl in let (b, tl) = p_bnd tl in (ERange (a, b), tl)
  | "u" :: tl -> let (a, tl) = p_ess tl in let (b, tl) = p_ess tl in (EUnion (a, b), tl)
  | "i" :: tl -> let (a, tl) = p_ess tl in let (b, tl) = p_ess tl in (EInter (a, b), tl)
  | "e" :: tl -> let (a, tl) = p_ess tl in let (b, tl) = p_ess tl in (EExcept (a, b), tl)
  | "p" :: tl -> let (a, tl) = p_ess tl in (EParen a, tl)
  | "A" :: tl -> let (a, tl) = p_ess tl in (EAllExcept a, tl)
  | _ -> raise (Parse "ess")

let p_spec = function
  | "r" :: tl -> let (a, tl) = p_ess tl in (SRoot a, tl)
  | "x" :: tl -> let (a, tl) = p_ess tl in (SExt a, tl)
  | "a" :: tl -> let (a, tl) = p_ess tl in let (b, tl) = p_ess tl in (SExtAdd (a, b), tl)
  | _ -> raise (Parse "spec")

let rec p_n f n toks = if n = 0 then ([], toks) else
  let (x, toks) = f toks in let (xs, toks) = p_n f (n - 1) toks in (x :: xs, toks)

let p_link = function
  | k :: tl -> p_n p_spec (int_of_string k) tl
  | [] -> raise (Parse "link")

let p_chain = function
  | n :: tl -> let (c, rest) = p_n p_link (int_of_string n) tl in
      if rest <> [] then raise (Parse "trailing") else c
  | [] -> raise (Parse "chain")

(* nested SIZE expressions (Fix/CtNest.v):
     c09n <O|B|I|M|Q|W> <bare 0|1> <nchain>     model
     spec_c09n <nchain>                          spec (CtNest.nroot / nextc)
   nchain ::= n nlink*n ; nlink ::= k nspec*k ; nspec ::= r ness | x ness | a ness ness
   ness ::= S spec | u ness ness | i ness ness | e ness ness | p ness *)
let rec p_ness = function
  | "S" :: tl -> let (s, tl) = p_spec tl in (NSize s, tl)
  | "u" :: tl -> let (a, tl) = p_ness tl in let (b, tl) = p_ness tl in (NUnion (a, b), tl)
  | "i" :: tl -> let (a, tl) = p_ness tl in let (b, tl) = p_ness tl in (NInter (a, b), tl)
  | "e" :: tl -> let (a, tl) = p_ness tl in let (b, tl) = p_ness tl in (NExcept (a, b), tl)
  | "p" :: tl -> let (a, tl) = p_ness tl in (NParen a, tl)
  | _ -> raise (Parse "ness")

let p_nspec = function
  | "r" :: tl -> let (a, tl) = p_ness tl in (NRoot a, tl)
  | "x" :: tl -> let (a, tl) = p_ness tl in (NExt a, tl)
  | "a" :: tl -> let (a, tl) = p_ness tl in let (b, tl) = p_ness tl in (NExtAdd (a, b), tl)
  | _ -> raise (Parse "nspec")

let p_nlink = function
  | k :: tl -> p_n p_nspec (int_of_string k) tl
  | [] -> raise (Parse "nlink")

let p_nchain = function
  | n :: tl -> let (c, rest) = p_n p_nlink (int_of_string n) tl in
      if rest <> [] then raise (Parse "trailing") else c
  | [] -> raise (Parse "nchain")

let p_ntype = function
  | "O" | "B" | "I" | "M" -> TOctetString | "Q" | "W" -> TSequenceOf
  | _ -> raise (Parse "ntype")

let p_type = function
  | "T" -> (TInteger, false) | "O" -> (TOctetString, true) | "Q" -> (TSequenceOf, true)
  | _ -> raise (Parse "type")

(* ---- printing as asn1print.c does (spaces removed) ---- *)
let edge_s = function EMin -> "MIN" | EMax -> "MAX" | EV z -> string_of_cz z

let range_s size (r : range) =
  let ps = match r.r_elems with [] -> [(r.r_left, r.r_right)] | l -> l in
  let one (l, rr) = if l = rr then edge_s l else edge_s l ^ ".." ^ edge_s rr in
  let body = String.concat "|" (List.map one ps) ^ (if r.r_ext then ",..." else "") in
  (if size then "(SIZE(" ^ body ^ "))" else "(" ^ body ^ ")") ^ (if r.r_empty then ":Empty!" else "")

(* asn1print_constraint_explain_type *)
let explain size (t : tres) (v : vis) =
  match t with
  | TNone -> "-"
  | TFail -> if v = VisNone then "FAIL" else "-"   (* NULL: asn1print prints nothing; only the unflagged run is fatal (asn1f_check_constraints) *)
  | TAbort -> "ABORT" | TFuel -> "FUEL"
  | TOk r ->
      if r.r_incompat then "-"
      else if v = VisOER && r.r_notOER then "-"
      else if v = VisPER && r.r_notPER then "-"
      else range_s size r

let row_s (r : per_row) =
  Printf.sprintf "%s%s,%s,%s,%s,%s"
    (match r.p_kind with ApcUnconstrained -> "U" | ApcSemiConstrained -> "S" | ApcConstrained -> "C")
    (if r.p_ext then "X" else "") (string_of_cz r.p_rbits) (string_of_cz r.p_ebits)
    (string_of_cz r.p_lo) (string_of_cz r.p_hi)

let model_line ty chain =
  let (t, size) = p_type ty in
  let ct = pullup size chain in
  let rq = if size then ReqSize else ReqValue in
  let col v = explain size (compute_top t ct rq v) v in
  let (pv, ps) = per_tables t ct in
  let ((ow, op), os) = oer_tables t ct in
  Printf.sprintf "prac=%s oer=%s per=%s PER=%s/%s OER=%s,%s,%s"
    (col VisNone) (col VisOER) (col VisPER) (row_s pv) (row_s ps)
    (string_of_cz ow) (string_of_cz op) (string_of_cz os)

let nmodel_line ty bare chain =
  let t = p_ntype ty in
  let p = npullup (bare = "1") chain in
  let col v = explain true (ncompute_top t p ReqSize v) v in
  Printf.sprintf "prac=%s oer=%s per=%s PERS=%s OERS=%s"
    (col VisNone) (col VisOER) (col VisPER) (row_s (nper_size_row t p)) (string_of_cz (noer_size t p))

(* ---- Spec side ---- *)
let xz_s = function NegInf -> "MIN" | PosInf -> "MAX" | Fin z -> string_of_cz z
let iset_s size ext (s : iset) =
  let one (l, r) = if l = r then xz_s l else xz_s l ^ ".." ^ xz_s r in
  let body = String.concat "|" (List.map one (normalize s)) ^ (if ext then ",..." else "") in
  if size then "(SIZE(" ^ body ^ "))" else "(" ^ body ^ ")"

let spec_line ty chain =
  let (_, size) = p_type ty in
  let e = per_effective size chain in
  let x = ext chain in
  let oer = match oer_effective size chain with
    | None -> "unclaimed"
    | Some oe ->
        if oe.e_empty then "empty"
        else if size then string_of_cz (oer_size_of_eff oe)
        else let (w, p) = oer_number_of oe in string_of_cz w ^ "," ^ string_of_cz p in
  Printf.sprintf "vis=%s x680=%s empty=%s PER=%s OER=%s lb=%s ub=%s"
    (iset_s size x (root true size chain)) (iset_s size x (root false size chain))
    (bool_s e.e_empty) (row_s (tables_of e)) oer (xz_s e.e_lb) (xz_s e.e_ub)

let nspec_line chain =
  let e = nper_effective chain in
  Printf.sprintf "vis=%s empty=%s PERS=%s ext=%s"
    (iset_s true (nextc chain) (nroot true chain)) (bool_s e.e_empty) (row_s (tables_of e)) (bool_s (nextc chain))

(* known-finding classifier: the Spec changed by the rules named in the mask (letters of "aceu") *)
let quirk_line mask ty chain =
  let (_, size) = p_type ty in
  let has c = String.contains mask c in
  let q = { q_add = has 'a'; q_chain = has 'c'; q_empty = has 'e'; q_uext = has 'u' } in
  let e = effq q size chain in
  let anymark = List.exists (fun s -> match s with SRoot _ -> false | _ -> true) (List.concat chain) in
  let oer = if anymark then "unclaimed" else if e.e_empty then "empty"
    else if size then string_of_cz (oer_size_of_eff e)
    else let (w, p) = oer_number_of e in string_of_cz w ^ "," ^ string_of_cz p in
  Printf.sprintf "vis=%s empty=%s PER=%s OER=%s"
    (iset_s size e.e_ext (rootq q size chain)) (bool_s e.e_empty) (row_s (tablesq q e)) oer

let dispatch cmd args =
  match cmd, args with
  | "c09", ty :: rest -> (try Some (model_line ty (p_chain rest)) with Parse s -> Some ("PARSE " ^ s))
  | "quirk_c09", mask :: ty :: rest -> (try Some (quirk_line mask ty (p_chain rest)) with Parse s -> Some ("PARSE " ^ s))
  | "c09n", ty :: bare :: rest -> (try Some (nmodel_line ty bare (p_nchain rest)) with Parse s -> Some ("PARSE " ^ s))
  | "spec_c09n", rest -> (try Some (nspec_line (p_nchain rest)) with Parse s -> Some ("PARSE " ^ s))
  | "spec_c09", ty :: rest -> (try Some (spec_line ty (p_chain rest)) with Parse s -> Some ("PARSE " ^ s))
  | _ -> None
