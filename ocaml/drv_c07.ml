(* drv_c07.ml — encoder API contract (C07): the extracted wrappers of Rt/AppApi.v run on a
   script (the chunks an inner encoder offers, its result).
     script := <bits 0|1> <ending ok:<n> | fail:<0|1>> <chunks hex,hex,..  (e = empty chunk, - = none)>
   commands:
     c07_encode <script> <k>      asn_encode, callback failing at invocation k (k<0: never)
         -> ret=<n> errno=<E> calls=<c> hex=<delivered> | ABORT <assert#>
     c07_tobuf  <script> <size>   asn_encode_to_buffer into <size> octets of a5
         -> ret=<n> errno=<E> oob=<0|1> buf=<hex> | ABORT <n>
     c07_newbuf <script> <j>      asn_encode_to_new_buffer, the j-th REALLOC failing (j<0: never)
         -> ret=<n> errno=<E> buf=<hex|NULL> | ABORT <n> *)
open Model
open Drvlib

let errno_s = function E0 -> "E0" | EINVAL -> "EINVAL" | ENOENT -> "ENOENT" | EBADF -> "EBADF" | EIO -> "EIO"

let parse_script bits ending chunks : bool * script =
  let b = (bits = "1") in
  let e =
    match String.split_on_char ':' ending with
    | ["ok"; n] -> IOk (cz_of_string n)
    | ["fail"; h] -> IFail (h = "1")
    | _ -> failwith "ending" in
  let cs =
    if chunks = "-" then []
    else List.map (fun h -> if h = "e" then [] else bytes_of_hex h) (String.split_on_char ',' chunks) in
  (b, { chunks = cs; ending = e; on_cb_fail = IFail true })

let hexcat (l : z list list) = hex_of_bytes (List.concat l)

let dispatch cmd args =
  match cmd, args with
  | "c07_encode", [bits; ending; chunks; k] ->
      let (b, sc) = parse_script bits ending chunks in
      let k = int_of_string k in
      let ko = if k < 0 then None else Some (nat_of_int k) in
      (match model_encode b sc ko with
       | Done (((calls, acc)), r) ->
           Some (Printf.sprintf "ret=%s errno=%s calls=%d hex=%s" (string_of_cz r.encoded) (errno_s r.err) (int_of_nat calls) (hexcat acc))
       | Aborted n -> Some (Printf.sprintf "ABORT %d" (int_of_nat n)))
  | "c07_tobuf", [bits; ending; chunks; size] ->
      let (b, sc) = parse_script bits ending chunks in
      let n = int_of_string size in
      let mem = List.init n (fun _ -> cz_of_int 0xa5) in
      (match model_tobuf b sc mem (cz_of_int n) with
       | Done (st, r) ->
           Some (Printf.sprintf "ret=%s errno=%s oob=%d buf=%s" (string_of_cz r.encoded) (errno_s r.err) (if st.o_oob then 1 else 0) (hex_of_bytes st.o_mem))
       | Aborted n -> Some (Printf.sprintf "ABORT %d" (int_of_nat n)))
  | "c07_newbuf", [bits; ending; chunks; j] ->
      let (b, sc) = parse_script bits ending chunks in
      let j = int_of_string j in
      let jo = if j < 0 then None else Some (nat_of_int j) in
      (match model_newbuf b sc jo with
       | Done res ->
           Some (Printf.sprintf "ret=%s errno=%s buf=%s" (string_of_cz res.nb_result.encoded) (errno_s res.nb_result.err)
                   (match res.nb_buffer with Some bs -> hex_of_bytes bs | None -> "NULL"))
       | Aborted n -> Some (Printf.sprintf "ABORT %d" (int_of_nat n)))
  | _ -> None
