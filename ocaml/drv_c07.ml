(* drv_c07.ml — encoder API contract (C07): the extracted wrappers of Rt/AppApi.v run on a
   script (the chunks an inner encoder offers, its result).
     script := <bits 0|1> <ending ok:<n> | fail:<0|1>> <chunks hex,hex,..  (e = empty chunk, - = none)>
   commands:
     c07_encode <script> <k>      asn_encode, callback failing at invocation k (k<0: never)
         -> ret=<n> errno=<E> calls=<c> hex=<delivered> | ABORT <assert#>
     c07_tobuf  <script> <size>   asn_encode_to_buffer into <size> octets of a5
         -> ret=<n> errno=<E> oob=<0|1> buf=<hex> | ABORT <n>
     c07_newbuf <script> <j>      asn_encode_to_new_buffer, the j-th REALLOC failing (j<0: never)
         -> ret=<n> errno=<E> buf=<hex|NULL> | ABORT <n>
     c07_xer <can 0|1> <tag> <xv> <k>          asn_encode over the modelled XER encoder (Rt/XerEnc.v)
         -> ret=<n> errno=<E> calls=<c> sizes=<s0,s1,..|-> hex=<delivered> | ABORT <n>
     c07_xerfast <can> <tag> <xv>              the modelled encoder alone (xer_encode of Rt/XerEnc.v) with a collecting
         callback of the driver (constant time per invocation; for values of thousands of chunks) -> as c07_xer with k < 0
     c07_xer_tobuf <can> <tag> <xv> <size>     -> as c07_tobuf
     c07_xer_newbuf <can> <tag> <xv>           -> as c07_newbuf
     c07_int <can> <tag> <contents hex> <k>    asn_encode over xer_encode around the chunked INTEGER dump (Rt/XerChunk.v:
         INTEGER__dump, decimal within intmax_t, xx:yy:zz through the 32-octet scratch beyond) -> as c07_xer
     c07_int_tobuf <can> <tag> <contents> <size>, c07_int_newbuf <can> <tag> <contents>   -> as c07_tobuf / c07_newbuf
   xv := B0 | B1 | N | I<decimal>; | O<hex>; | S{<name>:<xv>...} | C<name>:<xv> | X (CHOICE, nothing selected)
       | M (NULL pointer) | Q<mode>{<xv>...} (SEQUENCE OF) | T<mode>{<xv>...} (SET OF)
   mode := i<element name>: | v<element xml tag>: | c<element xml tag>:    (as_XMLValueList 0 / 1 / 2) *)
open Model
open Drvlib

let errno_s = function E0 -> "E0" | EINVAL -> "EINVAL" | ENOENT -> "ENOENT" | EBADF -> "EBADF" | EIO -> "EIO"

let parse_script bits ending chunks : bool * script =
  let b = (bits = "1") in
  let e =
    match String.split_on_char ':' ending with
    | ["ok"; n] -> IOk (cz_of_string n)
    | ["fail"; h] -> IFail (h = "1")
    | _ -> failwith "ending" in
  let cs =
    if chunks = "-" then []
    else List.map (fun h -> if h = "e" then [] else bytes_of_hex h) (String.split_on_char ',' chunks) in
  (b, { chunks = cs; ending = e; on_cb_fail = IFail true })

let zs_of_string (s : string) : z list = List.init (String.length s) (fun i -> cz_of_int (Char.code s.[i]))

let parse_xv (s : string) : xv =
  let pos = ref 0 in
  let n = String.length s in
  let peek () = if !pos < n then s.[!pos] else failwith "xv: truncated" in
  let adv () = incr pos in
  let until c =
    let st = !pos in
    while peek () <> c do adv () done;
    let r = String.sub s st (!pos - st) in adv (); r in
  let expect c = if peek () <> c then failwith "xv: syntax" else adv () in
  let rec xv () =
    let c = peek () in adv ();
    match c with
    | 'B' -> let b = peek () = '1' in adv (); XVBool b
    | 'N' -> XVNull
    | 'I' -> XVInt (cz_of_string (until ';'))
    | 'O' -> let h = until ';' in XVOct (if h = "" then [] else bytes_of_hex h)
    | 'S' -> expect '{';
        let rec ms acc = if peek () = '}' then (adv (); List.rev acc)
          else let nm = until ':' in let v = xv () in ms ((zs_of_string nm, v) :: acc) in
        XVSeq (ms [])
    | 'C' -> let nm = until ':' in let v = xv () in XVChoice (zs_of_string nm, v)
    | 'X' -> XVChoiceNone
    | 'M' -> XVMissing
    | 'Q' | 'T' ->
        let mc = peek () in adv ();
        let nm = zs_of_string (until ':') in
        let mode = (match mc with 'i' -> OfItems nm | 'v' -> OfValues nm | 'c' -> OfChoices nm | _ -> failwith "xv: mode") in
        expect '{';
        let rec vs acc = if peek () = '}' then (adv (); List.rev acc) else let v = xv () in vs (v :: acc) in
        let l = vs [] in
        if c = 'Q' then XVSeqOf (mode, l) else XVSetOf (mode, l)
    | _ -> failwith "xv: syntax" in
  let v = xv () in
  if !pos <> n then failwith "xv: trailing" else v

let hexcat (l : z list list) = hex_of_bytes (List.concat l)

let dispatch cmd args =
  match cmd, args with
  | "c07_encode", [bits; ending; chunks; k] ->
      let (b, sc) = parse_script bits ending chunks in
      let k = int_of_string k in
      let ko = if k < 0 then None else Some (nat_of_int k) in
      (match model_encode b sc ko with
       | Done (((calls, acc)), r) ->
           Some (Printf.sprintf "ret=%s errno=%s calls=%d hex=%s" (string_of_cz r.encoded) (errno_s r.err) (int_of_nat calls) (hexcat acc))
       | Aborted n -> Some (Printf.sprintf "ABORT %d" (int_of_nat n)))
  | "c07_tobuf", [bits; ending; chunks; size] ->
      let (b, sc) = parse_script bits ending chunks in
      let n = int_of_string size in
      let mem = List.init n (fun _ -> cz_of_int 0xa5) in
      (match model_tobuf b sc mem (cz_of_int n) with
       | Done (st, r) ->
           Some (Printf.sprintf "ret=%s errno=%s oob=%d buf=%s" (string_of_cz r.encoded) (errno_s r.err) (if st.o_oob then 1 else 0) (hex_of_bytes st.o_mem))
       | Aborted n -> Some (Printf.sprintf "ABORT %d" (int_of_nat n)))
  | "c07_newbuf", [bits; ending; chunks; j] ->
      let (b, sc) = parse_script bits ending chunks in
      let j = int_of_string j in
      let jo = if j < 0 then None else Some (nat_of_int j) in
      (match model_newbuf b sc jo with
       | Done res ->
           Some (Printf.sprintf "ret=%s errno=%s buf=%s" (string_of_cz res.nb_result.encoded) (errno_s res.nb_result.err)
                   (match res.nb_buffer with Some bs -> hex_of_bytes bs | None -> "NULL"))
       | Aborted n -> Some (Printf.sprintf "ABORT %d" (int_of_nat n)))
  | "c07_xer", [can; tag; v; k] ->
      let k = int_of_string k in
      let ko = if k < 0 then None else Some (nat_of_int k) in
      (match model_xer_encode (can = "1") (zs_of_string tag) (parse_xv v) ko with
       | Done (((calls, acc)), r) ->
           let sizes = if acc = [] then "-" else String.concat "," (List.map (fun c -> string_of_int (List.length c)) acc) in
           Some (Printf.sprintf "ret=%s errno=%s calls=%d sizes=%s hex=%s" (string_of_cz r.encoded) (errno_s r.err) (int_of_nat calls) sizes (hexcat acc))
       | Aborted n -> Some (Printf.sprintf "ABORT %d" (int_of_nat n)))
  | "c07_xerfast", [can; tag; v] ->
      (* the extracted encoder is polymorphic in the callback state (forall S); extraction erases S to Obj.t *)
      let cb = (fun (st : Obj.t) (c : z list) -> (Obj.repr (c :: (Obj.obj st : z list list)), true)) in
      let (st, r) = xer_encode (can = "1") (zs_of_string tag) (parse_xv v) cb (Obj.repr ([] : z list list)) in
      let acc = List.rev (Obj.obj st : z list list) in
      let sizes = if acc = [] then "-" else String.concat "," (List.map (fun c -> string_of_int (List.length c)) acc) in
      let buf = Buffer.create 65536 in
      List.iter (fun c -> List.iter (fun b -> Buffer.add_string buf (Printf.sprintf "%02x" (int_of_cz b land 0xff))) c) acc;
      let hex = if Buffer.length buf = 0 then "-" else Buffer.contents buf in
      (match r with
       | Some n -> Some (Printf.sprintf "ret=%s errno=E0 calls=%d sizes=%s hex=%s" (string_of_cz n) (List.length acc) sizes hex)
       | None -> Some (Printf.sprintf "ret=-1 errno=EBADF calls=%d sizes=%s hex=%s" (List.length acc) sizes hex))
  | "c07_xer_tobuf", [can; tag; v; size] ->
      let n = int_of_string size in
      let mem = List.init n (fun _ -> cz_of_int 0xa5) in
      (match model_xer_tobuf (can = "1") (zs_of_string tag) (parse_xv v) mem (cz_of_int n) with
       | Done (st, r) ->
           Some (Printf.sprintf "ret=%s errno=%s oob=%d buf=%s" (string_of_cz r.encoded) (errno_s r.err) (if st.o_oob then 1 else 0) (hex_of_bytes st.o_mem))
       | Aborted n -> Some (Printf.sprintf "ABORT %d" (int_of_nat n)))
  | "c07_xer_newbuf", [can; tag; v] ->
      (match model_xer_newbuf (can = "1") (zs_of_string tag) (parse_xv v) with
       | Done res ->
           Some (Printf.sprintf "ret=%s errno=%s buf=%s" (string_of_cz res.nb_result.encoded) (errno_s res.nb_result.err)
                   (match res.nb_buffer with Some bs -> hex_of_bytes bs | None -> "NULL"))
       | Aborted n -> Some (Printf.sprintf "ABORT %d" (int_of_nat n)))
  | "c07_int", [can; tag; content; k] ->
      (* the chunked INTEGER dump (Rt/XerChunk.v) inside xer_encode, through the modelled asn_encode *)
      let k = int_of_string k in
      let ko = if k < 0 then None else Some (nat_of_int k) in
      let c = if content = "-" then [] else bytes_of_hex content in
      (match model_int_xer (can = "1") (zs_of_string tag) c ko with
       | Done (((calls, acc)), r) ->
           let sizes = if acc = [] then "-" else String.concat "," (List.map (fun c -> string_of_int (List.length c)) acc) in
           Some (Printf.sprintf "ret=%s errno=%s calls=%d sizes=%s hex=%s" (string_of_cz r.encoded) (errno_s r.err) (int_of_nat calls) sizes (hexcat acc))
       | Aborted n -> Some (Printf.sprintf "ABORT %d" (int_of_nat n)))
  | "c07_int_tobuf", [can; tag; content; size] ->
      let n = int_of_string size in
      let mem = List.init n (fun _ -> cz_of_int 0xa5) in
      let c = if content = "-" then [] else bytes_of_hex content in
      (match model_int_xer_tobuf (can = "1") (zs_of_string tag) c mem (cz_of_int n) with
       | Done (st, r) ->
           Some (Printf.sprintf "ret=%s errno=%s oob=%d buf=%s" (string_of_cz r.encoded) (errno_s r.err) (if st.o_oob then 1 else 0) (hex_of_bytes st.o_mem))
       | Aborted n -> Some (Printf.sprintf "ABORT %d" (int_of_nat n)))
  | "c07_int_newbuf", [can; tag; content] ->
      let c = if content = "-" then [] else bytes_of_hex content in
      (match model_int_xer_newbuf (can = "1") (zs_of_string tag) c with
       | Done res ->
           Some (Printf.sprintf "ret=%s errno=%s buf=%s" (string_of_cz res.nb_result.encoded) (errno_s res.nb_result.err)
                   (match res.nb_buffer with Some bs -> hex_of_bytes bs | None -> "NULL"))
       | Aborted n -> Some (Printf.sprintf "ABORT %d" (int_of_nat n)))
  | _ -> None
