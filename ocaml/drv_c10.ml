(* drv_c10.ml — front end of the C10 round-2 models (coq/Fix/ParamSpec.v, coq/Fix/FileSet.v).
     c10_spec <n> <alist>*n   the references to ONE parameterized type, in the order asn1c meets them; each
                              <alist> = L <k> <pexpr>*k (the actual parameter list), tokens as written by
                              lib/c10_regions.py:a_model
                              -> "OK i0 i1 ..." (specialization indices, ParamSpec.spec_indices) | "ABORT"
     c10_spec_key ...         the same after erasing constraints and nested parameter lists (must print the same line:
                              ParamSpecProofs.spec_ignores_constraints; the check replays the theorem on every case)
     c10_files <k> (<module> <n> (<identifier> <0|1 is-type>)*n)*k
                              -> "OK clean=<b> stem stem ..." (FileSet.file_stems, in writing order) | "FATAL"
     c10_files_bare ...       -> "OK stem ..." under the bare-identifier rule (spec side only: what must NOT happen)
     c10_fold <n> <unit>*n    round 4, coq/Fix/CompileFold.v: the top-level emission units of all modules in order;
                              <unit> = T <own 0|1> <k> <unit>*k (a type: verdict of its own emitter, EMBEDded components)
                                     | S <k> <unit>*k           (a parameterized type: its specializations in index order)
                              -> "OK exit=<0|70> fatals=<number of `FATAL: Cannot compile` lines>"
     c10_fold_last ...        -> "OK exit=<..>" under the last-wins specialization loop (spec side only: what must NOT happen) *)
open Model
open Drvlib

let ascii_of_char (c : char) : ascii =
  let n = Char.code c in
  let b i = (n lsr i) land 1 = 1 in
  Ascii (b 0, b 1, b 2, b 3, b 4, b 5, b 6, b 7)

let char_of_ascii (Ascii (b0, b1, b2, b3, b4, b5, b6, b7)) : char =
  let v b i = if b then 1 lsl i else 0 in
  Char.chr (v b0 0 + v b1 1 + v b2 2 + v b3 3 + v b4 4 + v b5 5 + v b6 6 + v b7 7)

let str_of_native s =
  let r = ref SNil in
  for i = Stdlib.String.length s - 1 downto 0 do r := SCons (ascii_of_char s.[i], !r) done;
  !r

let native_of_str (s : str) =
  let b = Buffer.create 64 in
  let rec go = function SNil -> () | SCons (a, s') -> Buffer.add_char b (char_of_ascii a); go s' in
  go s; Buffer.contents b

exception Bad of string

let unhex (h : string) : string =
  if h = "-" then "" else
  Stdlib.String.init (Stdlib.String.length h / 2) (fun i -> Char.chr (int_of_string ("0x" ^ Stdlib.String.sub h (2 * i) 2)))

let read_alists (args : string list) : pexpr list =
  let toks = ref args in
  let next () = match !toks with [] -> raise (Bad "eof") | x :: r -> toks := r; x in
  let rec times n f = if n <= 0 then [] else let x = f () in x :: times (n - 1) f in
  let hstr () = str_of_native (unhex (next ())) in
  let pref () = let m = cz_of_string (next ()) in let n = int_of_string (next ()) in (m, times n hstr) in
  let rec value tag =
    match tag with
    | "N" -> PVNull | "T" -> PVTrue | "X" -> PVFalse | "m" -> PVMin | "M" -> PVMax
    | "I" -> PVInt (cz_of_string (next ()))
    | "S" -> PVStr (hstr ())
    | "F" -> PVRef (pref ())
    | "VS" -> PVValueSet
    | "C" -> let id = hstr () in let v = value (next ()) in PVChoiceId (id, v)
    | s -> raise (Bad ("value " ^ s)) in
  let rec pexpr () =
    (match next () with "E" -> () | s -> raise (Bad ("pexpr " ^ s)));
    let meta = cz_of_string (next ()) in
    let et = cz_of_string (next ()) in
    let ident = (match next () with "-" -> None | h -> Some (str_of_native (unhex h))) in
    let rf = (match next () with "-" -> None | "R" -> Some (pref ()) | s -> raise (Bad ("ref " ^ s))) in
    let v = (match next () with "-" -> None | t -> Some (value t)) in
    let c = (match next () with "-" -> None | h -> Some (str_of_native (unhex h))) in
    let np = int_of_string (next ()) in
    let ps = times np pexpr in
    let nm = int_of_string (next ()) in
    let ms = times nm pexpr in
    PE (meta, et, ident, rf, v, ((Z0, Z0), Z0), Z0, None, false, c, ps, ms) in
  let n = int_of_string (next ()) in
  let ls = times n (fun () ->
    (match next () with "L" -> () | s -> raise (Bad ("alist " ^ s)));
    let k = int_of_string (next ()) in
    wrap (times k pexpr)) in
  if !toks <> [] then raise (Bad "trailing input");
  ls

let read_fmods (args : string list) =
  let toks = ref args in
  let next () = match !toks with [] -> raise (Bad "eof") | x :: r -> toks := r; x in
  let rec times n f = if n <= 0 then [] else let x = f () in x :: times (n - 1) f in
  let k = int_of_string (next ()) in
  let ms = times k (fun () ->
    let name = str_of_native (next ()) in
    let n = int_of_string (next ()) in
    (name, times n (fun () -> let id = str_of_native (next ()) in let t = next () = "1" in (id, t)))) in
  if !toks <> [] then raise (Bad "trailing input");
  ms

let show_indices = function
  | None -> "ABORT"
  | Some ks -> Stdlib.String.concat " " ("OK" :: List.map (fun k -> string_of_int (int_of_nat k)) ks)

let rec int_of_nat = function O -> 0 | S n -> 1 + int_of_nat n

let read_units (args : string list) : eunit list =
  let toks = ref args in
  let next () = match !toks with [] -> raise (Bad "eof") | x :: r -> toks := r; x in
  let rec times n f = if n <= 0 then [] else let x = f () in x :: times (n - 1) f in
  let rec unit_ () =
    match next () with
    | "T" -> let own = (next () = "1") in let k = int_of_string (next ()) in UType (own, times k unit_)
    | "S" -> let k = int_of_string (next ()) in UParam (times k unit_)
    | s -> raise (Bad ("unit " ^ s)) in
  let n = int_of_string (next ()) in
  let us = times n unit_ in
  if !toks <> [] then raise (Bad "trailing tokens");
  us

let dispatch cmd args =
  match cmd with
  | "c10_fold" ->
      (try let us = read_units args in
           Some (Printf.sprintf "OK exit=%s fatals=%d" (string_of_cz (exit_status us)) (int_of_nat (top_fatals us)))
       with Bad s -> Some ("BADAST " ^ s) | Failure s -> Some ("BADAST " ^ s))
  | "c10_fold_last" ->
      (try Some (Printf.sprintf "OK exit=%s" (string_of_cz (exit_last (read_units args)))) with Bad s -> Some ("BADAST " ^ s) | Failure s -> Some ("BADAST " ^ s))
  | "c10_spec" -> (try Some (show_indices (spec_indices (read_alists args))) with Bad s -> Some ("BADAST " ^ s))
  | "c10_spec_key" -> (try Some (show_indices (spec_indices (List.map key (read_alists args)))) with Bad s -> Some ("BADAST " ^ s))
  | "c10_files" ->
      (try
         let ms = read_fmods args in
         (match file_stems ms with
          | None -> Some "FATAL"
          | Some l -> Some (Stdlib.String.concat " " ("OK" :: ("clean=" ^ bool_s (clean (List.map to_nmod ms))) :: List.map native_of_str l)))
       with Bad s -> Some ("BADAST " ^ s))
  | "c10_files_bare" ->
      (try Some (Stdlib.String.concat " " ("OK" :: List.map native_of_str (bare_stems (read_fmods args)))) with Bad s -> Some ("BADAST " ^ s))
  | _ -> None
