(* main.ml — read one command per line, print one result per line *)
let dispatchers : (string -> string list -> string option) list =
  [ Driver.dispatch_c16 ]

let () =
  try
    while true do
      let line = input_line stdin in
      let toks = List.filter (fun s -> s <> "") (String.split_on_char ' ' (String.trim line)) in
      match toks with
      | [] -> print_newline ()
      | cmd :: args ->
          let rec go = function
            | [] -> "BADCMD"
            | d :: ds -> (match d cmd args with Some r -> r | None -> go ds)
          in
          let r = try go dispatchers with e -> "EXN " ^ Printexc.to_string e in
          print_string r; print_newline ()
    done
  with End_of_file -> ()
