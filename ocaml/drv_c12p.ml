(* drv_c12p.ml -- front end of coq/Fix/Pullup.v (constraint resolution over a module set).
     c12_pull SEEDED NTYPES TYPE.. NVALS Z.. NMODS MOD..
        SEEDED = 0 or 1;  TYPE = module parent-or-dash nels EL..;  EL = L lo hi / V lo value-number / I type-number
        MOD = module k type-number..   (the modules are processed in the order given)
       -> "wf=B ok=B" then one word per type: N (no combined constraints) or S:leaf,leaf,...
          leaf = L lo..hi / V lo..v k / I k (without the blanks)
     c12_pullspec (same arguments) -> the same words for the order-free specification [spec] *)
open Model
open Drvlib

exception Bad of string

let read (args : string list) =
  let toks = ref args in
  let next () = match !toks with [] -> raise (Bad "eof") | x :: r -> toks := r; x in
  let nat () = nat_of_int (int_of_string (next ())) in
  let int () = int_of_string (next ()) in
  let rec times n f = if n <= 0 then [] else let x = f () in x :: times (n - 1) f in
  let seeded = next () = "1" in
  let nt = int () in
  let types = times nt (fun () ->
    let m = nat () in
    let p = (match next () with "-" -> None | s -> Some (nat_of_int (int_of_string s))) in
    let k = int () in
    let els = times k (fun () ->
      match next () with
      | "L" -> let lo = cz_of_string (next ()) in Lit (lo, cz_of_string (next ()))
      | "V" -> let lo = cz_of_string (next ()) in VRef (lo, nat ())
      | "I" -> Incl (nat ())
      | s -> raise (Bad ("cel " ^ s))) in
    { t_mod = m; t_parent = p; t_own = els }) in
  let nv = int () in
  let vals = times nv (fun () -> cz_of_string (next ())) in
  let nm = int () in
  let mods = times nm (fun () -> let m = nat () in let k = int () in (m, times k nat)) in
  if !toks <> [] then raise (Bad "trailing input");
  (seeded, { w_types = types; w_vals = vals }, mods, nt)

let rec int_of_nat = function O -> 0 | S n -> 1 + int_of_nat n

let leaf = function
  | Lit (lo, hi) -> "L" ^ string_of_cz lo ^ ".." ^ string_of_cz hi
  | VRef (lo, v) -> "V" ^ string_of_cz lo ^ "..v" ^ string_of_int (int_of_nat v)
  | Incl u -> "I" ^ string_of_int (int_of_nat u)

let word = function
  | None -> "N"
  | Some l -> "S:" ^ Stdlib.String.concat "," (List.map leaf l)

let dispatch cmd args =
  match cmd with
  | "c12_pull" | "c12_pullspec" ->
      (try
         let (seeded, w, mods, nt) = read args in
         let f = if cmd = "c12_pull" then (fun t -> combined w seeded mods t) else (fun t -> spec w t) in
         let ws = List.init nt (fun i -> word (f (nat_of_int i))) in
         Some (Printf.sprintf "wf=%s ok=%s %s" (bool_s (wf_world w)) (bool_s (mods_ok w mods)) (Stdlib.String.concat " " ws))
       with Bad s -> Some ("BADAST " ^ s) | Failure s -> Some ("BADAST " ^ s))
  | _ -> None
