(* drv_c12.ml — front end of the printer model (coq/Fix/Printer.v).
   The AST arrives in the prefix form written by checks/c12_gen.py:ser_module.
     c12_pp <ast>   -> hex of ppb_module a          (the text asn1c -E must print)
     c12_rt <ast>   -> "wf=<b> lex=<b> parse=<b>"   (wf_module a, lex (ppb a) = pp a,
                                                       parse (pp a) prints back to pp a / ppb a)
     c12_cycle <ast> -> hex of ppb (parse (lex (ppb a)))  or FAIL
     c12_names <k> (<module> <n> <id>*n)*k -> "OK name name ..." (C names of all top-level
                       expressions in module/member order, Fix/NameClash.cnames_c) or "FATAL"
     c12_names_first … -> the same under the asymmetric rule cnames_first (spec-side only) *)
open Model
open Drvlib

let ascii_of_char (c : char) : ascii =
  let n = Char.code c in
  let b i = (n lsr i) land 1 = 1 in
  Ascii (b 0, b 1, b 2, b 3, b 4, b 5, b 6, b 7)

let char_of_ascii (Ascii (b0, b1, b2, b3, b4, b5, b6, b7)) : char =
  let v b i = if b then 1 lsl i else 0 in
  Char.chr (v b0 0 + v b1 1 + v b2 2 + v b3 3 + v b4 4 + v b5 5 + v b6 6 + v b7 7)

let str_of_native s =
  let r = ref SNil in
  for i = Stdlib.String.length s - 1 downto 0 do r := SCons (ascii_of_char s.[i], !r) done;
  !r

let hex_of_str (s : str) =
  let b = Buffer.create 1024 in
  let rec go = function
    | SNil -> ()
    | SCons (a, s') -> Buffer.add_string b (Printf.sprintf "%02x" (Char.code (char_of_ascii a))); go s' in
  go s;
  if Buffer.length b = 0 then "-" else Buffer.contents b

exception Bad of string

(* a cursor over the argument list *)
let read_module (args : string list) : module_ast =
  let toks = ref args in
  let next () = match !toks with [] -> raise (Bad "eof") | x :: r -> toks := r; x in
  let num () = cz_of_string (next ()) in
  let nat () = int_of_string (next ()) in
  let rec times n f = if n <= 0 then [] else let x = f () in x :: times (n - 1) f in
  let bits_of s = List.init (Stdlib.String.length s) (fun i -> s.[i] = '1') in
  let unhex s = if s = "-" then "" else Stdlib.String.init (Stdlib.String.length s / 2) (fun i -> Char.chr (int_of_string ("0x" ^ Stdlib.String.sub s (2 * i) 2))) in
  let vref_of = function
    | "1" -> VR1 (str_of_native (next ()))
    | "2" -> let m = str_of_native (next ()) in VR2 (m, str_of_native (next ()))
    | s -> raise (Bad ("vref " ^ s)) in
  (* value: vi <z> | vn | vt | vf | vb <01..> | vs <hex|-> | vr <0|1> <ip> <fp> | v1 <id> | v2 <mod> <id> *)
  let value_of = function
    | "vi" -> VInt (num ())
    | "vn" -> VNull
    | "vt" -> VBool true
    | "vf" -> VBool false
    | "vb" -> VBits (bits_of (next ()))
    | "vs" -> VStr (str_of_native (unhex (next ())))
    | "vr" -> let n = next () = "1" in let ip = str_of_native (next ()) in VReal (n, ip, str_of_native (next ()))
    | "v1" -> VRef (vref_of "1")
    | "v2" -> VRef (vref_of "2")
    | s -> raise (Bad ("value " ^ s)) in
  let value () = value_of (next ()) in
  (* nval: ni <z> | n1 <id> | n2 <mod> <id> *)
  let nval () = match next () with
    | "ni" -> NInt (num ())
    | "n1" -> NRef (vref_of "1")
    | "n2" -> NRef (vref_of "2")
    | s -> raise (Bad ("nval " ^ s)) in
  let endpoint_lo () = match next () with "m" -> EMin | "M" -> EMax | s -> EVal (value_of s) in
  let rec constr_of tag =
    match tag with
    | "v" -> CVal (value ())
    | "y" -> CType (None, str_of_native (next ()))
    | "Y" -> let m = str_of_native (next ()) in CType (Some m, str_of_native (next ()))
    | "r" -> let lo = endpoint_lo () in let hi = endpoint_lo () in CRange (lo, hi)
    | "e" -> CExt
    | "z" -> CSize (constr ())
    | "U" -> let n = nat () in CUni (times n constr)
    | "N" -> let n = nat () in CInt (times n constr)
    | "V" -> let n = nat () in CCsv (times n constr)
    | "S" -> let n = nat () in CSet (times n constr)
    | s -> raise (Bad ("constr " ^ s))
  and constr () = constr_of (next ()) in
  let copt () = match next () with "-" -> None | s -> Some (constr_of s) in
  let tag () =
    match next () with
    | "-" -> None
    | "G" ->
        let cl = (match next () with "U" -> TCUniversal | "A" -> TCApplication | "P" -> TCPrivate | _ -> TCContext) in
        let n = (match num () with Z0 -> N0 | Zpos p -> Npos p | Zneg _ -> raise (Bad "tag number")) in
        let m = (match next () with "I" -> TMImplicit | "E" -> TMExplicit | _ -> TMDefault) in
        Some { t_class = cl; t_num = n; t_mode = m }
    | s -> raise (Bad ("tag " ^ s)) in
  let nn () = let id = str_of_native (next ()) in let v = nval () in (id, v) in
  let eitem () =
    match next () with
    | "E" -> EExt
    | "J" -> EItem (str_of_native (next ()), None)
    | "I" -> let id = str_of_native (next ()) in let v = nval () in EItem (id, Some v)
    | s -> raise (Bad ("eitem " ^ s)) in
  let rec texpr () =
    (match next () with "X" -> () | s -> raise (Bad ("texpr " ^ s)));
    let tg = tag () in
    let prim p = let c = copt () in TPrim (tg, p, c) in
    match next () with
    | "Tb" -> prim PBoolean
    | "Tn" -> prim PNull
    | "To" -> prim POctetString
    | "Ta" -> prim PIA5String
    | "Tu" -> prim PUTF8String
    | "TR" -> prim PReal
    | "Ti" -> let n = nat () in let l = times n nn in prim (PInteger l)
    | "Tbs" -> let n = nat () in let l = times n nn in prim (PBitString l)
    | "Te" -> let n = nat () in let l = times n eitem in prim (PEnumerated l)
    | "Tr" -> let s = str_of_native (next ()) in prim (PRef s)
    | ("Ts" | "Tt" | "Tc") as k ->
        let n = nat () in
        let ms = times n member in
        (match next () with "-" -> () | _ -> raise (Bad "constraint on a structured type is not modelled"));
        TStruct (tg, (match k with "Ts" -> SSequence | "Tt" -> SSet | _ -> SChoice), ms)
    | ("Tso" | "Tto") as k ->
        let c = copt () in
        let e = texpr () in
        (match next () with "-" -> () | _ -> raise (Bad "trailing constraint on an OF type is not modelled"));
        TOf (tg, (if k = "Tso" then OSequence else OSet), c, e)
    | s -> raise (Bad ("type " ^ s))
  and member () =
    match next () with
    | "E" -> MExt None
    | "Ex" -> MExt (Some (nval ()))
    | "C" ->
        let id = str_of_native (next ()) in
        let t = texpr () in
        let mk = (match next () with
          | "-" -> MNone
          | "O" -> MOptional
          | "D" -> MDefault (value ())
          | s -> raise (Bad ("marker " ^ s))) in
        MComp (id, t, mk)
    | s -> raise (Bad ("member " ^ s)) in
  (match next () with "M" -> () | s -> raise (Bad ("module " ^ s)));
  let name = str_of_native (next ()) in
  let td = (match next () with "E" -> TDExplicit | "I" -> TDImplicit | "A" -> TDAutomatic | _ -> TDNone) in
  let ei = next () = "1" in
  let n = nat () in
  let assigns = times n (fun () ->
    match next () with
    | "T" -> let nm = str_of_native (next ()) in let t = texpr () in ATyp (nm, t)
    | "W" -> let nm = str_of_native (next ()) in let t = texpr () in let v = value () in AVal (nm, t, v)
    | s -> raise (Bad ("assign " ^ s))) in
  if !toks <> [] then raise (Bad "trailing input");
  { m_name = name; m_tags = td; m_extimpl = ei; m_assigns = assigns }

let native_of_str (s : str) =
  let b = Buffer.create 32 in
  let rec go = function SNil -> () | SCons (a, s') -> Buffer.add_char b (char_of_ascii a); go s' in
  go s; Buffer.contents b

let read_nmods (args : string list) =
  let toks = ref args in
  let next () = match !toks with [] -> raise (Bad "eof") | x :: r -> toks := r; x in
  let rec times n f = if n <= 0 then [] else let x = f () in x :: times (n - 1) f in
  let k = int_of_string (next ()) in
  let ms = times k (fun () ->
    let name = str_of_native (next ()) in
    let n = int_of_string (next ()) in
    (name, times n (fun () -> str_of_native (next ())))) in
  if !toks <> [] then raise (Bad "trailing input");
  ms

let dispatch cmd args =
  match cmd with
  | "c12_names" ->
      (try (match cnames_c (read_nmods args) with
            | None -> Some "FATAL"
            | Some l -> Some (Stdlib.String.concat " " ("OK" :: List.map native_of_str l)))
       with Bad s -> Some ("BADAST " ^ s))
  | "c12_names_first" ->
      (try Some (Stdlib.String.concat " " ("OK" :: List.map native_of_str (cnames_first (read_nmods args))))
       with Bad s -> Some ("BADAST " ^ s))
  | "c12_pp" -> (try Some (hex_of_str (ppb_module (read_module args))) with Bad s -> Some ("BADAST " ^ s))
  | "c12_rt" ->
      (try
         let m = read_module args in
         Some (Printf.sprintf "wf=%s lex=%s parse=%s" (bool_s (wf_module m)) (bool_s (rt_lex m)) (bool_s (rt_parse m)))
       with Bad s -> Some ("BADAST " ^ s))
  | "c12_cycle" ->
      (try (match cycle (read_module args) with Some s -> Some (hex_of_str s) | None -> Some "FAIL")
       with Bad s -> Some ("BADAST " ^ s))
  | _ -> None
