(* drv_c16real.ml — REAL <-> double helpers (same protocol as harness/leafdrv_c16real.inc).
   A double is a 16-hex-digit bit pattern on the wire. *)
open Model
open Drvlib

let cz_of_hex64 (h : string) : z = cz_of_zarith (ZA.of_string_base 16 h)
let hex64_of_cz (v : z) : string = ZA.format "%016x" (zarith_of_cz v)

let r2d_s = function
  | ROk b -> "OK " ^ hex64_of_cz b
  | RNaN -> "NAN"
  | RErange -> "ERANGE"
  | REinval -> "EINVAL"
  | RDecimal -> "DECIMAL"
  | ROob -> "OOB"

let dispatch cmd args =
  match cmd, args with
  | "d2R", [h] -> Some (hex_of_bytes (double2REAL (cz_of_hex64 h)))
  | "R2d", [h] -> Some (r2d_s (rEAL2double (bytes_of_hex h)))
  (* Spec-side queries (property oracle) *)
  | "spec_der_real", [h] -> Some (bool_s (der_real_form (bytes_of_hex h)))
  | "spec_real_value", [h] ->
      Some (match real_value (bytes_of_hex h) with
            | None -> "NONE"
            | Some ((s, n), e) -> Printf.sprintf "%s %s %s" (string_of_cz s) (string_of_cz n) (string_of_cz e))
  | _ -> None
