(* drv_c16.ml — INTEGER helpers and decimal parsers (same protocol as harness/leafdrv_c16.inc) *)
open Model
open Drvlib

(* ---- C16 ---- *)
let cres_s = function COk v -> "OK " ^ string_of_cz v | CErange -> "ERANGE"

let strtox_s ((st, pos), v) =
  match st with
  | SOk -> Printf.sprintf "OK %s %s" (string_of_cz pos) (string_of_cz v)
  | SExtra -> Printf.sprintf "EXTRA %s %s" (string_of_cz pos) (string_of_cz v)
  | SRange -> Printf.sprintf "RANGE %s" (string_of_cz pos)
  | SMore -> Printf.sprintf "MORE %s" (string_of_cz pos)
  | SInval -> "INVAL"

let dispatch cmd args =
  match cmd, args with
  | "imax2I", [v] -> Some (hex_of_bytes (imax2INTEGER (cz_of_string v)))
  | "long2I", [v] -> Some (hex_of_bytes (long2INTEGER (cz_of_string v)))
  | "umax2I", [v] -> Some (hex_of_bytes (umax2INTEGER (cz_of_string v)))
  | "ulong2I", [v] -> Some (hex_of_bytes (ulong2INTEGER (cz_of_string v)))
  | "I2imax", [h] -> Some (cres_s (iNTEGER2imax (bytes_of_hex h)))
  | "I2long", [h] -> Some (cres_s (iNTEGER2long (bytes_of_hex h)))
  | "I2umax", [h] -> Some (cres_s (iNTEGER2umax (bytes_of_hex h)))
  | "I2ulong", [h] -> Some (cres_s (iNTEGER2ulong (bytes_of_hex h)))
  | "strtoimax", [h] -> Some (strtox_s (strtoimax_lim (bytes_of_hex h)))
  | "strtol", [h] -> Some (strtox_s (strtol_lim (bytes_of_hex h)))
  | "strtoumax", [h] -> Some (strtox_s (strtoumax_lim (bytes_of_hex h)))
  | "strtoul", [h] -> Some (strtox_s (strtoul_lim (bytes_of_hex h)))
  (* Spec-side queries (property oracle) *)
  | "spec_twos", [h] -> Some (string_of_cz (twos_value (bytes_of_hex h)))
  | "spec_minimal", [h] -> Some (bool_s (minimal_twos (bytes_of_hex h)))
  | _ -> None
