(* drv_c12o.ml -- front end of coq/Fix/ConstrOps.v and coq/Fix/ModuleLookup.v.
     c12_ops V TOK..      V = 0 (the C's printer) or 1 (variant "ALL EXCEPT ( operand )")
                          TOK = L R ALL EXC BAR CAR COM DOTS P<k> A<n>   (one serial-constraint list)
        -> "OK wf=<b> <hex>"  hex of ppb (parse tokens), atom n rendered as #n#;  "NONE" when the model parser refuses
     c12_lookup C|L NMODS (NAME OID|- ID).. NIMPS (NAME OID|-).. QNAME QOID|-
                          modules in command-line order; names are numbers, OIDs dotted; C = lookup_full, L = the lenient variant
        -> "REFUSED" (phase 1 of the fixer does not accept the module list) | "FOUND <id>" | "NOTFOUND" | "AMBIG" *)
open Model
open Drvlib

exception Bad of string

let char_of_ascii (Ascii (b0, b1, b2, b3, b4, b5, b6, b7)) : char =
  let v b i = if b then 1 lsl i else 0 in
  Char.chr (v b0 0 + v b1 1 + v b2 2 + v b3 3 + v b4 4 + v b5 5 + v b6 6 + v b7 7)

let tok_of s =
  let num i = nat_of_int (int_of_string (Stdlib.String.sub s i (Stdlib.String.length s - i))) in
  match s with
  | "L" -> TL | "R" -> TR | "ALL" -> TAll | "EXC" -> TExcept | "BAR" -> TBar | "CAR" -> TCaret
  | "COM" -> TComma | "DOTS" -> TDots
  | _ when Stdlib.String.length s > 1 && s.[0] = 'P' -> TPre (num 1)
  | _ when Stdlib.String.length s > 1 && s.[0] = 'A' -> TAtom (num 1)
  | _ -> raise (Bad ("token " ^ s))

let hex s =
  let b = Buffer.create 256 in
  Stdlib.String.iter (fun c -> Buffer.add_string b (Printf.sprintf "%02x" (Char.code c))) s;
  if Buffer.length b = 0 then "-" else Buffer.contents b

let oid_of s =
  if s = "-" then None
  else Some (List.map (fun x -> nat_of_int (int_of_string x)) (Stdlib.String.split_on_char '.' s))

let dispatch cmd args =
  match cmd with
  | "c12_ops" ->
      (try
         (match args with
          | v :: toks ->
              (match cycle (v = "1") (List.map tok_of toks) with
               | None -> Some "NONE"
               | Some (wf, ps) ->
                   let s = Stdlib.String.concat "" (List.map (function
                     | PS x -> Stdlib.String.concat "" (List.map (fun a -> Stdlib.String.make 1 (char_of_ascii a)) x)
                     | PA n -> "#" ^ string_of_int (int_of_nat n) ^ "#") ps) in
                   Some (Printf.sprintf "OK wf=%s %s" (bool_s wf) (hex s)))
          | [] -> Some "BADAST empty")
       with Bad s -> Some ("BADAST " ^ s) | Failure s -> Some ("BADAST " ^ s))
  | "c12_lookup" ->
      (try
         let toks = ref args in
         let next () = match !toks with [] -> raise (Bad "eof") | x :: r -> toks := r; x in
         let nat () = nat_of_int (int_of_string (next ())) in
         let rec times n f = if n <= 0 then [] else let x = f () in x :: times (n - 1) f in
         let variant = next () in
         let nm = int_of_string (next ()) in
         let mods = times nm (fun () ->
           let n = nat () in let o = oid_of (next ()) in let i = nat () in
           { m_name = n; m_oid = o; m_id = i }) in
         let ni = int_of_string (next ()) in
         let imps = times ni (fun () -> let n = nat () in let o = oid_of (next ()) in (n, o)) in
         let qn = nat () in
         let qo = oid_of (next ()) in
         if !toks <> [] then raise (Bad "trailing input");
         if not (accepted_b mods) then Some "REFUSED"
         else if variant = "C" then
           (match lookup_full imps mods qn qo with
            | LAmbiguous -> Some "AMBIG"
            | LNotFound -> Some "NOTFOUND"
            | LFound m -> Some ("FOUND " ^ string_of_cz (id_z m)))
         else
           (match effective_oid imps qn qo with
            | None -> Some "AMBIG"
            | Some o ->
                (match lookup_lenient mods qn o with
                 | None -> Some "NOTFOUND"
                 | Some m -> Some ("FOUND " ^ string_of_cz (id_z m))))
       with Bad s -> Some ("BADAST " ^ s) | Failure s -> Some ("BADAST " ^ s))
  | _ -> None
