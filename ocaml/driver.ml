(* driver.ml — line-protocol front end of the extracted Coq model (model.ml).
   Speaks the same protocol as harness/leafdrv.c; additionally answers the
   "spec_*" queries used by the property oracle.  Everything here is glue:
   number/hex parsing and printing. *)
module ZA = Z   (* Zarith, before Model's own module Z shadows the name *)
open Model

(* ---- conversions between Coq numbers and OCaml/Zarith ---- *)
let rec pos_of_zarith (n : ZA.t) : positive =
  if ZA.equal n ZA.one then XH
  else if ZA.testbit n 0 then XI (pos_of_zarith (ZA.shift_right n 1))
  else XO (pos_of_zarith (ZA.shift_right n 1))

let cz_of_zarith (n : ZA.t) : z =
  if ZA.sign n = 0 then Z0
  else if ZA.sign n > 0 then Zpos (pos_of_zarith n)
  else Zneg (pos_of_zarith (ZA.neg n))

let rec zarith_of_pos = function
  | XH -> ZA.one
  | XO p -> ZA.shift_left (zarith_of_pos p) 1
  | XI p -> ZA.succ (ZA.shift_left (zarith_of_pos p) 1)

let zarith_of_cz = function
  | Z0 -> ZA.zero
  | Zpos p -> zarith_of_pos p
  | Zneg p -> ZA.neg (zarith_of_pos p)

let cz_of_string s = cz_of_zarith (ZA.of_string s)
let string_of_cz z = ZA.to_string (zarith_of_cz z)
let cz_of_int i = cz_of_zarith (ZA.of_int i)
let int_of_cz z = ZA.to_int (zarith_of_cz z)

let rec nat_of_int i = if i <= 0 then O else S (nat_of_int (i - 1))
let rec int_of_nat = function O -> 0 | S n -> 1 + int_of_nat n

let bytes_of_hex (h : string) : z list =
  if h = "-" then []
  else
    let n = String.length h / 2 in
    List.init n (fun i -> cz_of_int (int_of_string ("0x" ^ String.sub h (2 * i) 2)))

let hex_of_bytes (bs : z list) : string =
  if bs = [] then "-"
  else String.concat "" (List.map (fun b -> Printf.sprintf "%02x" (int_of_cz b land 0xff)) bs)

let bool_s b = if b then "true" else "false"

(* ---- C16 ---- *)
let cres_s = function COk v -> "OK " ^ string_of_cz v | CErange -> "ERANGE"

let strtox_s ((st, pos), v) =
  match st with
  | SOk -> Printf.sprintf "OK %s %s" (string_of_cz pos) (string_of_cz v)
  | SExtra -> Printf.sprintf "EXTRA %s %s" (string_of_cz pos) (string_of_cz v)
  | SRange -> Printf.sprintf "RANGE %s" (string_of_cz pos)
  | SMore -> Printf.sprintf "MORE %s" (string_of_cz pos)
  | SInval -> "INVAL"

let dispatch_c16 cmd args =
  match cmd, args with
  | "imax2I", [v] -> Some (hex_of_bytes (imax2INTEGER (cz_of_string v)))
  | "long2I", [v] -> Some (hex_of_bytes (long2INTEGER (cz_of_string v)))
  | "umax2I", [v] -> Some (hex_of_bytes (umax2INTEGER (cz_of_string v)))
  | "ulong2I", [v] -> Some (hex_of_bytes (ulong2INTEGER (cz_of_string v)))
  | "I2imax", [h] -> Some (cres_s (iNTEGER2imax (bytes_of_hex h)))
  | "I2long", [h] -> Some (cres_s (iNTEGER2long (bytes_of_hex h)))
  | "I2umax", [h] -> Some (cres_s (iNTEGER2umax (bytes_of_hex h)))
  | "I2ulong", [h] -> Some (cres_s (iNTEGER2ulong (bytes_of_hex h)))
  | "strtoimax", [h] -> Some (strtox_s (strtoimax_lim (bytes_of_hex h)))
  | "strtol", [h] -> Some (strtox_s (strtol_lim (bytes_of_hex h)))
  | "strtoumax", [h] -> Some (strtox_s (strtoumax_lim (bytes_of_hex h)))
  | "strtoul", [h] -> Some (strtox_s (strtoul_lim (bytes_of_hex h)))
  (* Spec-side queries (property oracle) *)
  | "spec_twos", [h] -> Some (string_of_cz (twos_value (bytes_of_hex h)))
  | "spec_minimal", [h] -> Some (bool_s (minimal_twos (bytes_of_hex h)))
  | _ -> None
