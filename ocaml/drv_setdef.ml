(* drv_setdef.ml — SET and DEFAULT layer (coq/Rt/SetDef.v).  Base types and values in the
   syntax of drv_rt.ml (the parser below is a copy, as in drv_ext.ml).
     cty := <ty>                 a base type (CBase)
          | Q<tg>{cty*}          SEQUENCE whose members may carry DEFAULT / contain SET
          | W<tg>{cty*}          SET
          | X<tg>cty             EXPLICIT tag
          | Pcty                 OPTIONAL member
          | D<val>cty            member with DEFAULT <val> (I<n>; | T | F)
     values: S{val*} for Q and W (definition order), _ / !val for P and D members
   commands:  sdder <raw 0|1> <cty> <val> | sdoer <raw> <cty> <val> | sduper <raw> <std> <cty> <val> -> hex | NONE
              sdberdec <cty> <hex> | sduperdec <std> <cty> <hex> | sdoerdec <cty> <hex> -> OK <consumed> <val> | FAIL
              spec_sdder <cty> <val> | spec_sdoer <cty> <val> | spec_sduper <std> <cty> <val> -> hex | NONE
              sdstrip <cty> <val> | sdfill <cty> <val> -> val
              sdtag2el <cty> -> tag:member,... of a W type (the table the compiler emits) *)
open Model
open Drvlib

exception Parse of string

let parse_num s pos : z option * int =
  let n = String.length s in
  if pos < n && s.[pos] = '*' then (None, pos + 1)
  else begin
    let j = ref pos in
    if !j < n && s.[!j] = '-' then incr j;
    while !j < n && s.[!j] >= '0' && s.[!j] <= '9' do incr j done;
    if !j = pos then raise (Parse ("number expected at " ^ string_of_int pos));
    (Some (cz_of_string (String.sub s pos (!j - pos))), !j)
  end

let num_req s pos = match parse_num s pos with
  | (Some z, p) -> (z, p)
  | (None, _) -> raise (Parse "number required")

let expect s pos c =
  if pos < String.length s && s.[pos] = c then pos + 1
  else raise (Parse (Printf.sprintf "expected %c at %d" c pos))

let parse_con s pos =
  let pos = expect s pos '[' in
  let (lo, pos) = parse_num s pos in
  let pos = expect s pos ',' in
  let (hi, pos) = parse_num s pos in
  let pos = expect s pos ',' in
  let (e, pos) = num_req s pos in
  let pos = expect s pos ']' in
  (lo, hi, (e <> Z0), pos)

let rec parse_ty s pos : ty * int =
  if pos >= String.length s then raise (Parse "type expected");
  match s.[pos] with
  | 'b' -> let (tg, p) = num_req s (pos + 1) in (TBool tg, p)
  | 'n' -> let (tg, p) = num_req s (pos + 1) in (TNull tg, p)
  | 'i' -> let (tg, p) = num_req s (pos + 1) in
           let (lo, hi, e, p) = parse_con s p in (TInt (tg, ICon (lo, hi, e)), p)
  | 'o' -> let (tg, p) = num_req s (pos + 1) in
           let (lo, hi, e, p) = parse_con s p in
           (TOct (tg, SCon ((match lo with Some l -> l | None -> Z0), hi, e)), p)
  | 's' -> let (tg, p) = num_req s (pos + 1) in
           let (ms, p) = parse_tys s (expect s p '{') in (TSeq (tg, ms), p)
  | 'q' | 't' as k ->
           let (tg, p) = num_req s (pos + 1) in
           let (lo, hi, e, p) = parse_con s p in
           let (el, p) = parse_ty s p in
           let sc = SCon ((match lo with Some l -> l | None -> Z0), hi, e) in
           ((if k = 'q' then TSeqOf (tg, sc, el) else TSetOf (tg, sc, el)), p)
  | 'c' -> let (alts, p) = parse_tys s (expect s (pos + 1) '{') in (TChoice alts, p)
  | 'x' -> let (tg, p) = num_req s (pos + 1) in
           let (t, p) = parse_ty s p in (TTag (tg, t), p)
  | '?' -> let (t, p) = parse_ty s (pos + 1) in (TOpt t, p)
  | c -> raise (Parse (Printf.sprintf "bad type char %c at %d" c pos))
and parse_tys s pos : ty list * int =
  if pos < String.length s && s.[pos] = '}' then ([], pos + 1)
  else let (t, p) = parse_ty s pos in
       let (ts, p) = parse_tys s p in (t :: ts, p)

let rec parse_val s pos : val0 * int =
  if pos >= String.length s then raise (Parse "value expected");
  match s.[pos] with
  | 'T' -> (VBool true, pos + 1)
  | 'F' -> (VBool false, pos + 1)
  | 'N' -> (VNull, pos + 1)
  | 'I' -> let (z, p) = num_req s (pos + 1) in (VInt z, expect s p ';')
  | 'O' -> let j = String.index_from s pos ';' in
           (VOct (bytes_of_hex (let h = String.sub s (pos + 1) (j - pos - 1) in if h = "" then "-" else h)), j + 1)
  | 'S' -> let (vs, p) = parse_vals s (expect s (pos + 1) '{') in (VSeq vs, p)
  | 'L' -> let (vs, p) = parse_vals s (expect s (pos + 1) '{') in (VList vs, p)
  | 'C' -> let (i, p) = num_req s (pos + 1) in
           let (v, p) = parse_val s (expect s p ':') in (VChoice (nat_of_int (int_of_cz i), v), p)
  | '_' -> (VNone, pos + 1)
  | '!' -> let (v, p) = parse_val s (pos + 1) in (VSome v, p)
  | c -> raise (Parse (Printf.sprintf "bad value char %c at %d" c pos))
and parse_vals s pos =
  if pos < String.length s && s.[pos] = '}' then ([], pos + 1)
  else let (v, p) = parse_val s pos in
       let (vs, p) = parse_vals s p in (v :: vs, p)

let rec show_val (v : val0) : string =
  match v with
  | VBool true -> "T" | VBool false -> "F" | VNull -> "N"
  | VInt z -> "I" ^ string_of_cz z ^ ";"
  | VOct bs -> "O" ^ (if bs = [] then "" else hex_of_bytes bs) ^ ";"
  | VSeq vs -> "S{" ^ String.concat "" (List.map show_val vs) ^ "}"
  | VList vs -> "L{" ^ String.concat "" (List.map show_val vs) ^ "}"
  | VChoice (i, v) -> "C" ^ string_of_int (int_of_nat i) ^ ":" ^ show_val v
  | VNone -> "_"
  | VSome v -> "!" ^ show_val v

let ty_of s = let (t, p) = parse_ty s 0 in
  if p <> String.length s then raise (Parse "trailing type text"); t
let val_of s = let (v, p) = parse_val s 0 in
  if p <> String.length s then raise (Parse "trailing value text"); v



let rec parse_cty s pos : cty * int =
  if pos >= String.length s then raise (Parse "cty expected");
  match s.[pos] with
  | 'Q' -> let (tg, p) = num_req s (pos + 1) in
           let (ms, p) = parse_ctys s (expect s p '{') in (CSeq (tg, ms), p)
  | 'W' -> let (tg, p) = num_req s (pos + 1) in
           let (ms, p) = parse_ctys s (expect s p '{') in (CSet (tg, ms), p)
  | 'X' -> let (tg, p) = num_req s (pos + 1) in
           let (t, p) = parse_cty s p in (CTag (tg, t), p)
  | 'P' -> let (t, p) = parse_cty s (pos + 1) in (COpt t, p)
  | 'D' -> let (d, p) = parse_val s (pos + 1) in
           let (t, p) = parse_cty s p in (CDef (d, t), p)
  | _ -> let (t, p) = parse_ty s pos in (CBase t, p)
and parse_ctys s pos : cty list * int =
  if pos < String.length s && s.[pos] = '}' then ([], pos + 1)
  else let (t, p) = parse_cty s pos in
       let (ts, p) = parse_ctys s p in (t :: ts, p)

let cty_of s = let (t, p) = parse_cty s 0 in
  if p <> String.length s then raise (Parse "trailing cty text"); t

let hex_opt = function Some bs -> hex_of_bytes bs | None -> "NONE"
let bits_opt = function
  | Some [] -> "00"
  | Some bs -> hex_of_bytes (bits_to_bytes bs)
  | None -> "NONE"
let dec_s = function
  | Some (v, n) -> Printf.sprintf "OK %s %s" (string_of_cz n) (show_val v)
  | None -> "FAIL"

let dispatch cmd args =
  match cmd, args with
  | "sdder", [raw; t; v] -> Some (hex_opt (cder (raw = "1") (cty_of t) (val_of v)))
  | "sdoer", [raw; t; v] -> Some (hex_opt (coer (raw = "1") (cty_of t) (val_of v)))
  | "sduper", [raw; std; t; v] -> Some (hex_opt (cuper_encode (raw = "1") (std = "1") (cty_of t) (val_of v)))
  | "sdberdec", [t; h] -> Some (dec_s (cber_decode (cty_of t) (bytes_of_hex h)))
  | "sduperdec", [std; t; h] -> Some (dec_s (cuper_decode (std = "1") (cty_of t) (bytes_of_hex h)))
  | "sdoerdec", [t; h] -> Some (dec_s (coer_decode (cty_of t) (bytes_of_hex h)))
  | "spec_sdder", [t; v] -> Some (hex_opt (spec_der (cty_of t) (val_of v)))
  | "spec_sdoer", [t; v] -> Some (hex_opt (spec_oer (cty_of t) (val_of v)))
  | "spec_sduper", [std; t; v] -> Some (bits_opt (spec_uper (std = "1") (cty_of t) (val_of v)))
  | "sdstrip", [t; v] -> Some (show_val (strip_dflt (cty_of t) (val_of v)))
  | "sdfill", [t; v] -> Some (show_val (fill_dflt (cty_of t) (val_of v)))
  | "sdtag2el", [t] ->
      (match cty_of t with
       | CSet (_, ms) -> Some (let l = tag2el ms in
                               if l = [] then "-" else
                               String.concat "," (List.map (fun (tg, i) -> string_of_cz tg ^ ":" ^ string_of_int (int_of_nat i)) l))
       | _ -> Some "NOTSET")
  | _ -> None
