(* drv_primb.ml — restricted character strings (coq/Rt/PrimB.v).  Base types and values in the
   syntax of drv_rt.ml (the parser below is a copy: every area is linked against its own
   extracted Model_<area>, so the code cannot be shared).
     leaf := Z<tg><kind><size><alpha>
             kind: a IA5String, v VisibleString, p PrintableString, u NumericString, m BMPString,
                   w UniversalString, f UTF8String, g any other string type (OCTET STRING with a tag)
             size: [lo,hi,ext] | [-]            alpha: (lo-hi,lo-hi,...) | ()      (FROM, canonical intervals)
     sty  := P<etags>:leaf                      a string, EXPLICIT tags outermost first (may be empty)
           | Q<tg>{mem*}    mem := B ty | M<etags>:<0|1>leaf   (1 = OPTIONAL)
           | R<tg>[lo,hi,ext]<etags>:leaf       SEQUENCE OF
     values: drv_rt syntax (a string is O<hex>;)
   commands:  pder|poer <sty> <val> -> hex | NONE        puper <std 0|1> <sty> <val>
              pberdec <sty> <hex> | puperdec <std> <sty> <hex> | poerdec <sty> <hex> -> OK <consumed> <val> | FAIL
              spec_pder <tg> <kind> <chars> -> hex           (chars: decimal character values, comma separated, - = none)
              spec_poer <leaf> <chars> -> hex
              spec_puper <leaf> <chars> -> hex of the bits, zero padded to octets (empty: 00) | NONE
              spec_pbits <alpha> -> bits per character        spec_pcode <alpha> <v> -> number | NONE *)
open Model
open Drvlib

exception Parse of string

let parse_num s pos : z option * int =
  let n = String.length s in
  if pos < n && s.[pos] = '*' then (None, pos + 1)
  else begin
    let j = ref pos in
    if !j < n && s.[!j] = '-' then incr j;
    while !j < n && s.[!j] >= '0' && s.[!j] <= '9' do incr j done;
    if !j = pos then raise (Parse ("number expected at " ^ string_of_int pos));
    (Some (cz_of_string (String.sub s pos (!j - pos))), !j)
  end

let num_req s pos = match parse_num s pos with
  | (Some z, p) -> (z, p)
  | (None, _) -> raise (Parse "number required")

let expect s pos c =
  if pos < String.length s && s.[pos] = c then pos + 1
  else raise (Parse (Printf.sprintf "expected %c at %d" c pos))

let parse_con s pos =
  let pos = expect s pos '[' in
  let (lo, pos) = parse_num s pos in
  let pos = expect s pos ',' in
  let (hi, pos) = parse_num s pos in
  let pos = expect s pos ',' in
  let (e, pos) = num_req s pos in
  let pos = expect s pos ']' in
  (lo, hi, (e <> Z0), pos)

let rec parse_ty s pos : ty * int =
  if pos >= String.length s then raise (Parse "type expected");
  match s.[pos] with
  | 'b' -> let (tg, p) = num_req s (pos + 1) in (TBool tg, p)
  | 'n' -> let (tg, p) = num_req s (pos + 1) in (TNull tg, p)
  | 'i' -> let (tg, p) = num_req s (pos + 1) in
           let (lo, hi, e, p) = parse_con s p in (TInt (tg, ICon (lo, hi, e)), p)
  | 'o' -> let (tg, p) = num_req s (pos + 1) in
           let (lo, hi, e, p) = parse_con s p in
           (TOct (tg, SCon ((match lo with Some l -> l | None -> Z0), hi, e)), p)
  | 's' -> let (tg, p) = num_req s (pos + 1) in
           let (ms, p) = parse_tys s (expect s p '{') in (TSeq (tg, ms), p)
  | 'q' | 't' as k ->
           let (tg, p) = num_req s (pos + 1) in
           let (lo, hi, e, p) = parse_con s p in
           let (el, p) = parse_ty s p in
           let sc = SCon ((match lo with Some l -> l | None -> Z0), hi, e) in
           ((if k = 'q' then TSeqOf (tg, sc, el) else TSetOf (tg, sc, el)), p)
  | 'c' -> let (alts, p) = parse_tys s (expect s (pos + 1) '{') in (TChoice alts, p)
  | 'x' -> let (tg, p) = num_req s (pos + 1) in
           let (t, p) = parse_ty s p in (TTag (tg, t), p)
  | '?' -> let (t, p) = parse_ty s (pos + 1) in (TOpt t, p)
  | c -> raise (Parse (Printf.sprintf "bad type char %c at %d" c pos))
and parse_tys s pos : ty list * int =
  if pos < String.length s && s.[pos] = '}' then ([], pos + 1)
  else let (t, p) = parse_ty s pos in
       let (ts, p) = parse_tys s p in (t :: ts, p)

let rec parse_val s pos : val0 * int =
  if pos >= String.length s then raise (Parse "value expected");
  match s.[pos] with
  | 'T' -> (VBool true, pos + 1)
  | 'F' -> (VBool false, pos + 1)
  | 'N' -> (VNull, pos + 1)
  | 'I' -> let (z, p) = num_req s (pos + 1) in (VInt z, expect s p ';')
  | 'O' -> let j = String.index_from s pos ';' in
           (VOct (bytes_of_hex (let h = String.sub s (pos + 1) (j - pos - 1) in if h = "" then "-" else h)), j + 1)
  | 'S' -> let (vs, p) = parse_vals s (expect s (pos + 1) '{') in (VSeq vs, p)
  | 'L' -> let (vs, p) = parse_vals s (expect s (pos + 1) '{') in (VList vs, p)
  | 'C' -> let (i, p) = num_req s (pos + 1) in
           let (v, p) = parse_val s (expect s p ':') in (VChoice (nat_of_int (int_of_cz i), v), p)
  | '_' -> (VNone, pos + 1)
  | '!' -> let (v, p) = parse_val s (pos + 1) in (VSome v, p)
  | c -> raise (Parse (Printf.sprintf "bad value char %c at %d" c pos))
and parse_vals s pos =
  if pos < String.length s && s.[pos] = '}' then ([], pos + 1)
  else let (v, p) = parse_val s pos in
       let (vs, p) = parse_vals s p in (v :: vs, p)

let rec show_val (v : val0) : string =
  match v with
  | VBool true -> "T" | VBool false -> "F" | VNull -> "N"
  | VInt z -> "I" ^ string_of_cz z ^ ";"
  | VOct bs -> "O" ^ (if bs = [] then "" else hex_of_bytes bs) ^ ";"
  | VSeq vs -> "S{" ^ String.concat "" (List.map show_val vs) ^ "}"
  | VList vs -> "L{" ^ String.concat "" (List.map show_val vs) ^ "}"
  | VChoice (i, v) -> "C" ^ string_of_int (int_of_nat i) ^ ":" ^ show_val v
  | VNone -> "_"
  | VSome v -> "!" ^ show_val v

let ty_of s = let (t, p) = parse_ty s 0 in
  if p <> String.length s then raise (Parse "trailing type text"); t
let val_of s = let (v, p) = parse_val s 0 in
  if p <> String.length s then raise (Parse "trailing value text"); v



let kind_of = function
  | 'a' -> KIA5 | 'v' -> KVisible | 'p' -> KPrintable | 'u' -> KNumeric | 'm' -> KBMP
  | 'w' -> KUniversal | 'f' -> KUTF8 | 'g' -> KOther
  | c -> raise (Parse (Printf.sprintf "bad string kind %c" c))

let parse_alpha s pos : (z * z) list option * int =
  let pos = expect s pos '(' in
  if pos < String.length s && s.[pos] = ')' then (None, pos + 1)
  else begin
    let rec go pos acc =
      let (lo, pos) = num_req s pos in
      let pos = expect s pos '-' in
      let (hi, pos) = num_req s pos in
      let acc = (lo, hi) :: acc in
      if pos < String.length s && s.[pos] = ',' then go (pos + 1) acc
      else (List.rev acc, expect s pos ')')
    in
    let (l, pos) = go pos [] in (Some l, pos)
  end

let parse_leaf s pos : strty * int =
  let pos = expect s pos 'Z' in
  let (tg, pos) = num_req s pos in
  if pos >= String.length s then raise (Parse "kind expected");
  let k = kind_of s.[pos] in
  let pos = pos + 1 in
  let (sz, pos) =
    if pos + 2 < String.length s && s.[pos] = '[' && s.[pos + 1] = '-' && s.[pos + 2] = ']' then (None, pos + 3)
    else let (lo, hi, e, p) = parse_con s pos in
         (Some (SCon ((match lo with Some l -> l | None -> Z0), hi, e)), p) in
  let (fr, pos) = parse_alpha s pos in
  (Str (tg, k, sz, fr), pos)

let parse_etags s pos : z list * int =
  let rec go pos acc =
    if pos < String.length s && s.[pos] = ':' then (List.rev acc, pos + 1)
    else let (t, pos) = num_req s pos in
         let pos = if pos < String.length s && s.[pos] = ',' then pos + 1 else pos in
         go pos (t :: acc)
  in go pos []

let rec parse_mems s pos : smem list * int =
  if pos >= String.length s then raise (Parse "member expected");
  match s.[pos] with
  | '}' -> ([], pos + 1)
  | 'B' -> let (t, p) = parse_ty s (pos + 1) in
           let (ms, p) = parse_mems s p in (MBase t :: ms, p)
  | 'M' -> let (e, p) = parse_etags s (pos + 1) in
           if p >= String.length s then raise (Parse "optional flag expected");
           let o = (s.[p] = '1') in
           let (l, p) = parse_leaf s (p + 1) in
           let (ms, p) = parse_mems s p in (MStr (e, o, l) :: ms, p)
  | c -> raise (Parse (Printf.sprintf "bad member char %c at %d" c pos))

let parse_sty s : sty =
  if String.length s = 0 then raise (Parse "sty expected");
  let (t, p) =
    match s.[0] with
    | 'P' -> let (e, p) = parse_etags s 1 in
             let (l, p) = parse_leaf s p in (SStr (e, l), p)
    | 'Q' -> let (tg, p) = num_req s 1 in
             let (ms, p) = parse_mems s (expect s p '{') in (SSeq (tg, ms), p)
    | 'R' -> let (tg, p) = num_req s 1 in
             let (lo, hi, e, p) = parse_con s p in
             let (et, p) = parse_etags s p in
             let (l, p) = parse_leaf s p in
             (SSeqOf (tg, SCon ((match lo with Some l -> l | None -> Z0), hi, e), et, l), p)
    | c -> raise (Parse (Printf.sprintf "bad sty char %c" c)) in
  if p <> String.length s then raise (Parse "trailing sty text");
  t

let leaf_of s = let (l, p) = parse_leaf s 0 in
  if p <> String.length s then raise (Parse "trailing leaf text"); l

let chars_of s : z list =
  if s = "-" then [] else List.map cz_of_string (String.split_on_char ',' s)

let hex_opt = function Some bs -> hex_of_bytes bs | None -> "NONE"
let dec_s = function
  | Some (v, n) -> Printf.sprintf "OK %s %s" (string_of_cz n) (show_val v)
  | None -> "FAIL"

let dispatch cmd args =
  match cmd, args with
  | "sbder", [t; v] -> Some (hex_opt (pb_der (parse_sty t) (val_of v)))
  | "sboer", [t; v] -> Some (hex_opt (pb_oer (parse_sty t) (val_of v)))
  | "sbuper", [std; t; v] -> Some (hex_opt (pb_uper_encode (std = "1") (parse_sty t) (val_of v)))
  | "sbberdec", [t; h] -> Some (dec_s (pb_ber_decode (parse_sty t) (bytes_of_hex h)))
  | "sbuperdec", [std; t; h] -> Some (dec_s (pb_uper_decode (std = "1") (parse_sty t) (bytes_of_hex h)))
  | "sboerdec", [t; h] -> Some (dec_s (pb_oer_decode (parse_sty t) (bytes_of_hex h)))
  | "spec_pder", [tg; k; cs] -> Some (hex_of_bytes (spec_der_str (cz_of_string tg) (kind_of k.[0]) (chars_of cs)))
  | "spec_poer", [l; cs] -> Some (hex_of_bytes (spec_oer_str (leaf_of l) (chars_of cs)))
  | "spec_puper", [l; cs] ->
      Some (match spec_uper_km (leaf_of l) (chars_of cs) with
            | Some [] -> "00"
            | Some bits -> hex_of_bytes (bits_to_bytes bits)
            | None -> "NONE")
  | "spec_pbits", [a] -> (match parse_alpha a 0 with
                          | (Some al, _) -> Some (string_of_int (int_of_nat (spec_bits al)))
                          | _ -> Some "NONE")
  | "spec_pcode", [a; v] -> (match parse_alpha a 0 with
                             | (Some al, _) -> Some (match spec_code al (cz_of_string v) with Some c -> string_of_cz c | None -> "NONE")
                             | _ -> Some "NONE")
  | _ -> None
