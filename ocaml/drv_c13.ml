(* drv_c13.ml — native vs wide INTEGER paths (coq/Leaf/NativeWide.v).
   nw_nder <reg>            contents octets NativeInteger_encode_der emits for the 64-bit register
   nw_wder <hex>            contents octets INTEGER_encode_der emits for these INTEGER_t contents
   nw_ndec <0|1> <hex>      NativeInteger_decode_ber on contents octets (1 = field_unsigned): OK <reg> | FAIL
   nw_n2i  <0|1> <reg>      the INTEGER_t NativeInteger_encode_uper/_oer hand to the wide encoder
   nw_xcode <N0|N1|W> <hex> decode the contents octets, re-encode as DER contents: OK <hex> | FAIL
                            (what `xcode T ber 02 LL <hex> der` does in a native signed / native unsigned / wide build)
   spec_nw_value <hex>      the abstract value the octets denote
   opt_sim <hp> <ho> <tableA> <tableB>   coq/Rt/Options.v table_sim on two dumped descriptor tables: SIM | DIFF | FUEL
                            (tables in the integer-tree wire format of lib/c13_descr.wire_table)
   opt_slots <oer> <per> <nocon> <wide> <indirect> <constrained> <enum> <choice> <kmstring>
                            emit_type_DEF's { oer, per, checker } slots: three letters of N(ull) T(able) O(wn checker) P(arent's checker)
   opt_mslots <oer> <per> <nocon> <constrained>   the same for a member entry (emit_member_table) *)
open Model
open Drvlib

let uns s = (s = "1")

(* ---- integer trees:  tree := int | '[' tree (',' tree)* ']' | '[]' ---- *)
type tree = I of z | T of tree list

let parse_tree (s : string) : tree =
  let n = String.length s in
  let pos = ref 0 in
  let rec item () =
    if !pos >= n then failwith "tree: unexpected end";
    if s.[!pos] = '[' then begin
      incr pos;
      if !pos < n && s.[!pos] = ']' then (incr pos; T [])
      else begin
        let acc = ref [item ()] in
        while !pos < n && s.[!pos] = ',' do incr pos; acc := item () :: !acc done;
        if !pos >= n || s.[!pos] <> ']' then failwith "tree: ] expected";
        incr pos; T (List.rev !acc)
      end
    end else begin
      let st = !pos in
      if !pos < n && s.[!pos] = '-' then incr pos;
      while !pos < n && s.[!pos] >= '0' && s.[!pos] <= '9' do incr pos done;
      if !pos = st then failwith "tree: number expected";
      I (cz_of_string (String.sub s st (!pos - st)))
    end in
  let t = item () in
  if !pos <> n then failwith "tree: trailing input";
  t

let zi = function I z -> z | T _ -> failwith "tree: int expected"
let li = function T l -> l | I _ -> failwith "tree: list expected"
let zl t = List.map zi (li t)
let bo t = (zi t <> Z0)
let opt f t = match li t with [] -> None | [x] -> Some (f x) | _ -> failwith "tree: option expected"
let ith t k = List.nth (li t) k

let per1_of t = match zl t with
  | [a; b; c; d; e] -> { p_flags = a; p_rbits = b; p_ebits = c; p_lb = d; p_ub = e }
  | _ -> failwith "per1"
let perc_of t = { pc_value = per1_of (ith t 0); pc_size = per1_of (ith t 1); pc_v2c = bo (ith t 2); pc_c2v = bo (ith t 3) }
let oerc_of t = match zl t with [a; b; c] -> { o_width = a; o_pos = b; o_size = c } | _ -> failwith "oerc"
let t2e_of t = match zl t with [a; b; c; d] -> { te_tag = a; te_el = b; te_first = c; te_last = d } | _ -> failwith "t2e"
let t2es t = List.map t2e_of (li t)
let member_of t =
  { m_flags = zi (ith t 0); m_opt = zi (ith t 1); m_tag = zi (ith t 2); m_tmode = zi (ith t 3); m_type = zi (ith t 4);
    m_per = opt perc_of (ith t 5); m_oer = opt oerc_of (ith t 6); m_default = bo (ith t 7); m_selector = bo (ith t 8) }
let kinds = [| KSeq; KSet; KChoice; KSeqOf; KSetOf; KOpenType; KNativeInt; KInt; KNativeEnum; KEnum; KBool; KNull; KOctets; KBits; KAny;
               KReal; KOid; KTime; KStr; KOther |]
let spec_of t =
  match int_of_cz (zi (ith t 0)) with
  | 0 -> SNone
  | 1 -> SSeq (t2es (ith t 1), zl (ith t 2), zi (ith t 3), zi (ith t 4), zi (ith t 5))
  | 2 -> SSet (t2es (ith t 1), t2es (ith t 2), zi (ith t 3), zl (ith t 4))
  | 3 -> SChoice (t2es (ith t 1), opt (fun c -> (zl (ith c 0), zl (ith c 1))) (ith t 2), zi (ith t 3))
  | 4 -> SSetOf (zi (ith t 1))
  | 5 -> SInt (List.map (fun p -> (zi (ith p 0), zl (ith p 1))) (li (ith t 1)), zl (ith t 2), zi (ith t 3), zi (ith t 4), zi (ith t 5), zi (ith t 6))
  | 6 -> SOther
  | _ -> failwith "spec"
let ndescr_of t =
  { nd = { d_id = zi (ith t 0); d_kind = kinds.(int_of_cz (zi (ith t 1))); d_tags = zl (ith t 2); d_all = zl (ith t 3);
           d_elems = List.map member_of (li (ith t 4)); d_per = opt perc_of (ith t 5); d_oer = opt oerc_of (ith t 6);
           d_spec = spec_of (ith t 7); d_bad = zi (ith t 8) };
    nd_name = zl (ith t 9); nd_xml = zl (ith t 10) }
let ntable_of s = let t = parse_tree s in { nt_roots = zi (ith t 0); nt_descrs = List.map ndescr_of (li (ith t 1)) }

let slot_c = function SlotNull -> "N" | SlotTable -> "T" | SlotOwnChecker -> "O" | SlotParentChecker -> "P"
let slots_s ((a, b), c) = slot_c a ^ slot_c b ^ slot_c c

let dispatch cmd args =
  match cmd, args with
  | "nw_nder", [r] -> Some (hex_of_bytes (nativeInteger_der_contents (cz_of_string r)))
  | "nw_wder", [h] -> Some (hex_of_bytes (iNTEGER_der_contents (bytes_of_hex h)))
  | "nw_ndec", [u; h] ->
      Some (match nativeInteger_decode_contents (uns u) (bytes_of_hex h) with
            | Some r -> "OK " ^ string_of_cz r | None -> "FAIL")
  | "nw_n2i", [u; r] -> Some (hex_of_bytes (native_to_INTEGER (uns u) (cz_of_string r)))
  | "nw_xcode", [k; h] ->
      let cs = bytes_of_hex h in
      Some (match k with
            | "W" -> "OK " ^ hex_of_bytes (iNTEGER_der_contents (iNTEGER_decode_contents cs))
            | _ ->
              (match nativeInteger_decode_contents (k = "N1") cs with
               | Some r -> "OK " ^ hex_of_bytes (nativeInteger_der_contents r)
               | None -> "FAIL"))
  | "spec_nw_value", [h] -> Some (string_of_cz (twos_value (bytes_of_hex h)))
  | "opt_sim", [hp; ho; a; b] ->
      Some (try (match table_sim (uns hp) (uns ho) (ntable_of a) (ntable_of b) with VSim -> "SIM" | VDiff -> "DIFF" | VFuel -> "FUEL")
            with Failure m -> "ERROR " ^ m)
  | "opt_slots", [o; p; nc; w; i; c; e; ch; km] ->
      let f = { gf_oer = uns o; gf_per = uns p; gf_no_constraints = uns nc; gf_wide = uns w; gf_indirect = uns i;
                gf_compound = true; gf_quoted = false; gf_no_deps = false } in
      Some (slots_s (type_slots f { ti_constrained = uns c; ti_enum = uns e; ti_choice = uns ch; ti_km_string = uns km }))
  | "opt_mslots", [o; p; nc; c] ->
      let f = { gf_oer = uns o; gf_per = uns p; gf_no_constraints = uns nc; gf_wide = false; gf_indirect = false;
                gf_compound = true; gf_quoted = false; gf_no_deps = false } in
      Some (slots_s (member_slots f (uns c)))
  | _ -> None
