(* drv_c13.ml — native vs wide INTEGER paths (coq/Leaf/NativeWide.v).
   nw_nder <reg>            contents octets NativeInteger_encode_der emits for the 64-bit register
   nw_wder <hex>            contents octets INTEGER_encode_der emits for these INTEGER_t contents
   nw_ndec <0|1> <hex>      NativeInteger_decode_ber on contents octets (1 = field_unsigned): OK <reg> | FAIL
   nw_n2i  <0|1> <reg>      the INTEGER_t NativeInteger_encode_uper/_oer hand to the wide encoder
   nw_xcode <N0|N1|W> <hex> decode the contents octets, re-encode as DER contents: OK <hex> | FAIL
                            (what `xcode T ber 02 LL <hex> der` does in a native signed / native unsigned / wide build)
   spec_nw_value <hex>      the abstract value the octets denote *)
open Model
open Drvlib

let uns s = (s = "1")

let dispatch cmd args =
  match cmd, args with
  | "nw_nder", [r] -> Some (hex_of_bytes (nativeInteger_der_contents (cz_of_string r)))
  | "nw_wder", [h] -> Some (hex_of_bytes (iNTEGER_der_contents (bytes_of_hex h)))
  | "nw_ndec", [u; h] ->
      Some (match nativeInteger_decode_contents (uns u) (bytes_of_hex h) with
            | Some r -> "OK " ^ string_of_cz r | None -> "FAIL")
  | "nw_n2i", [u; r] -> Some (hex_of_bytes (native_to_INTEGER (uns u) (cz_of_string r)))
  | "nw_xcode", [k; h] ->
      let cs = bytes_of_hex h in
      Some (match k with
            | "W" -> "OK " ^ hex_of_bytes (iNTEGER_der_contents (iNTEGER_decode_contents cs))
            | _ ->
              (match nativeInteger_decode_contents (k = "N1") cs with
               | Some r -> "OK " ^ hex_of_bytes (nativeInteger_der_contents r)
               | None -> "FAIL"))
  | "spec_nw_value", [h] -> Some (string_of_cz (twos_value (bytes_of_hex h)))
  | _ -> None
