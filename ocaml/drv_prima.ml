(* drv_prima.ml — ENUMERATED / BIT STRING layer (coq/Rt/PrimA.v).  Base types and values in
   the syntax of drv_rt.ml (the parser below is a copy: every area is linked against its own
   extracted Model_<area>).
     elem := E<tg>(<int>,..;<0|1>;<int>,..)    ENUMERATED: root values ; extensible ; additional values (order written)
           | B<tg>[lo,hi,ext]n<0|1>            BIT STRING: SIZE constraint (hi * = MAX; no constraint = [0,*,0]) ; NamedBitList
           | G<tg><elem>                       EXPLICIT tag
           | =<base type>
     pty  := <elem> | Q<tg>{ (?<elem> | <elem>)* }   SEQUENCE (? = OPTIONAL)
           | F<tg>[lo,hi,ext]<elem>                  SEQUENCE OF
     pev  := e<int>; | b<0|1>*; | =<base value>
     pval := <pev> | R{ (_ | !<pev> | <pev>)* } | M{<pev>*}
   commands:  pder|puper|poer <std 0|1> <pty> <pval> -> hex | NONE     (std 0 = the C, 1 = X.690/X.691/X.696)
              pbits <std> <pty> <pval> -> the UPER bits as a 0/1 string (- = none) | NONE
              pberdec <pty> <hex> | puperdec <std> <pty> <hex> | poerdec <pty> <hex> -> OK <consumed> <pval> | FAIL
              spec_strip <0/1 string> -> without trailing zero bits
              spec_table <ints,> <ints,> -> the value2enum table of root ; additional values *)
open Model
open Drvlib

exception Parse of string

let parse_num s pos : z option * int =
  let n = String.length s in
  if pos < n && s.[pos] = '*' then (None, pos + 1)
  else begin
    let j = ref pos in
    if !j < n && s.[!j] = '-' then incr j;
    while !j < n && s.[!j] >= '0' && s.[!j] <= '9' do incr j done;
    if !j = pos then raise (Parse ("number expected at " ^ string_of_int pos));
    (Some (cz_of_string (String.sub s pos (!j - pos))), !j)
  end

let num_req s pos = match parse_num s pos with
  | (Some z, p) -> (z, p)
  | (None, _) -> raise (Parse "number required")

let expect s pos c =
  if pos < String.length s && s.[pos] = c then pos + 1
  else raise (Parse (Printf.sprintf "expected %c at %d" c pos))

let parse_con s pos =
  let pos = expect s pos '[' in
  let (lo, pos) = parse_num s pos in
  let pos = expect s pos ',' in
  let (hi, pos) = parse_num s pos in
  let pos = expect s pos ',' in
  let (e, pos) = num_req s pos in
  let pos = expect s pos ']' in
  (lo, hi, (e <> Z0), pos)

let rec parse_ty s pos : ty * int =
  if pos >= String.length s then raise (Parse "type expected");
  match s.[pos] with
  | 'b' -> let (tg, p) = num_req s (pos + 1) in (TBool tg, p)
  | 'n' -> let (tg, p) = num_req s (pos + 1) in (TNull tg, p)
  | 'i' -> let (tg, p) = num_req s (pos + 1) in
           let (lo, hi, e, p) = parse_con s p in (TInt (tg, ICon (lo, hi, e)), p)
  | 'o' -> let (tg, p) = num_req s (pos + 1) in
           let (lo, hi, e, p) = parse_con s p in
           (TOct (tg, SCon ((match lo with Some l -> l | None -> Z0), hi, e)), p)
  | 's' -> let (tg, p) = num_req s (pos + 1) in
           let (ms, p) = parse_tys s (expect s p '{') in (TSeq (tg, ms), p)
  | 'q' | 't' as k ->
           let (tg, p) = num_req s (pos + 1) in
           let (lo, hi, e, p) = parse_con s p in
           let (el, p) = parse_ty s p in
           let sc = SCon ((match lo with Some l -> l | None -> Z0), hi, e) in
           ((if k = 'q' then TSeqOf (tg, sc, el) else TSetOf (tg, sc, el)), p)
  | 'c' -> let (alts, p) = parse_tys s (expect s (pos + 1) '{') in (TChoice alts, p)
  | 'x' -> let (tg, p) = num_req s (pos + 1) in
           let (t, p) = parse_ty s p in (TTag (tg, t), p)
  | '?' -> let (t, p) = parse_ty s (pos + 1) in (TOpt t, p)
  | c -> raise (Parse (Printf.sprintf "bad type char %c at %d" c pos))
and parse_tys s pos : ty list * int =
  if pos < String.length s && s.[pos] = '}' then ([], pos + 1)
  else let (t, p) = parse_ty s pos in
       let (ts, p) = parse_tys s p in (t :: ts, p)

let rec parse_val s pos : val0 * int =
  if pos >= String.length s then raise (Parse "value expected");
  match s.[pos] with
  | 'T' -> (VBool true, pos + 1)
  | 'F' -> (VBool false, pos + 1)
  | 'N' -> (VNull, pos + 1)
  | 'I' -> let (z, p) = num_req s (pos + 1) in (VInt z, expect s p ';')
  | 'O' -> let j = String.index_from s pos ';' in
           (VOct (bytes_of_hex (let h = String.sub s (pos + 1) (j - pos - 1) in if h = "" then "-" else h)), j + 1)
  | 'S' -> let (vs, p) = parse_vals s (expect s (pos + 1) '{') in (VSeq vs, p)
  | 'L' -> let (vs, p) = parse_vals s (expect s (pos + 1) '{') in (VList vs, p)
  | 'C' -> let (i, p) = num_req s (pos + 1) in
           let (v, p) = parse_val s (expect s p ':') in (VChoice (nat_of_int (int_of_cz i), v), p)
  | '_' -> (VNone, pos + 1)
  | '!' -> let (v, p) = parse_val s (pos + 1) in (VSome v, p)
  | c -> raise (Parse (Printf.sprintf "bad value char %c at %d" c pos))
and parse_vals s pos =
  if pos < String.length s && s.[pos] = '}' then ([], pos + 1)
  else let (v, p) = parse_val s pos in
       let (vs, p) = parse_vals s p in (v :: vs, p)

let rec show_val (v : val0) : string =
  match v with
  | VBool true -> "T" | VBool false -> "F" | VNull -> "N"
  | VInt z -> "I" ^ string_of_cz z ^ ";"
  | VOct bs -> "O" ^ (if bs = [] then "" else hex_of_bytes bs) ^ ";"
  | VSeq vs -> "S{" ^ String.concat "" (List.map show_val vs) ^ "}"
  | VList vs -> "L{" ^ String.concat "" (List.map show_val vs) ^ "}"
  | VChoice (i, v) -> "C" ^ string_of_int (int_of_nat i) ^ ":" ^ show_val v
  | VNone -> "_"
  | VSome v -> "!" ^ show_val v

let ty_of s = let (t, p) = parse_ty s 0 in
  if p <> String.length s then raise (Parse "trailing type text"); t
let val_of s = let (v, p) = parse_val s 0 in
  if p <> String.length s then raise (Parse "trailing value text"); v



let parse_ints s pos stop : z list * int =
  (* comma separated, possibly empty, up to the character stop *)
  let rec go pos acc =
    if pos < String.length s && s.[pos] = stop then (List.rev acc, pos + 1)
    else
      let pos = if pos < String.length s && s.[pos] = ',' then pos + 1 else pos in
      let (z, p) = num_req s pos in go p (z :: acc)
  in go pos []

let rec parse_elem s pos : pelem * int =
  if pos >= String.length s then raise (Parse "elem expected");
  match s.[pos] with
  | 'E' -> let (tg, p) = num_req s (pos + 1) in
           let p = expect s p '(' in
           let (root, p) = parse_ints s p ';' in
           let (x, p) = num_req s p in
           let p = expect s p ';' in
           let (adds, p) = parse_ints s p ')' in
           (ELeaf (LEnum (tg, root, (x <> Z0), adds)), p)
  | 'B' -> let (tg, p) = num_req s (pos + 1) in
           let (lo, hi, e, p) = parse_con s p in
           let p = expect s p 'n' in
           let (nb, p) = num_req s p in
           (ELeaf (LBits (tg, SCon ((match lo with Some l -> l | None -> Z0), hi, e), (nb <> Z0))), p)
  | 'G' -> let (tg, p) = num_req s (pos + 1) in
           let (e, p) = parse_elem s p in (ETag (tg, e), p)
  | '=' -> let (t, p) = parse_ty s (pos + 1) in (EBase t, p)
  | c -> raise (Parse (Printf.sprintf "bad elem char %c at %d" c pos))

let rec parse_members s pos : (bool * pelem) list * int =
  if pos < String.length s && s.[pos] = '}' then ([], pos + 1)
  else
    let (o, pos) = if s.[pos] = '?' then (true, pos + 1) else (false, pos) in
    let (e, p) = parse_elem s pos in
    let (ms, p) = parse_members s p in ((o, e) :: ms, p)

let parse_pty s : pty =
  if String.length s = 0 then raise (Parse "pty expected");
  let (t, p) =
    match s.[0] with
    | 'Q' -> let (tg, p) = num_req s 1 in
             let (ms, p) = parse_members s (expect s p '{') in (PSeq (tg, ms), p)
    | 'F' -> let (tg, p) = num_req s 1 in
             let (lo, hi, e, p) = parse_con s p in
             let (el, p) = parse_elem s p in
             (PSeqOf (tg, SCon ((match lo with Some l -> l | None -> Z0), hi, e), el), p)
    | _ -> let (e, p) = parse_elem s 0 in (PElem e, p) in
  if p <> String.length s then raise (Parse "trailing pty text");
  t

let parse_bits s pos : bool list * int =
  let j = String.index_from s pos ';' in
  (List.init (j - pos) (fun i -> s.[pos + i] = '1'), j + 1)

let parse_pev s pos : pev * int =
  if pos >= String.length s then raise (Parse "pev expected");
  match s.[pos] with
  | 'e' -> let (z, p) = num_req s (pos + 1) in (XEnum z, expect s p ';')
  | 'b' -> let (bs, p) = parse_bits s (pos + 1) in (XBits bs, p)
  | '=' -> let (v, p) = parse_val s (pos + 1) in (XBase v, p)
  | c -> raise (Parse (Printf.sprintf "bad pev char %c at %d" c pos))

let rec parse_pevs s pos : pev list * int =
  if pos < String.length s && s.[pos] = '}' then ([], pos + 1)
  else let (x, p) = parse_pev s pos in
       let (xs, p) = parse_pevs s p in (x :: xs, p)

let rec parse_opts s pos : pev option list * int =
  if pos < String.length s && s.[pos] = '}' then ([], pos + 1)
  else
    let (x, p) =
      match s.[pos] with
      | '_' -> (None, pos + 1)
      | '!' -> let (x, p) = parse_pev s (pos + 1) in (Some x, p)
      | _ -> let (x, p) = parse_pev s pos in (Some x, p) in
    let (xs, p) = parse_opts s p in (x :: xs, p)

let parse_pval s : pval =
  if String.length s = 0 then raise (Parse "pval expected");
  let (v, p) =
    match s.[0] with
    | 'R' -> let (xs, p) = parse_opts s (expect s 1 '{') in (PVSeq xs, p)
    | 'M' -> let (xs, p) = parse_pevs s (expect s 1 '{') in (PVList xs, p)
    | _ -> let (x, p) = parse_pev s 0 in (PVElem x, p) in
  if p <> String.length s then raise (Parse "trailing pval text");
  v

let bits01 bs = String.concat "" (List.map (fun b -> if b then "1" else "0") bs)

let show_pev = function
  | XEnum z -> "e" ^ string_of_cz z ^ ";"
  | XBits bs -> "b" ^ bits01 bs ^ ";"
  | XBase v -> "=" ^ show_val v

(* optional members are shown as _ / !pev; the type tells which members are optional *)
let show_pval (t : pty) (v : pval) : string =
  match t, v with
  | PSeq (_, ms), PVSeq xs ->
      let rec go ms xs = match ms, xs with
        | (o, _) :: ms', x :: xs' ->
            (match x with None -> "_" | Some x' -> (if o then "!" else "") ^ show_pev x') :: go ms' xs'
        | _, _ -> [] in
      "R{" ^ String.concat "" (go ms xs) ^ "}"
  | _, PVSeq xs -> "R{" ^ String.concat "" (List.map (function None -> "_" | Some x -> show_pev x) xs) ^ "}"
  | _, PVList xs -> "M{" ^ String.concat "" (List.map show_pev xs) ^ "}"
  | _, PVElem x -> show_pev x

let hex_opt = function Some bs -> hex_of_bytes bs | None -> "NONE"
let dec_s t = function
  | Some (v, n) -> Printf.sprintf "OK %s %s" (string_of_cz n) (show_pval t v)
  | None -> "FAIL"
let bits_s = function
  | Some bs -> if bs = [] then "-" else bits01 bs
  | None -> "NONE"

let ints_of s = if s = "-" then [] else List.map cz_of_string (String.split_on_char ',' s)

let dispatch cmd args =
  match cmd, args with
  | "pder", [std; t; v] -> Some (hex_opt (p_der (std = "1") (parse_pty t) (parse_pval v)))
  | "poer", [std; t; v] -> Some (hex_opt (p_oer (std = "1") (parse_pty t) (parse_pval v)))
  | "puper", [std; t; v] -> Some (hex_opt (p_uper_encode (std = "1") (parse_pty t) (parse_pval v)))
  | "pbits", [std; t; v] -> Some (bits_s (p_uper (std = "1") (parse_pty t) (parse_pval v)))
  | "pberdec", [t; h] -> let t = parse_pty t in Some (dec_s t (p_ber_decode t (bytes_of_hex h)))
  | "puperdec", [std; t; h] -> let t = parse_pty t in Some (dec_s t (p_uper_decode (std = "1") t (bytes_of_hex h)))
  | "poerdec", [t; h] -> let t = parse_pty t in Some (dec_s t (p_oer_decode t (bytes_of_hex h)))
  | "spec_strip", [b] -> Some (let r = strip_tz (List.init (String.length b) (fun i -> b.[i] = '1')) in if b = "-" || r = [] then "-" else bits01 r)
  | "spec_table", [r; a] -> Some (String.concat "," (List.map string_of_cz (enum_table (ints_of r) (ints_of a))))
  | _ -> None
