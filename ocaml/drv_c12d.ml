(* drv_c12d.ml -- front end of coq/Fix/IdenticalFiles.v.
     c12_ident B OLD NEW            block size, two files as hex ("-" = empty)
        -> "SAME" | "DIFF"          identical B old new
     c12_entry OP B OLDENTRY NEW    OP = type (per-type file) | copy (real_copy of a skeleton) | link (-flink-skeletons) | inplace
                                    OLDENTRY = A (absent) | L (a symbolic link) | R<hex> (regular file; "R-" = empty); NEW = hex
        -> "KEEP"     the entry that was there is still there, untouched
           "NEW"      a regular file with the new content (a fresh link for OP = link)
           "THROUGH"  the old link is still there and the new content went to the file it points to *)
open Model
open Drvlib

exception Bad of string

let entry_of s =
  if s = "A" then Absent
  else if s = "L" then Link (nat_of_int 1)
  else if Stdlib.String.length s >= 2 && s.[0] = 'R' then Reg (bytes_of_hex (Stdlib.String.sub s 1 (Stdlib.String.length s - 1)))
  else raise (Bad ("entry " ^ s))

(* the decision of save_with, read off the result: the old content list itself is kept, or the new one put in its place *)
let kept old res =
  match old, res with
  | Reg o, Reg r -> if r == o then "KEEP" else "NEW"
  | _, _ -> "NEW"

let dispatch cmd args =
  match cmd with
  | "c12_ident" ->
      (try
         (match args with
          | [b; o; n] ->
              Some (if identical_Z (nat_of_int (int_of_string b)) (bytes_of_hex o) (bytes_of_hex n) then "SAME" else "DIFF")
          | _ -> Some "BADARGS")
       with Bad s -> Some ("BADARGS " ^ s) | Failure s -> Some ("BADARGS " ^ s))
  | "c12_entry" ->
      (try
         (match args with
          | [op; b; o; n] ->
              let bs = nat_of_int (int_of_string b) in
              let old = entry_of o in
              let nw = bytes_of_hex n in
              (match op with
               | "type" -> Some (kept old (save_type_Z bs old nw))
               | "copy" -> Some (kept old (copy_skel_Z bs old nw))
               | "link" ->
                   (match old, link_skel_Z old (nat_of_int 2) with
                    | Absent, Link _ -> Some "NEW"
                    | _, r -> if r == old || r = old then Some "KEEP" else Some "NEW")
               | "inplace" ->
                   (match write_inplace_Z old nw with
                    | (Link _, Some _) -> Some "THROUGH"
                    | (Reg _, None) -> Some "NEW"
                    | _ -> Some "KEEP")
               | _ -> Some "BADARGS op")
          | _ -> Some "BADARGS")
       with Bad s -> Some ("BADARGS " ^ s) | Failure s -> Some ("BADARGS " ^ s))
  | _ -> None
