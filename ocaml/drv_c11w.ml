(* drv_c11w.ml — front end of the C11 wave-4 models (coq/Fix/Status.v, coq/Fix/ParamDistinct.v over Fix/ParamSpec.v).
     c11st <werror 0|1> <nmodules> then per module: <nleaves> and that many statuses -1|0|1
           the phase-1 status leaves of every module of a run, in processing order (phase 2 has none in the tie)
           -> "exit=<n> status=<-1|0|1>"   (Status.run_exit / Status.process with the real macro ret2rval)
     c11ps <nrefs> then nrefs alists
           the references to ONE parameterized type in the order asn1c meets them;
           <alist> = L <k> then k pexprs;
           <pexpr> = E <meta> <etype> <ident hex|-> <ref: - | R <module> <n> n-hex-strings> <value: - | I <z>>
                       <tag class> <tag mode> <tag value> <marker flags> <constraint hex|-> <npspecs> pexprs <nmembers> pexprs
           -> "OK good=<0|1> nclones=<n> k0 k1 ..." (ParamDistinct.assign_tbl on the empty table) | "ABORT" *)
open Model
open Drvlib

exception Bad of string

let ascii_of_char (c : char) : ascii =
  let n = Char.code c in
  let b i = (n lsr i) land 1 = 1 in
  Ascii (b 0, b 1, b 2, b 3, b 4, b 5, b 6, b 7)

let str_of_native s =
  let r = ref SNil in
  for i = Stdlib.String.length s - 1 downto 0 do r := SCons (ascii_of_char s.[i], !r) done;
  !r

let unhex (h : string) : string =
  if h = "-" then "" else
  Stdlib.String.init (Stdlib.String.length h / 2) (fun i -> Char.chr (int_of_string ("0x" ^ Stdlib.String.sub h (2 * i) 2)))

let read_alists (args : string list) : pexpr list =
  let toks = ref args in
  let next () = match !toks with [] -> raise (Bad "eof") | x :: r -> toks := r; x in
  let rec times n f = if n <= 0 then [] else let x = f () in x :: times (n - 1) f in
  let hstr () = str_of_native (unhex (next ())) in
  let pref () = let m = cz_of_string (next ()) in let n = int_of_string (next ()) in (m, times n hstr) in
  let rec pexpr () =
    (match next () with "E" -> () | s -> raise (Bad ("pexpr " ^ s)));
    let meta = cz_of_string (next ()) in
    let et = cz_of_string (next ()) in
    let ident = (match next () with "-" -> None | h -> Some (str_of_native (unhex h))) in
    let rf = (match next () with "-" -> None | "R" -> Some (pref ()) | s -> raise (Bad ("ref " ^ s))) in
    let v = (match next () with "-" -> None | "I" -> Some (PVInt (cz_of_string (next ()))) | s -> raise (Bad ("value " ^ s))) in
    let tc = cz_of_string (next ()) in
    let tm = cz_of_string (next ()) in
    let tv = cz_of_string (next ()) in
    let fl = cz_of_string (next ()) in
    let c = (match next () with "-" -> None | h -> Some (str_of_native (unhex h))) in
    let np = int_of_string (next ()) in
    let ps = times np pexpr in
    let nm = int_of_string (next ()) in
    let ms = times nm pexpr in
    PE (meta, et, ident, rf, v, ((tc, tm), tv), fl, None, false, c, ps, ms) in
  let n = int_of_string (next ()) in
  let ls = times n (fun () ->
    (match next () with "L" -> () | s -> raise (Bad ("alist " ^ s)));
    let k = int_of_string (next ()) in
    wrap (times k pexpr)) in
  if !toks <> [] then raise (Bad "trailing input");
  ls

let read_mods (args : string list) =
  let toks = ref args in
  let next () = match !toks with [] -> raise (Bad "eof") | x :: r -> toks := r; x in
  let rec times n f = if n <= 0 then [] else let x = f () in x :: times (n - 1) f in
  let werror = next () = "1" in
  let n = int_of_string (next ()) in
  let mods = times n (fun () ->
    let k = int_of_string (next ()) in
    let ls = times k (fun () -> Leaf (status_of_Z (cz_of_string (next ())))) in
    (Node ls, Node [])) in
  if !toks <> [] then raise (Bad "trailing input");
  (werror, mods)

let dispatch cmd args =
  match cmd with
  | "c11st" ->
      (try
         let (werror, mods) = read_mods args in
         Some (Printf.sprintf "exit=%s status=%s" (string_of_cz (run_exit ret2rval werror mods))
                 (string_of_cz (z_of_status (process ret2rval mods))))
       with Bad s -> Some ("BADAST " ^ s))
  | "c11ps" ->
      (try
         let refs = read_alists args in
         let g = List.for_all good refs in
         (match assign_tbl [] refs with
          | None -> Some "ABORT"
          | Some (tf, ks) ->
              Some (Stdlib.String.concat " " ("OK" :: ("good=" ^ (if g then "1" else "0")) :: ("nclones=" ^ string_of_int (List.length tf))
                                              :: List.map (fun k -> string_of_int (int_of_nat k)) ks)))
       with Bad s -> Some ("BADAST " ^ s))
  | _ -> None
