(* drv_c03.ml — C03 front end: variant encoder of the spec (coq/Rt/BerVariants.v), the
   reference BER decoder followed by the DER re-encoding of what it returned.
   Type / value syntax as in drv_rt.ml (the parser below is a copy bound to this
   area's extracted types).  Choice trees:
     ch := lf [ 'p' num (',' num)* ';' ] '{' ch* '}'       lf := 's' | 'i' | 'l' num
   commands:
     bervar <ty> <val> <ch>  -> hex | NONE
     varval <ty> <val> <ch>  -> val
     c03dec <ty> <hex>       -> OK <consumed> <der of the decoded value> <val> | FAIL
   OER variants (coq/Rt/OerVariants.v; the same choice trees: lf of a node = form of its length
   determinant, 'p<z>;' on a SEQUENCE OF / SET OF node = z leading zero octets of the quantity):
     oervar <ty> <val> <ch>        -> hex | NONE
     oercdec <ty> <hex>            -> OK <consumed> <val> | FAIL      (the decoder of the C: oer_fetch_length everywhere)
     xoervar <ety> <val> <ch>      -> hex | NONE        ety / values as in drv_ext.ml
     xoercdec <ety> <hex>          -> OK <consumed> <val> | FAIL   (a leading std argument is accepted and ignored)
   tag-to-member maps (coq/Rt/TagMap.v):  map := tag:el_no:toff_first:toff_last,... | -     els := tag:optional,... | -
     t2mwf <map>                          -> 1 | 0
     t2mfind <els> <map> <edx> <tag>      -> <member> | N          (SEQUENCE_decode_ber's search, glibc bsearch loop)
     t2mpick <map> <tag> <edx> <edxmax>   -> bs=<index|N> probes=<i,..|-> picks=<k|N|X,..|-> spec=<k|N>
                                             (one pick per entry bsearch() may return; X = outside the table)
     t2mset <map> <tag>                   -> <member> | N          (SET / CHOICE)
   spellings of a character in an XER text body (coq/Rt/EntrefComplete.v, coq/Rt/ResumeX.v):   ds := d:u,d:u,.. (digit value : upper case?)
     entref <hexa 0|1> <ds>               -> <hex of ref_chars> <ref_val> <hex of what ResumeX.ref_at reads it as | ->
     entrefl <hexa 0|1> <ds>              -> the same reading with the lower-case-only digit table (digit_lower)
     entdec <hex body|->                  -> <RC> <consumed> <hex of the string>   (ResumeX.entref_step on body ++ "<")
   skipping of unknown XML subtrees (coq/Rt/XerSkip.v):   toks := tok,tok,..   tok := o<name> | c<name> | b<name> | t   (names = numbers)
     xskrun <N> <toks>                    -> <value of xer_skip_unknown> <depth> <tags looked at> <tokens consumed>   (phase 3 from depth 1)
     xskseed <N> <toks>                   -> the same with the name-sensitive step of seeded/C03-9 (xer_skip_seed)
     xextrun <N> <toks>                   -> DONE <tokens consumed> | FAIL | MORE    (phases 1 and 3, no known member expected) *)
open Model
open Drvlib

exception Parse of string

let parse_num s pos : z option * int =
  let n = String.length s in
  if pos < n && s.[pos] = '*' then (None, pos + 1)
  else begin
    let j = ref pos in
    if !j < n && s.[!j] = '-' then incr j;
    while !j < n && s.[!j] >= '0' && s.[!j] <= '9' do incr j done;
    if !j = pos then raise (Parse ("number expected at " ^ string_of_int pos));
    (Some (cz_of_string (String.sub s pos (!j - pos))), !j)
  end

let num_req s pos = match parse_num s pos with
  | (Some z, p) -> (z, p)
  | (None, _) -> raise (Parse "number required")

let expect s pos c =
  if pos < String.length s && s.[pos] = c then pos + 1
  else raise (Parse (Printf.sprintf "expected %c at %d" c pos))

let parse_con s pos =
  let pos = expect s pos '[' in
  let (lo, pos) = parse_num s pos in
  let pos = expect s pos ',' in
  let (hi, pos) = parse_num s pos in
  let pos = expect s pos ',' in
  let (e, pos) = num_req s pos in
  let pos = expect s pos ']' in
  (lo, hi, (e <> Z0), pos)

let rec parse_ty s pos : ty * int =
  if pos >= String.length s then raise (Parse "type expected");
  match s.[pos] with
  | 'b' -> let (tg, p) = num_req s (pos + 1) in (TBool tg, p)
  | 'n' -> let (tg, p) = num_req s (pos + 1) in (TNull tg, p)
  | 'i' -> let (tg, p) = num_req s (pos + 1) in
           let (lo, hi, e, p) = parse_con s p in (TInt (tg, ICon (lo, hi, e)), p)
  | 'o' -> let (tg, p) = num_req s (pos + 1) in
           let (lo, hi, e, p) = parse_con s p in
           (TOct (tg, SCon ((match lo with Some l -> l | None -> Z0), hi, e)), p)
  | 's' -> let (tg, p) = num_req s (pos + 1) in
           let (ms, p) = parse_tys s (expect s p '{') in (TSeq (tg, ms), p)
  | 'q' | 't' as k ->
           let (tg, p) = num_req s (pos + 1) in
           let (lo, hi, e, p) = parse_con s p in
           let (el, p) = parse_ty s p in
           let sc = SCon ((match lo with Some l -> l | None -> Z0), hi, e) in
           ((if k = 'q' then TSeqOf (tg, sc, el) else TSetOf (tg, sc, el)), p)
  | 'c' -> let (alts, p) = parse_tys s (expect s (pos + 1) '{') in (TChoice alts, p)
  | 'x' -> let (tg, p) = num_req s (pos + 1) in
           let (t, p) = parse_ty s p in (TTag (tg, t), p)
  | '?' -> let (t, p) = parse_ty s (pos + 1) in (TOpt t, p)
  | c -> raise (Parse (Printf.sprintf "bad type char %c at %d" c pos))
and parse_tys s pos : ty list * int =
  if pos < String.length s && s.[pos] = '}' then ([], pos + 1)
  else let (t, p) = parse_ty s pos in
       let (ts, p) = parse_tys s p in (t :: ts, p)

let rec parse_val s pos : val0 * int =
  if pos >= String.length s then raise (Parse "value expected");
  match s.[pos] with
  | 'T' -> (VBool true, pos + 1)
  | 'F' -> (VBool false, pos + 1)
  | 'N' -> (VNull, pos + 1)
  | 'I' -> let (z, p) = num_req s (pos + 1) in (VInt z, expect s p ';')
  | 'O' -> let j = String.index_from s pos ';' in
           (VOct (bytes_of_hex (let h = String.sub s (pos + 1) (j - pos - 1) in if h = "" then "-" else h)), j + 1)
  | 'S' -> let (vs, p) = parse_vals s (expect s (pos + 1) '{') in (VSeq vs, p)
  | 'L' -> let (vs, p) = parse_vals s (expect s (pos + 1) '{') in (VList vs, p)
  | 'C' -> let (i, p) = num_req s (pos + 1) in
           let (v, p) = parse_val s (expect s p ':') in (VChoice (nat_of_int (int_of_cz i), v), p)
  | '_' -> (VNone, pos + 1)
  | '!' -> let (v, p) = parse_val s (pos + 1) in (VSome v, p)
  | c -> raise (Parse (Printf.sprintf "bad value char %c at %d" c pos))
and parse_vals s pos =
  if pos < String.length s && s.[pos] = '}' then ([], pos + 1)
  else let (v, p) = parse_val s pos in
       let (vs, p) = parse_vals s p in (v :: vs, p)

let rec show_val (v : val0) : string =
  match v with
  | VBool true -> "T" | VBool false -> "F" | VNull -> "N"
  | VInt z -> "I" ^ string_of_cz z ^ ";"
  | VOct bs -> "O" ^ (if bs = [] then "" else hex_of_bytes bs) ^ ";"
  | VSeq vs -> "S{" ^ String.concat "" (List.map show_val vs) ^ "}"
  | VList vs -> "L{" ^ String.concat "" (List.map show_val vs) ^ "}"
  | VChoice (i, v) -> "C" ^ string_of_int (int_of_nat i) ^ ":" ^ show_val v
  | VNone -> "_"
  | VSome v -> "!" ^ show_val v

let ty_of s = let (t, p) = parse_ty s 0 in
  if p <> String.length s then raise (Parse "trailing type text"); t
let val_of s = let (v, p) = parse_val s 0 in
  if p <> String.length s then raise (Parse "trailing value text"); v


let rec parse_ch s pos : ch * int =
  if pos >= String.length s then raise (Parse "choice expected");
  let (lf, p) = match s.[pos] with
    | 's' -> (LShort, pos + 1)
    | 'i' -> (LIndef, pos + 1)
    | 'l' -> let (n, p) = num_req s (pos + 1) in (LLong (nat_of_int (int_of_cz n)), p)
    | c -> raise (Parse (Printf.sprintf "bad choice char %c at %d" c pos)) in
  let (perm, p) =
    if p < String.length s && s.[p] = 'p' then begin
      let rec go p acc =
        if p < String.length s && s.[p] = ';' then (List.rev acc, p + 1)
        else let p = if s.[p] = ',' then p + 1 else p in
             let (n, p) = num_req s p in go p (nat_of_int (int_of_cz n) :: acc) in
      go (p + 1) []
    end else ([], p) in
  let (subs, p) = parse_chs s (expect s p '{') in
  (Ch (lf, perm, subs), p)
and parse_chs s pos =
  if pos < String.length s && s.[pos] = '}' then ([], pos + 1)
  else let (c, p) = parse_ch s pos in
       let (cs, p) = parse_chs s p in (c :: cs, p)

let ch_of s = let (c, p) = parse_ch s 0 in
  if p <> String.length s then raise (Parse "trailing choice text"); c

let hex_opt = function Some bs -> hex_of_bytes bs | None -> "NONE"

(* ---- extensible types (copy of the parsers of drv_ext.ml bound to this area's types) ---- *)
let parse_ety s : ety =
  if String.length s = 0 then raise (Parse "ety expected");
  match s.[0] with
  | 'E' -> let (tg, p) = num_req s 1 in
           let (root, p) = parse_tys s (expect s p '{') in
           let (adds, p) = parse_tys s (expect s p '{') in
           if p <> String.length s then raise (Parse "trailing ety text");
           ESeq (tg, root, adds)
  | 'H' -> let (root, p) = parse_tys s (expect s 1 '{') in
           let (exts, p) = parse_tys s (expect s p '{') in
           if p <> String.length s then raise (Parse "trailing ety text");
           EChoice (root, exts)
  | c -> raise (Parse (Printf.sprintf "bad ety char %c" c))

let rec split_at n l = if n = 0 then ([], l) else match l with [] -> ([], []) | x :: tl -> let (a, b) = split_at (n - 1) tl in (x :: a, b)

let eval_of (t : ety) (s : string) : eval =
  match t, val_of s with
  | ESeq (_, root, _), VSeq vs -> let (a, b) = split_at (List.length root) vs in EVSeq (a, b)
  | EChoice _, VChoice (i, v) -> EVAlt (i, v)
  | _ -> raise (Parse "value does not fit the extensible type")

let show_eval = function
  | EVSeq (a, b) -> show_val (VSeq (a @ b))
  | EVAlt (i, v) -> show_val (VChoice (i, v))

(* ---- tag-to-member maps ---- *)
let split_on c s = if s = "-" || s = "" then [] else String.split_on_char c s
let parse_map s : t2m list =
  List.map (fun e -> match String.split_on_char ':' e with
    | [t; n; f; l] -> { el_tag = cz_of_string t; el_no = nat_of_int (int_of_string n);
                        toff_first = cz_of_string f; toff_last = cz_of_string l }
    | _ -> raise (Parse "bad map entry")) (split_on ',' s)
let parse_els s : (z * nat) list =
  List.map (fun e -> match String.split_on_char ':' e with
    | t :: o :: _ -> (cz_of_string t, nat_of_int (int_of_string o))
    | _ -> raise (Parse "bad member entry")) (split_on ',' s)
let nat_s = function Some k -> string_of_int (int_of_nat k) | None -> "N"
let pick_s = function POutside -> "X" | PNone -> "N" | PSome k -> string_of_int (int_of_nat k)
let list_s f l = if l = [] then "-" else String.concat "," (List.map f l)

let xtoks s : xtok list =
  List.map (fun e ->
    if e = "t" then TText
    else begin
      let n = cz_of_string (String.sub e 1 (String.length e - 1)) in
      match e.[0] with 'o' -> TOpen n | 'c' -> TClose n | 'b' -> TBoth n | _ -> raise (Parse "bad token")
    end) (split_on ',' s)

let dispatch cmd args =
  match cmd, args with
  | "bervar", [t; v; c] -> Some (hex_opt (ber_var (ty_of t) (ch_of c) (val_of v)))
  | "varval", [t; v; c] -> Some (show_val (var_val (ty_of t) (ch_of c) (val_of v)))
  | "c03dec", [t; h] ->
      let ty = ty_of t in
      (match ber_decode ty (bytes_of_hex h) with
       | Some (v, n) -> Some (Printf.sprintf "OK %s %s %s" (string_of_cz n) (hex_opt (der ty v)) (show_val v))
       | None -> Some "FAIL")
  | "oervar", [t; v; c] -> Some (hex_opt (oer_var (ty_of t) (ch_of c) (val_of v)))
  | "oercdec", [t; h] ->
      (match oer_cdecode (ty_of t) (bytes_of_hex h) with
       | Some (v, n) -> Some (Printf.sprintf "OK %s %s" (string_of_cz n) (show_val v))
       | None -> Some "FAIL")
  | "xoervar", [t; v; c] -> let t = parse_ety t in Some (hex_opt (ext_oer_var t (ch_of c) (eval_of t v)))
  | "xoercdec", [t; h] | "xoercdec", [_; t; h] ->
      (match ext_oer_cdecode (parse_ety t) (bytes_of_hex h) with
       | Some (v, n) -> Some (Printf.sprintf "OK %s %s" (string_of_cz n) (show_eval v))
       | None -> Some "FAIL")
  | "t2mwf", [m] -> Some (if wf_mapb (parse_map m) then "1" else "0")
  | "t2mfind", [e; m; edx; tag] ->
      Some (nat_s (seq_find (parse_els e) (parse_map m) (nat_of_int (int_of_string edx)) (cz_of_string tag)))
  | "t2mpick", [m; tag; edx; edxmax] ->
      let m = parse_map m and tag = cz_of_string tag in
      let edx = nat_of_int (int_of_string edx) and emax = nat_of_int (int_of_string edxmax) in
      let ps = probes m tag edx in
      Some (Printf.sprintf "bs=%s probes=%s picks=%s spec=%s" (nat_s (bsearch (seq_cmp tag edx) m))
              (list_s (fun p -> string_of_int (int_of_nat p)) ps)
              (list_s (fun p -> pick_s (seq_pick m p edx emax)) ps)
              (nat_s (spec_pick m tag edx emax)))
  | "entref", [h; ds] | "entrefl", [h; ds] ->
      let hexa = (h = "1") in
      let ds = List.map (fun e -> match String.split_on_char ':' e with
        | [d; u] -> (cz_of_string d, u = "1") | _ -> raise (Parse "bad digit")) (split_on ',' ds) in
      let chars = ref_chars hexa ds in
      let out = if cmd = "entref" then ref_read hexa ds
                else (match ref_at_g digit_lower (chars @ bytes_of_hex "3c") with XChars (o, _) -> o | XStall -> []) in
      Some (Printf.sprintf "%s %s %s" (hex_of_bytes chars) (string_of_cz (ref_val (if hexa then cz_of_string "16" else cz_of_string "10") ds))
              (if out = [] then "-" else hex_of_bytes out))
  | "entdec", [h] ->
      let ((c, k), acc) = text_read (if h = "-" then [] else bytes_of_hex h) in
      Some (Printf.sprintf "%s %d %s" (match c with OK -> "OK" | MORE -> "MORE" | FAIL -> "FAIL") (int_of_nat k)
              (if acc = [] then "-" else hex_of_bytes acc))
  | "t2mset", [m; tag] -> Some (nat_s (tag_find (parse_map m) (cz_of_string tag)))
  | "xskrun", [n; ts] | "xskseed", [n; ts] ->
      let (((r, d), nt), nk) = (if cmd = "xskrun" then skip_run else skip_run_seed) (cz_of_string n) (xtoks ts) (cz_of_string "1") O O in
      Some (Printf.sprintf "%s %s %d %d" (string_of_cz r) (string_of_cz d) (int_of_nat nt) (int_of_nat nk))
  | "xextrun", [n; ts] ->
      Some (match ext_run_c (cz_of_string n) (xtoks ts) with
            | XDone k -> Printf.sprintf "DONE %d" (int_of_nat k) | XFailed -> "FAIL" | XMore -> "MORE" | XKnown k -> Printf.sprintf "KNOWN %d" (int_of_nat k))
  | _ -> None
