(* drv_ext.ml — extensibility layer (coq/Rt/Ext.v).  Component types and values in the
   syntax of drv_rt.ml (the parser below is a copy: every area is linked against its own
   extracted Model_<area>, so the code cannot be shared).
     ety := E<tg>{ty*}{ty*}      extensible SEQUENCE: root members, additions
          | H{ty*}{ty*}          extensible CHOICE: root alternatives, extension alternatives
     value of an E type: S{val*}  (root members then one _ / !val per addition)
     value of an H type: C<i>:val (i over root ++ extensions)
   commands:  xder|xoer <ety> <val> -> hex | NONE        xuper <std 0|1> <ety> <val>
              xberdec <ety> <hex> | xuperdec <std> <ety> <hex> | xoerdec <ety> <hex>
                  -> OK <consumed> <val> | FAIL
              xtrunc <k> <ety> -> ety with the first k additions / extension alternatives
              xtruncv <k> <ety> <val> -> the value with the first k additions only
              spec_frags <n> -> fragment sizes, comma separated
              spec_open <hex> -> open type bits of the contents, zero padded to octets (X.691 wording)
              xopen <hex> -> the same by the model of uper_open_type_put
              spec_unused <n> -> unused-bits octet of an n-bit presence bitmap
              spec_nslength <n>, spec_nsnnwn <n> -> bits as a 0/1 string | NONE
   <std> is the switch of the base codec model (components); the framing of the extensions has one reading.
   For callers written before the repairs (checks/c05.py on branch c05x: `xoerdec 0|1 <ety> <hex>`) a leading <std>
   argument of xoerdec / spec_nslength / spec_nsnnwn is still accepted and ignored. *)
open Model
open Drvlib

exception Parse of string

let parse_num s pos : z option * int =
  let n = String.length s in
  if pos < n && s.[pos] = '*' then (None, pos + 1)
  else begin
    let j = ref pos in
    if !j < n && s.[!j] = '-' then incr j;
    while !j < n && s.[!j] >= '0' && s.[!j] <= '9' do incr j done;
    if !j = pos then raise (Parse ("number expected at " ^ string_of_int pos));
    (Some (cz_of_string (String.sub s pos (!j - pos))), !j)
  end

let num_req s pos = match parse_num s pos with
  | (Some z, p) -> (z, p)
  | (None, _) -> raise (Parse "number required")

let expect s pos c =
  if pos < String.length s && s.[pos] = c then pos + 1
  else raise (Parse (Printf.sprintf "expected %c at %d" c pos))

let parse_con s pos =
  let pos = expect s pos '[' in
  let (lo, pos) = parse_num s pos in
  let pos = expect s pos ',' in
  let (hi, pos) = parse_num s pos in
  let pos = expect s pos ',' in
  let (e, pos) = num_req s pos in
  let pos = expect s pos ']' in
  (lo, hi, (e <> Z0), pos)

let rec parse_ty s pos : ty * int =
  if pos >= String.length s then raise (Parse "type expected");
  match s.[pos] with
  | 'b' -> let (tg, p) = num_req s (pos + 1) in (TBool tg, p)
  | 'n' -> let (tg, p) = num_req s (pos + 1) in (TNull tg, p)
  | 'i' -> let (tg, p) = num_req s (pos + 1) in
           let (lo, hi, e, p) = parse_con s p in (TInt (tg, ICon (lo, hi, e)), p)
  | 'o' -> let (tg, p) = num_req s (pos + 1) in
           let (lo, hi, e, p) = parse_con s p in
           (TOct (tg, SCon ((match lo with Some l -> l | None -> Z0), hi, e)), p)
  | 's' -> let (tg, p) = num_req s (pos + 1) in
           let (ms, p) = parse_tys s (expect s p '{') in (TSeq (tg, ms), p)
  | 'q' | 't' as k ->
           let (tg, p) = num_req s (pos + 1) in
           let (lo, hi, e, p) = parse_con s p in
           let (el, p) = parse_ty s p in
           let sc = SCon ((match lo with Some l -> l | None -> Z0), hi, e) in
           ((if k = 'q' then TSeqOf (tg, sc, el) else TSetOf (tg, sc, el)), p)
  | 'c' -> let (alts, p) = parse_tys s (expect s (pos + 1) '{') in (TChoice alts, p)
  | 'x' -> let (tg, p) = num_req s (pos + 1) in
           let (t, p) = parse_ty s p in (TTag (tg, t), p)
  | '?' -> let (t, p) = parse_ty s (pos + 1) in (TOpt t, p)
  | c -> raise (Parse (Printf.sprintf "bad type char %c at %d" c pos))
and parse_tys s pos : ty list * int =
  if pos < String.length s && s.[pos] = '}' then ([], pos + 1)
  else let (t, p) = parse_ty s pos in
       let (ts, p) = parse_tys s p in (t :: ts, p)

let rec parse_val s pos : val0 * int =
  if pos >= String.length s then raise (Parse "value expected");
  match s.[pos] with
  | 'T' -> (VBool true, pos + 1)
  | 'F' -> (VBool false, pos + 1)
  | 'N' -> (VNull, pos + 1)
  | 'I' -> let (z, p) = num_req s (pos + 1) in (VInt z, expect s p ';')
  | 'O' -> let j = String.index_from s pos ';' in
           (VOct (bytes_of_hex (let h = String.sub s (pos + 1) (j - pos - 1) in if h = "" then "-" else h)), j + 1)
  | 'S' -> let (vs, p) = parse_vals s (expect s (pos + 1) '{') in (VSeq vs, p)
  | 'L' -> let (vs, p) = parse_vals s (expect s (pos + 1) '{') in (VList vs, p)
  | 'C' -> let (i, p) = num_req s (pos + 1) in
           let (v, p) = parse_val s (expect s p ':') in (VChoice (nat_of_int (int_of_cz i), v), p)
  | '_' -> (VNone, pos + 1)
  | '!' -> let (v, p) = parse_val s (pos + 1) in (VSome v, p)
  | c -> raise (Parse (Printf.sprintf "bad value char %c at %d" c pos))
and parse_vals s pos =
  if pos < String.length s && s.[pos] = '}' then ([], pos + 1)
  else let (v, p) = parse_val s pos in
       let (vs, p) = parse_vals s p in (v :: vs, p)

let rec show_val (v : val0) : string =
  match v with
  | VBool true -> "T" | VBool false -> "F" | VNull -> "N"
  | VInt z -> "I" ^ string_of_cz z ^ ";"
  | VOct bs -> "O" ^ (if bs = [] then "" else hex_of_bytes bs) ^ ";"
  | VSeq vs -> "S{" ^ String.concat "" (List.map show_val vs) ^ "}"
  | VList vs -> "L{" ^ String.concat "" (List.map show_val vs) ^ "}"
  | VChoice (i, v) -> "C" ^ string_of_int (int_of_nat i) ^ ":" ^ show_val v
  | VNone -> "_"
  | VSome v -> "!" ^ show_val v

let ty_of s = let (t, p) = parse_ty s 0 in
  if p <> String.length s then raise (Parse "trailing type text"); t
let val_of s = let (v, p) = parse_val s 0 in
  if p <> String.length s then raise (Parse "trailing value text"); v


let parse_ety s : ety =
  if String.length s = 0 then raise (Parse "ety expected");
  match s.[0] with
  | 'E' -> let (tg, p) = num_req s 1 in
           let (root, p) = parse_tys s (expect s p '{') in
           let (adds, p) = parse_tys s (expect s p '{') in
           if p <> String.length s then raise (Parse "trailing ety text");
           ESeq (tg, root, adds)
  | 'H' -> let (root, p) = parse_tys s (expect s 1 '{') in
           let (exts, p) = parse_tys s (expect s p '{') in
           if p <> String.length s then raise (Parse "trailing ety text");
           EChoice (root, exts)
  | c -> raise (Parse (Printf.sprintf "bad ety char %c" c))

let rec show_ty (t : ty) : string =
  let n = function Some z -> string_of_cz z | None -> "*" in
  let b e = if e then "1" else "0" in
  match t with
  | TBool tg -> "b" ^ string_of_cz tg
  | TNull tg -> "n" ^ string_of_cz tg
  | TInt (tg, ICon (lo, hi, e)) -> Printf.sprintf "i%s[%s,%s,%s]" (string_of_cz tg) (n lo) (n hi) (b e)
  | TOct (tg, SCon (lo, hi, e)) -> Printf.sprintf "o%s[%s,%s,%s]" (string_of_cz tg) (string_of_cz lo) (n hi) (b e)
  | TSeq (tg, ms) -> "s" ^ string_of_cz tg ^ "{" ^ String.concat "" (List.map show_ty ms) ^ "}"
  | TSeqOf (tg, SCon (lo, hi, e), el) -> Printf.sprintf "q%s[%s,%s,%s]%s" (string_of_cz tg) (string_of_cz lo) (n hi) (b e) (show_ty el)
  | TSetOf (tg, SCon (lo, hi, e), el) -> Printf.sprintf "t%s[%s,%s,%s]%s" (string_of_cz tg) (string_of_cz lo) (n hi) (b e) (show_ty el)
  | TChoice alts -> "c{" ^ String.concat "" (List.map show_ty alts) ^ "}"
  | TTag (tg, t) -> "x" ^ string_of_cz tg ^ show_ty t
  | TOpt t -> "?" ^ show_ty t

let show_ety = function
  | ESeq (tg, root, adds) -> "E" ^ string_of_cz tg ^ "{" ^ String.concat "" (List.map show_ty root) ^ "}{" ^ String.concat "" (List.map show_ty adds) ^ "}"
  | EChoice (root, exts) -> "H{" ^ String.concat "" (List.map show_ty root) ^ "}{" ^ String.concat "" (List.map show_ty exts) ^ "}"

let rec split_at n l = if n = 0 then ([], l) else match l with [] -> ([], []) | x :: tl -> let (a, b) = split_at (n - 1) tl in (x :: a, b)

let eval_of (t : ety) (s : string) : eval =
  match t, val_of s with
  | ESeq (_, root, _), VSeq vs -> let (a, b) = split_at (List.length root) vs in EVSeq (a, b)
  | EChoice _, VChoice (i, v) -> EVAlt (i, v)
  | _ -> raise (Parse "value does not fit the extensible type")

let show_eval = function
  | EVSeq (a, b) -> show_val (VSeq (a @ b))
  | EVAlt (i, v) -> show_val (VChoice (i, v))

let hex_opt = function Some bs -> hex_of_bytes bs | None -> "NONE"
let dec_s = function
  | Some (v, n) -> Printf.sprintf "OK %s %s" (string_of_cz n) (show_eval v)
  | None -> "FAIL"
let bits_s = function
  | Some bs -> if bs = [] then "-" else String.concat "" (List.map (fun b -> if b then "1" else "0") bs)
  | None -> "NONE"

let dispatch cmd args =
  match cmd, args with
  | "xder", [t; v] -> let t = parse_ety t in Some (hex_opt (ext_der t (eval_of t v)))
  | "xoer", [t; v] -> let t = parse_ety t in Some (hex_opt (ext_oer t (eval_of t v)))
  | "xuper", [std; t; v] -> let t = parse_ety t in Some (hex_opt (ext_uper_encode (std = "1") t (eval_of t v)))
  | "xberdec", [t; h] -> Some (dec_s (ext_ber_decode (parse_ety t) (bytes_of_hex h)))
  | "xuperdec", [std; t; h] -> Some (dec_s (ext_uper_decode (std = "1") (parse_ety t) (bytes_of_hex h)))
  | "xoerdec", [t; h] | "xoerdec", [_; t; h] -> Some (dec_s (ext_oer_decode (parse_ety t) (bytes_of_hex h)))
  | "xtruncv", [k; t; v] -> let t = parse_ety t in Some (show_eval (truncate_val (nat_of_int (int_of_string k)) (eval_of t v)))
  | "xtrunc", [k; t] -> Some (show_ety (truncate_ty (nat_of_int (int_of_string k)) (parse_ety t)))
  | "spec_frags", [n] -> let n = int_of_string n in
      Some (String.concat "," (List.map string_of_cz (fragments (nat_of_int (n + 1)) (cz_of_int n))))
  | "spec_open", [h] -> Some (hex_of_bytes (bits_to_bytes (open_type_spec (bytes_of_hex h))))
  | "xopen", [h] -> Some (hex_of_bytes (bits_to_bytes (open_type (bytes_of_hex h))))
  | "spec_unused", [n] -> Some (string_of_cz (unused_bits (cz_of_string n)))
  | "spec_nslength", [n] | "spec_nslength", [_; n] -> Some (bits_s (nslength (cz_of_string n)))
  | "spec_nsnnwn", [n] | "spec_nsnnwn", [_; n] -> Some (bits_s (nsnnwn (cz_of_string n)))
  | _ -> None
