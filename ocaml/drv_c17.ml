(* drv_c17.ml — OBJECT IDENTIFIER arcs and GeneralizedTime/UTCTime helpers
   (same protocol as harness/leafdrv_c17.inc) *)
open Model
open Drvlib

let zs l = String.concat " " (List.map string_of_cz l)
let czs args = List.map cz_of_string args

let setres_s = function
  | SetOk bs -> hex_of_bytes bs
  | SetEinval -> "EINVAL"
  | SetErange -> "ERANGE"
  | SetFail -> "FAIL"

let ores_s = function
  | OArcs l -> if l = [] then "OK" else "OK " ^ zs l
  | OFail -> "FAIL"
  | OFuel -> "FUEL"

let garc_s = function
  | GNone -> "NONE"
  | GOk (v, rd, _) -> Printf.sprintf "OK %s %s" (string_of_cz v) (string_of_cz rd)
  | GErange -> "ERANGE"
  | GEinval -> "EINVAL"

let pres_s = function
  | POk (l, e) ->
      Printf.sprintf "OK %d%s @%s" (List.length l) (if l = [] then "" else " " ^ zs l) (string_of_cz e)
  | PEinval e -> "EINVAL @" ^ string_of_cz e
  | PErange e -> "ERANGE @" ^ string_of_cz e
  | PFuel -> "FUEL"

let dispatch_oid cmd args =
  match cmd, args with
  | "oid_set", _ -> Some (setres_s (set_arcs (czs args)))
  | "reloid_set", _ -> Some (setres_s (reloid_set_arcs (czs args)))
  | "oid_get", [h] -> Some (ores_s (get_arcs (bytes_of_hex h)))
  | "reloid_get", [h] -> Some (ores_s (reloid_get_arcs (bytes_of_hex h)))
  | "oid_get1", [h] -> Some (garc_s (get_single_arc (bytes_of_hex h)))
  | "oid_set1", [len; v] ->
      Some (match set_single_arc (cz_of_string len) (cz_of_string v) with
            | Some bs -> hex_of_bytes bs
            | None -> "FAIL")
  | "oid_parse", [h] -> Some (pres_s (parse_arcs (bytes_of_hex h)))
  | _ -> None

let dispatch cmd args = dispatch_oid cmd args
