(* drv_c17.ml — OBJECT IDENTIFIER arcs and GeneralizedTime/UTCTime helpers
   (same protocol as harness/leafdrv_c17.inc) *)
open Model
open Drvlib

let zs l = String.concat " " (List.map string_of_cz l)
let czs args = List.map cz_of_string args

let setres_s = function
  | SetOk bs -> hex_of_bytes bs
  | SetEinval -> "EINVAL"
  | SetErange -> "ERANGE"
  | SetFail -> "FAIL"

let ores_s = function
  | OArcs l -> if l = [] then "OK" else "OK " ^ zs l
  | OFail -> "FAIL"
  | OFuel -> "FUEL"

let garc_s = function
  | GNone -> "NONE"
  | GOk (v, rd, _) -> Printf.sprintf "OK %s %s" (string_of_cz v) (string_of_cz rd)
  | GErange -> "ERANGE"
  | GEinval -> "EINVAL"

let pres_s = function
  | POk (l, e) ->
      Printf.sprintf "OK %d%s @%s" (List.length l) (if l = [] then "" else " " ^ zs l) (string_of_cz e)
  | PEinval e -> "EINVAL @" ^ string_of_cz e
  | PErange e -> "ERANGE @" ^ string_of_cz e
  | PFuel -> "FUEL"

let dispatch_oid cmd args =
  match cmd, args with
  | "oid_set", _ -> Some (setres_s (set_arcs (czs args)))
  | "reloid_set", _ -> Some (setres_s (reloid_set_arcs (czs args)))
  | "oid_get", [h] -> Some (ores_s (get_arcs (bytes_of_hex h)))
  | "reloid_get", [h] -> Some (ores_s (reloid_get_arcs (bytes_of_hex h)))
  | "oid_get1", [h] -> Some (garc_s (get_single_arc (bytes_of_hex h)))
  | "oid_set1", [len; v] ->
      Some (match set_single_arc (cz_of_string len) (cz_of_string v) with
            | Some bs -> hex_of_bytes bs
            | None -> "FAIL")
  | "oid_parse", [h] -> Some (pres_s (parse_arcs (bytes_of_hex h)))
  | _ -> None

(* ---- caller-supplied capacity: <slots> is a number or N (NULL, 0 slots) ---- *)
let nslots s = if s = "N" then 0 else int_of_string s
let blank_array n = List.init n (fun _ -> blank)
let cells arr = String.concat "" (List.map (fun c -> if c = blank then " _" else " " ^ string_of_cz c) arr)

let ires_s = function
  | IArcs (n, arr) -> Printf.sprintf "OK %d%s" (int_of_nat n) (cells arr)
  | IFail -> "FAIL"
  | IFuel -> "FUEL"

let qres_s = function
  | QOk (n, arr, e) -> Printf.sprintf "OK %d%s @%s" (int_of_nat n) (cells arr) (string_of_cz e)
  | QEinval e -> "EINVAL @" ^ string_of_cz e
  | QErange e -> "ERANGE @" ^ string_of_cz e
  | QFuel -> "FUEL"

let fres_s = function
  | FNone -> "NONE"
  | FOk (a0, a1, rd, _) -> Printf.sprintf "OK %s %s %s" (string_of_cz a0) (string_of_cz a1) (string_of_cz rd)
  | FErange -> "ERANGE"
  | FEinval -> "EINVAL"

(* the XER body decoders: parse_arcs, then set_arcs, read back with get_arcs *)
let xer_s rel h =
  match parse_arcs (bytes_of_hex h) with
  | POk (l, _) when l <> [] ->
      (match (if rel then reloid_set_arcs l else set_arcs l) with
       | SetOk bs -> ores_s (if rel then reloid_get_arcs bs else get_arcs bs)
       | _ -> "FAIL")
  | _ -> "FAIL"

(* up to the first NUL: what strlen() sees *)
let rec cut_nul = function
  | [] -> []
  | c :: tl -> if string_of_cz c = "0" then [] else c :: cut_nul tl

(* the XER body writers print the arcs in decimal with '.' between them (glue; the arcs
   come from the model) *)
let dump_s sep = function
  | OArcs l ->
      let t = String.concat sep (List.map string_of_cz l) in
      let hex = String.concat "" (List.map (fun c -> Printf.sprintf "%02x" (Char.code c)) (List.of_seq (String.to_seq t))) in
      Printf.sprintf "OK %d %s" (String.length t) (if t = "" then "-" else hex)
  | _ -> "FAIL"

let dispatch_slots cmd args =
  match cmd, args with
  | "oid_parse_z", [s; h] -> Some (qres_s (parse_arcs_arr (cut_nul (bytes_of_hex h)) (blank_array (nslots s))))
  | "oid_dump", [h] -> Some (dump_s "." (get_arcs (bytes_of_hex h)))
  | "reloid_dump", [h] -> Some (dump_s "." (reloid_get_arcs (bytes_of_hex h)))
  | "oid_set_re", _ :: arcs -> Some (setres_s (set_arcs (czs arcs)))
  | "reloid_set_re", _ :: arcs -> Some (setres_s (reloid_set_arcs (czs arcs)))
  | "oid_get_n", [s; h] -> Some (ires_s (get_arcs_arr (bytes_of_hex h) (blank_array (nslots s))))
  | "reloid_get_n", [s; h] -> Some (ires_s (reloid_get_arcs_arr (bytes_of_hex h) (blank_array (nslots s))))
  | "oid_parse_n", [s; h] -> Some (qres_s (parse_arcs_arr (bytes_of_hex h) (blank_array (nslots s))))
  | "oid_first", [h] -> Some (fres_s (get_first_arcs (bytes_of_hex h)))
  | "oid_xer", [h] -> Some (xer_s false h)
  | "reloid_xer", [h] -> Some (xer_s true h)
  | _ -> None

(* ---- time ---- *)
let gtres_s = function
  | GtOk (t, fv, fd) -> Printf.sprintf "OK %s %s %s" (string_of_cz t) (string_of_cz fv) (string_of_cz fd)
  | GtFail -> "FAIL"
  | GtOob -> "OOB"

let opt_hex = function Some bs -> hex_of_bytes bs | None -> "FAIL"
let flag s = s <> "0"

let tm_s x =
  Printf.sprintf "%s %s %s %s %s %s" (string_of_cz x.tm_year) (string_of_cz x.tm_mon) (string_of_cz x.tm_mday)
    (string_of_cz x.tm_hour) (string_of_cz x.tm_min) (string_of_cz x.tm_sec)

let dispatch_time cmd args =
  match cmd, args with
  | "gt_of_time", [t; fv; fd; force; _tz; off] ->
      Some (opt_hex (time2GT_frac (localtime (cz_of_string t) (cz_of_string off))
                       (cz_of_string fv) (cz_of_string fd) (flag force)))
  | "gt_of_time_opt", [t; fv; fd; force; _tz; off; _prev] ->
      Some (opt_hex (time2GT_frac (localtime (cz_of_string t) (cz_of_string off))
                       (cz_of_string fv) (cz_of_string fd) (flag force)))
  | "ut_of_time_opt", [t; force; _tz; off; _prev] ->
      Some (opt_hex (time2UT (localtime (cz_of_string t) (cz_of_string off)) (flag force)))
  | "ut_of_time", [t; force; _tz; off] ->
      Some (opt_hex (time2UT (localtime (cz_of_string t) (cz_of_string off)) (flag force)))
  | "time_of_gt", [h; _as_gmt; _tz; loff] ->
      Some (gtres_s (gT2time_frac (bytes_of_hex h) (cz_of_string loff)))
  | "time_of_gt0", [h; _as_gmt; _tz; loff] ->
      Some (gtres_s (gT2time (bytes_of_hex h) (cz_of_string loff)))
  | "time_of_gt_prec", [h; fd; _tz; loff] ->
      Some (gtres_s (gT2time_prec (bytes_of_hex h) (cz_of_string fd) (cz_of_string loff)))
  | "time_of_ut", [h; _as_gmt; _tz; loff] ->
      Some (gtres_s (uT2time (bytes_of_hex h) (cz_of_string loff)))
  (* the modelled libc itself *)
  | "gmtime", [t] -> Some (tm_s (gmtime (cz_of_string t)))
  | "timegm", [y; mo; d; h; mi; s] ->
      let x = { tm_sec = cz_of_string s; tm_min = cz_of_string mi; tm_hour = cz_of_string h;
                tm_mday = cz_of_string d; tm_mon = cz_of_string mo; tm_year = cz_of_string y;
                tm_gmtoff = Z0 } in
      let (t, n) = timegm x in
      Some (string_of_cz t ^ " " ^ tm_s n)
  | _ -> None

let dispatch cmd args =
  match dispatch_oid cmd args with
  | Some r -> Some r
  | None ->
      match dispatch_slots cmd args with
      | Some r -> Some r
      | None -> dispatch_time cmd args
