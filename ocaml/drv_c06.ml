(* drv_c06.ml — C06 front end.
     intcmp <hex contents a> <hex contents b>  ->  -1 | 0 | 1   (model of INTEGER_compare, coq/Rt/CanonicalCompare.v;
                                                                 what moddrv's `cmp` prints)
   DEFAULT components of an extensible SEQUENCE (coq/Rt/CanonicalDefault.v over coq/Rt/Ext.v); component types and values
   in the syntax of drv_rt.ml (the parser below is a copy: every area is linked against its own extracted Model_<area>):
     ety  := E<tg>{ty*}{ty*}          root members, additions
     dfl  := {(val|_)*}               one entry per root member / per addition: its DEFAULT or _
     val of an E type: S{val*}        root members then one _ / !val per addition
     dder|doer <dfl root> <dfl adds> <ety> <val>   -> hex | NONE       duper <std 0|1> <dfl root> <dfl adds> <ety> <val>
     doer_storedbit ... / duper_countonly <std> ...   the variants that ask default_value_cmp at some places only
   Fragment loop with a parameter (coq/Rt/CanonicalFrag.v); members as 0/1 strings separated by commas (- = no member):
     fragwhole|frageach <K> <members>  -> bits as a 0/1 string *)
open Model
open Drvlib

exception Parse of string

let parse_num s pos : z option * int =
  let n = String.length s in
  if pos < n && s.[pos] = '*' then (None, pos + 1)
  else begin
    let j = ref pos in
    if !j < n && s.[!j] = '-' then incr j;
    while !j < n && s.[!j] >= '0' && s.[!j] <= '9' do incr j done;
    if !j = pos then raise (Parse ("number expected at " ^ string_of_int pos));
    (Some (cz_of_string (String.sub s pos (!j - pos))), !j)
  end

let num_req s pos = match parse_num s pos with
  | (Some z, p) -> (z, p)
  | (None, _) -> raise (Parse "number required")

let expect s pos c =
  if pos < String.length s && s.[pos] = c then pos + 1
  else raise (Parse (Printf.sprintf "expected %c at %d" c pos))

let parse_con s pos =
  let pos = expect s pos '[' in
  let (lo, pos) = parse_num s pos in
  let pos = expect s pos ',' in
  let (hi, pos) = parse_num s pos in
  let pos = expect s pos ',' in
  let (e, pos) = num_req s pos in
  let pos = expect s pos ']' in
  (lo, hi, (e <> Z0), pos)

let rec parse_ty s pos : ty * int =
  if pos >= String.length s then raise (Parse "type expected");
  match s.[pos] with
  | 'b' -> let (tg, p) = num_req s (pos + 1) in (TBool tg, p)
  | 'n' -> let (tg, p) = num_req s (pos + 1) in (TNull tg, p)
  | 'i' -> let (tg, p) = num_req s (pos + 1) in
           let (lo, hi, e, p) = parse_con s p in (TInt (tg, ICon (lo, hi, e)), p)
  | 'o' -> let (tg, p) = num_req s (pos + 1) in
           let (lo, hi, e, p) = parse_con s p in
           (TOct (tg, SCon ((match lo with Some l -> l | None -> Z0), hi, e)), p)
  | 's' -> let (tg, p) = num_req s (pos + 1) in
           let (ms, p) = parse_tys s (expect s p '{') in (TSeq (tg, ms), p)
  | 'q' | 't' as k ->
           let (tg, p) = num_req s (pos + 1) in
           let (lo, hi, e, p) = parse_con s p in
           let (el, p) = parse_ty s p in
           let sc = SCon ((match lo with Some l -> l | None -> Z0), hi, e) in
           ((if k = 'q' then TSeqOf (tg, sc, el) else TSetOf (tg, sc, el)), p)
  | 'c' -> let (alts, p) = parse_tys s (expect s (pos + 1) '{') in (TChoice alts, p)
  | 'x' -> let (tg, p) = num_req s (pos + 1) in
           let (t, p) = parse_ty s p in (TTag (tg, t), p)
  | '?' -> let (t, p) = parse_ty s (pos + 1) in (TOpt t, p)
  | c -> raise (Parse (Printf.sprintf "bad type char %c at %d" c pos))
and parse_tys s pos : ty list * int =
  if pos < String.length s && s.[pos] = '}' then ([], pos + 1)
  else let (t, p) = parse_ty s pos in
       let (ts, p) = parse_tys s p in (t :: ts, p)

let rec parse_val s pos : val0 * int =
  if pos >= String.length s then raise (Parse "value expected");
  match s.[pos] with
  | 'T' -> (VBool true, pos + 1)
  | 'F' -> (VBool false, pos + 1)
  | 'N' -> (VNull, pos + 1)
  | 'I' -> let (z, p) = num_req s (pos + 1) in (VInt z, expect s p ';')
  | 'O' -> let j = String.index_from s pos ';' in
           (VOct (bytes_of_hex (let h = String.sub s (pos + 1) (j - pos - 1) in if h = "" then "-" else h)), j + 1)
  | 'S' -> let (vs, p) = parse_vals s (expect s (pos + 1) '{') in (VSeq vs, p)
  | 'L' -> let (vs, p) = parse_vals s (expect s (pos + 1) '{') in (VList vs, p)
  | 'C' -> let (i, p) = num_req s (pos + 1) in
           let (v, p) = parse_val s (expect s p ':') in (VChoice (nat_of_int (int_of_cz i), v), p)
  | '_' -> (VNone, pos + 1)
  | '!' -> let (v, p) = parse_val s (pos + 1) in (VSome v, p)
  | c -> raise (Parse (Printf.sprintf "bad value char %c at %d" c pos))
and parse_vals s pos =
  if pos < String.length s && s.[pos] = '}' then ([], pos + 1)
  else let (v, p) = parse_val s pos in
       let (vs, p) = parse_vals s p in (v :: vs, p)

let rec show_val (v : val0) : string =
  match v with
  | VBool true -> "T" | VBool false -> "F" | VNull -> "N"
  | VInt z -> "I" ^ string_of_cz z ^ ";"
  | VOct bs -> "O" ^ (if bs = [] then "" else hex_of_bytes bs) ^ ";"
  | VSeq vs -> "S{" ^ String.concat "" (List.map show_val vs) ^ "}"
  | VList vs -> "L{" ^ String.concat "" (List.map show_val vs) ^ "}"
  | VChoice (i, v) -> "C" ^ string_of_int (int_of_nat i) ^ ":" ^ show_val v
  | VNone -> "_"
  | VSome v -> "!" ^ show_val v

let ty_of s = let (t, p) = parse_ty s 0 in
  if p <> String.length s then raise (Parse "trailing type text"); t
let val_of s = let (v, p) = parse_val s 0 in
  if p <> String.length s then raise (Parse "trailing value text"); v


let hex_opt = function Some bs -> hex_of_bytes bs | None -> "NONE"

let parse_ety s : ety * int =
  if String.length s = 0 || s.[0] <> 'E' then raise (Parse "E expected");
  let (tg, p) = num_req s 1 in
  let (root, p) = parse_tys s (expect s p '{') in
  let (adds, p) = parse_tys s (expect s p '{') in
  if p <> String.length s then raise (Parse "trailing type text");
  (ESeq (tg, root, adds), List.length root)

let dfl_of s : val0 option list =
  let (vs, p) = parse_vals s (expect s 0 '{') in
  if p <> String.length s then raise (Parse "trailing default text");
  List.map (function VNone -> None | v -> Some v) vs

let eval_of nroot s =
  match val_of s with
  | VSeq vs ->
      let rec split n l = if n = 0 then ([], l) else match l with x :: r -> let (a, b) = split (n - 1) r in (x :: a, b) | [] -> ([], []) in
      let (r, a) = split nroot vs in EVSeq (r, a)
  | _ -> raise (Parse "S{..} expected")

let bits_of s = if s = "-" then [] else List.init (String.length s) (fun i -> s.[i] = '1')
let members_of s = if s = "-" then [] else List.map bits_of (String.split_on_char ',' s)
let show_bits bs = if bs = [] then "-" else String.concat "" (List.map (fun b -> if b then "1" else "0") bs)

let dispatch cmd args =
  match cmd, args with
  | "intcmp", [a; b] ->
      Some (match int_compare (bytes_of_hex a) (bytes_of_hex b) with Lt -> "-1" | Eq -> "0" | Gt -> "1")
  | ("dder" | "doer" | "doer_storedbit"), [dr; da; t; v] ->
      let (et, nroot) = parse_ety t in
      let f = (match cmd with "dder" -> dfl_der | "doer" -> dfl_oer | _ -> dfl_oer_stored_bit) in
      Some (hex_opt (f (dfl_of dr) (dfl_of da) et (eval_of nroot v)))
  | ("duper" | "duper_countonly"), [std; dr; da; t; v] ->
      let (et, nroot) = parse_ety t in
      let f = (if cmd = "duper" then dfl_uper else dfl_uper_count_only) in
      Some (hex_opt (f (std = "1") (dfl_of dr) (dfl_of da) et (eval_of nroot v)))
  | ("gtcanon" | "utcanon" | "gtcanonfast"), [h; lg] ->
      let f = (match cmd with "gtcanon" -> gt_canon | "utcanon" -> ut_canon | _ -> gt_canon_fast) in
      Some (match f (bytes_of_hex h) (cz_of_string lg) with Some bs -> hex_of_bytes bs | None -> "FAIL")
  | "utder", [h; lg] -> Some (hex_of_bytes (ut_der (bytes_of_hex h) (cz_of_string lg)))
  | ("gtfraccmp" | "gtfraccmpfix"), [av; ad; bv; bd] ->
      let f = (if cmd = "gtfraccmp" then frac_cmp_c else frac_cmp_fix) in
      Some (match f (cz_of_string av) (cz_of_string ad) (cz_of_string bv) (cz_of_string bd) with Lt -> "-1" | Eq -> "0" | Gt -> "1")
  | ("fragwhole" | "frageach"), [k; ms] ->
      let f = (if cmd = "fragwhole" then frag_whole else frag_each) in
      Some (show_bits (f (cz_of_string k) (members_of ms)))
  | _ -> None
