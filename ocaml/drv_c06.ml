(* drv_c06.ml — C06 front end: the model of INTEGER_compare (coq/Rt/CanonicalCompare.v)
     intcmp <hex contents a> <hex contents b>  ->  -1 | 0 | 1   (what moddrv's `cmp` prints) *)
open Model
open Drvlib

let dispatch cmd args =
  match cmd, args with
  | "intcmp", [a; b] ->
      Some (match int_compare (bytes_of_hex a) (bytes_of_hex b) with Lt -> "-1" | Eq -> "0" | Gt -> "1")
  | _ -> None
