(* drv_c08a.ml — front end of coq/Rt/Alphabet.v (C08, permitted alphabets).
     alpha := lo:hi(,lo:hi)*            the canonical alphabet: intervals of codes, in order
     k     := 1 | 2 | 4 | u             code unit of the string type (uint8, BMPString, UniversalString, UTF8String octets)
     gs    := 0 | 1                     the type also has a SIZE constraint the checker tests
     units := num(,num)* | -            code units of the string
   commands:
     c08atab <k> <gs> <alpha>  -> TABLE size=<declared cells> cells=<c,...> card=<declared code2value length> c2v=<c,...|->
                                | RANGE <cmp(|cmp)* | ->       cmp := le:v | ge:v | eq:v | bt:lo:hi
                                | UTF8LEN | NONE                                  (what asn1c emits for this alphabet)
     c08achk <k> <gs> <alpha> <units>  -> true | false          (check_permitted_alphabet_N(st) == 0)
     spec_c08asat <alpha> <units>      -> true | false          (every unit is in the alphabet)
     c08awf <alpha>                    -> true | false          (canonical: sorted, disjoint, non-empty intervals)
     c08arank <alpha> <c>              -> number of members <= c *)
open Model
open Drvlib

exception Parse of string

let nums sep s = if s = "-" || s = "" then [] else List.map cz_of_string (String.split_on_char sep s)

let alpha_of s =
  List.map (fun r -> match String.split_on_char ':' r with
                     | [a; b] -> (cz_of_string a, cz_of_string b)
                     | _ -> raise (Parse ("bad interval " ^ r)))
    (String.split_on_char ',' s)

let kind_of = function
  | "1" -> K1 | "2" -> K2 | "4" -> K4 | "u" -> KU
  | s -> raise (Parse ("bad kind " ^ s))

let list_s l = if l = [] then "-" else String.concat "," (List.map string_of_cz l)

let cmp_s = function
  | CLe v -> "le:" ^ string_of_cz v
  | CGe v -> "ge:" ^ string_of_cz v
  | CEq v -> "eq:" ^ string_of_cz v
  | CBetween (a, b) -> "bt:" ^ string_of_cz a ^ ":" ^ string_of_cz b

let dispatch cmd args =
  match cmd, args with
  | "c08atab", [k; gs; a] ->
      let k = kind_of k and a = alpha_of a in
      Some (match alpha_mode k (gs = "1") a with
            | ATable cells ->
                let size = max_table_size k in
                Printf.sprintf "TABLE size=%s cells=%s card=%s c2v=%s" (string_of_cz size) (list_s cells)
                  (string_of_cz (cardinal cells)) (list_s (code2value a size))
            | ARange txt -> "RANGE " ^ (if txt = [] then "-" else String.concat "|" (List.map cmp_s txt))
            | AUtf8Len -> "UTF8LEN"
            | ANone -> "NONE")
  | "c08achk", [k; gs; a; u] -> Some (bool_s (alpha_check (kind_of k) (gs = "1") (alpha_of a) (nums ',' u)))
  | "spec_c08asat", [a; u] -> Some (bool_s (alpha_sat (alpha_of a) (nums ',' u)))
  | "c08awf", [a] -> Some (bool_s (wf_alphab (alpha_of a)))
  | "c08arank", [a; c] -> Some (string_of_cz (rank (alpha_of a) (cz_of_string c)))
  | _ -> None
