(* drv_c05.ml — C05 front end: the reference BER decoder with More/Fail and the
   restartable machines of coq/Rt/Resume.v driven by the feeding discipline [feed0].
     berdec3   <ty> <hex>                 -> OK <consumed> <val> | MORE | FAIL
     primfeed  <tag> <hex> <c1,c2,..|k*>  -> <RC> <total consumed> <contents hex | ->
     chainfeed <t1,t2,..> <hex> <c1,..|k*> -> <RC> <total consumed> step=<n> left=<z> context=<z>
                                              (ctx->step, ctx->left, ctx->context of the C after the last call)
     chainfeedm <key 0 step|1 tagno> <tag_mode> <last_tag_form> <t1,t2,..|-> <hex> <c1,..|k*>
                                          -> the same line for Rt/ResumeT.v chainm_step (ber_check_tags with tag_mode / last_tag_form)
     primfeedm <tag_mode> <t1,t2,..> <hex> <c1,..|k*> -> <RC> <total consumed> <contents hex | ->   (ResumeT.primm_step)
     entfeed   <hex> <c1,..|k*>           -> <RC> <total consumed> <string decoded so far, hex>     (Rt/ResumeX.v entref_step)
     entpfx    <hex>                      -> the first call on every prefix of 0..n octets: <M|O|F><consumed>,...
     skipfeed  <full 0|1> <hex> <c1,..|k*> -> <RC> <total consumed>                                  (skip_step)
     skipsfeed <full> <bits 01..> <hex> <c1,..|k*> -> <RC> <total consumed> <unread bits | ->        (skips_step)
     skipspfx  <full> <bits> <hex>        -> the first call on every prefix: <M|O|F><consumed>,...
   Type syntax as in drv_rt.ml (the parser below is a copy: each area has its own
   extracted copy of the type algebra). *)
open Model
open Drvlib

exception Parse of string

let parse_num s pos : z option * int =
  let n = String.length s in
  if pos < n && s.[pos] = '*' then (None, pos + 1)
  else begin
    let j = ref pos in
    if !j < n && s.[!j] = '-' then incr j;
    while !j < n && s.[!j] >= '0' && s.[!j] <= '9' do incr j done;
    if !j = pos then raise (Parse ("number expected at " ^ string_of_int pos));
    (Some (cz_of_string (String.sub s pos (!j - pos))), !j)
  end

let num_req s pos = match parse_num s pos with
  | (Some z, p) -> (z, p)
  | (None, _) -> raise (Parse "number required")

let expect s pos c =
  if pos < String.length s && s.[pos] = c then pos + 1
  else raise (Parse (Printf.sprintf "expected %c at %d" c pos))

let parse_con s pos =
  let pos = expect s pos '[' in
  let (lo, pos) = parse_num s pos in
  let pos = expect s pos ',' in
  let (hi, pos) = parse_num s pos in
  let pos = expect s pos ',' in
  let (e, pos) = num_req s pos in
  let pos = expect s pos ']' in
  (lo, hi, (e <> Z0), pos)

let rec parse_ty s pos : ty * int =
  if pos >= String.length s then raise (Parse "type expected");
  match s.[pos] with
  | 'b' -> let (tg, p) = num_req s (pos + 1) in (TBool tg, p)
  | 'n' -> let (tg, p) = num_req s (pos + 1) in (TNull tg, p)
  | 'i' -> let (tg, p) = num_req s (pos + 1) in
           let (lo, hi, e, p) = parse_con s p in (TInt (tg, ICon (lo, hi, e)), p)
  | 'o' -> let (tg, p) = num_req s (pos + 1) in
           let (lo, hi, e, p) = parse_con s p in
           (TOct (tg, SCon ((match lo with Some l -> l | None -> Z0), hi, e)), p)
  | 's' -> let (tg, p) = num_req s (pos + 1) in
           let (ms, p) = parse_tys s (expect s p '{') in (TSeq (tg, ms), p)
  | 'q' | 't' as k ->
           let (tg, p) = num_req s (pos + 1) in
           let (lo, hi, e, p) = parse_con s p in
           let (el, p) = parse_ty s p in
           let sc = SCon ((match lo with Some l -> l | None -> Z0), hi, e) in
           ((if k = 'q' then TSeqOf (tg, sc, el) else TSetOf (tg, sc, el)), p)
  | 'c' -> let (alts, p) = parse_tys s (expect s (pos + 1) '{') in (TChoice alts, p)
  | 'x' -> let (tg, p) = num_req s (pos + 1) in
           let (t, p) = parse_ty s p in (TTag (tg, t), p)
  | '?' -> let (t, p) = parse_ty s (pos + 1) in (TOpt t, p)
  | c -> raise (Parse (Printf.sprintf "bad type char %c at %d" c pos))
and parse_tys s pos : ty list * int =
  if pos < String.length s && s.[pos] = '}' then ([], pos + 1)
  else let (t, p) = parse_ty s pos in
       let (ts, p) = parse_tys s p in (t :: ts, p)

let rec show_val (v : val0) : string =
  match v with
  | VBool true -> "T" | VBool false -> "F" | VNull -> "N"
  | VInt z -> "I" ^ string_of_cz z ^ ";"
  | VOct bs -> "O" ^ (if bs = [] then "" else hex_of_bytes bs) ^ ";"
  | VSeq vs -> "S{" ^ String.concat "" (List.map show_val vs) ^ "}"
  | VList vs -> "L{" ^ String.concat "" (List.map show_val vs) ^ "}"
  | VChoice (i, v) -> "C" ^ string_of_int (int_of_nat i) ^ ":" ^ show_val v
  | VNone -> "_"
  | VSome v -> "!" ^ show_val v

let ty_of s = let (t, p) = parse_ty s 0 in
  if p <> String.length s then raise (Parse "trailing type text"); t

let code_s = function OK -> "OK" | MORE -> "MORE" | FAIL -> "FAIL"

(* chunk schedule: "3,1,0,7" (the rest at once) or "k*" (k bytes at a time) *)
let rec take n l = if n <= 0 then [] else match l with [] -> [] | x :: r -> x :: take (n - 1) r
let rec drop n l = if n <= 0 then l else match l with [] -> [] | _ :: r -> drop (n - 1) r
let chunks_of (bs : z list) (sched : string) : z list list =
  let n = String.length sched in
  if n > 0 && sched.[n - 1] = '*' then begin
    let k = max 1 (int_of_string (String.sub sched 0 (n - 1))) in
    let rec go l = if l = [] then [] else take k l :: go (drop k l) in
    match go bs with [] -> [[]] | c -> c
  end else begin
    let sizes = List.map int_of_string (String.split_on_char ',' sched) in
    let rec go l = function
      | [] -> if l = [] then [] else [l]
      | s :: r -> let c = take s l in c :: go (drop s l) r in
    match go bs sizes with [] -> [[]] | c -> c
  end

let dispatch cmd args =
  match cmd, args with
  | "berdec3", [t; h] ->
      let ((c, n), v) = ber_decode3 (ty_of t) (bytes_of_hex h) in
      Some (match c, v with
            | OK, Some v -> Printf.sprintf "OK %s %s" (string_of_cz n) (show_val v)
            | c, _ -> code_s c)
  | "primfeed", [tg; h; sched] ->
      let ((c, n), ctx) = feed0 (prim_step (cz_of_string tg)) None (chunks_of (bytes_of_hex h) sched) in
      Some (Printf.sprintf "%s %d %s" (code_s c) (int_of_nat n)
              (match c, ctx with OK, Some bs -> hex_of_bytes bs | _ -> "-"))
  | "chainfeed", [tags; h; sched] ->
      let tl = List.map cz_of_string (String.split_on_char ',' tags) in
      let ((c, n), ctx) = feed0 (chain_step tl) chain_ctx0 (chunks_of (bytes_of_hex h) sched) in
      Some (Printf.sprintf "%s %d step=%d left=%s context=%s" (code_s c) (int_of_nat n) (int_of_nat ctx.cstep)
              (string_of_cz ctx.cleft) (string_of_cz ctx.cctx))
  | "chainfeedm", [key; mode; ltf; tags; h; sched] ->
      let tl = if tags = "-" then [] else List.map cz_of_string (String.split_on_char ',' tags) in
      let k = if key = "1" then KTagno else KStep in
      let ((c, n), ctx) = feed0 (chainm_step k (cz_of_string mode) (cz_of_string ltf) tl) chain_ctx0 (chunks_of (bytes_of_hex h) sched) in
      Some (Printf.sprintf "%s %d step=%d left=%s context=%s" (code_s c) (int_of_nat n) (int_of_nat ctx.cstep)
              (string_of_cz ctx.cleft) (string_of_cz ctx.cctx))
  | "primfeedm", [mode; tags; h; sched] ->
      let tl = if tags = "-" then [] else List.map cz_of_string (String.split_on_char ',' tags) in
      let ((c, n), ctx) = feed0 (primm_step (cz_of_string mode) tl) None (chunks_of (bytes_of_hex h) sched) in
      Some (Printf.sprintf "%s %d %s" (code_s c) (int_of_nat n)
              (match c, ctx with OK, Some [] -> "-" | OK, Some bs -> hex_of_bytes bs | _ -> "-"))
  | "entfeed", [h; sched] ->
      let ((c, n), acc) = feed0 entref_step [] (chunks_of (bytes_of_hex h) sched) in
      Some (Printf.sprintf "%s %d %s" (code_s c) (int_of_nat n) (if acc = [] then "-" else hex_of_bytes acc))
  | "entpfx", [h] ->
      let bs = bytes_of_hex h in
      let n = List.length bs in
      let one j = let ((c, k), _) = entref_step [] (take j bs) in Printf.sprintf "%c%d" (code_s c).[0] (int_of_nat k) in
      Some (String.concat "," (List.init (n + 1) one))
  | "skipfeed", [full; h; sched] ->
      let ((c, n), _) = feed0 (skip_step (full = "1")) () (chunks_of (bytes_of_hex h) sched) in
      Some (Printf.sprintf "%s %d" (code_s c) (int_of_nat n))
  | "skipsfeed", [full; bits; h; sched] ->
      let bl = List.init (String.length bits) (fun i -> bits.[i] = '1') in
      let ((c, n), left) = feed0 (skips_step (full = "1")) bl (chunks_of (bytes_of_hex h) sched) in
      Some (Printf.sprintf "%s %d %s" (code_s c) (int_of_nat n)
              (if left = [] then "-" else String.concat "" (List.map (fun b -> if b then "1" else "0") left)))
  | "skipspfx", [full; bits; h] ->
      let bl = List.init (String.length bits) (fun i -> bits.[i] = '1') in
      let bs = bytes_of_hex h in
      let n = List.length bs in
      let one j = let ((c, k), _) = skips_step (full = "1") bl (take j bs) in Printf.sprintf "%c%d" (code_s c).[0] (int_of_nat k) in
      Some (String.concat "," (List.init (n + 1) one))
  | _ -> None
