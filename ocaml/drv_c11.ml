(* drv_c11.ml — front end of the extracted C11 model/spec.
   Command:  c11 <module tokens>
   Module tokens (prefix form, produced by checks/c11.py):
     module := tagging(E|I|A) ndefs def*
     def    := name tag ty
     tag    := "-" | class(u|a|c|p) number mode(d|i|e)   e.g. c5i
     ty     := B | I | N | O | E n (name val|-)* | (S|T|C) n comp* x comp-list n comp* | Q ty | R name
               where x = "-" (no extension marker) or the number of additions
     comp   := name tag flag(m|o|d) ty
   Result line:
     model=<ACCEPT|CRASH|REJECT:r1,r2..> fix=<OK|CRASH|r1,..> spec=<OK|c1,c2..> wf=<0|1> tagref=<0|1> choiceref=<0|1> enummixed=<0|1> *)
open Model
open Drvlib

exception Bad of string

let parse_tag (s : string) : mtag option =
  if s = "-" then None
  else begin
    let n = String.length s in
    let cls = match s.[0] with
      | 'u' -> CUniversal | 'a' -> CApplication | 'c' -> CContext | 'p' -> CPrivate
      | _ -> raise (Bad ("tag class " ^ s)) in
    let md = match s.[n - 1] with
      | 'd' -> MDefault | 'i' -> MImplicit | 'e' -> MExplicit | _ -> raise (Bad ("tag mode " ^ s)) in
    Some { tg_class = cls; tg_num = cz_of_string (String.sub s 1 (n - 2)); tg_mode = md }
  end

let nat_s s = nat_of_int (int_of_string s)

let rec parse_ty (toks : string list) : ty * string list =
  match toks with
  | "B" :: r -> (TPrim PBool, r)
  | "I" :: r -> (TPrim PInteger, r)
  | "N" :: r -> (TPrim PNull, r)
  | "O" :: r -> (TPrim POctets, r)
  | "E" :: n :: r ->
      let rec items k r acc =
        if k = 0 then (List.rev acc, r)
        else match r with
          | name :: v :: r' ->
              let v' = if v = "-" then None else Some (cz_of_string v) in
              items (k - 1) r' ((nat_s name, v') :: acc)
          | _ -> raise (Bad "enum items") in
      let (its, r') = items (int_of_string n) r [] in
      (TEnum its, r')
  | ("S" | "T" | "C" as k) :: n :: r ->
      let kind = (match k with "S" -> KSeq | "T" -> KSet | _ -> KChoice) in
      let (r1, r) = parse_comps (int_of_string n) r in
      (match r with
       | x :: r ->
           let (ext, r) =
             if x = "-" then (None, r)
             else let (a, r) = parse_comps (int_of_string x) r in (Some a, r) in
           (match r with
            | n2 :: r ->
                let (r2, r) = parse_comps (int_of_string n2) r in
                (TCons (kind, r1, ext, r2), r)
            | _ -> raise (Bad "r2"))
       | _ -> raise (Bad "ext"))
  | "Q" :: r -> let (e, r') = parse_ty r in (TSeqOf e, r')
  | "R" :: name :: r -> (TRef (nat_s name), r)
  | t :: _ -> raise (Bad ("type " ^ t))
  | [] -> raise (Bad "eof")

and parse_comps (k : int) (toks : string list) : (cinfo * ty) list * string list =
  if k = 0 then ([], toks)
  else match toks with
    | name :: tag :: fl :: r ->
        let f = (match fl with "m" -> FMandatory | "o" -> FOptional | "d" -> FDefault | _ -> raise (Bad "flag")) in
        let (t, r) = parse_ty r in
        let (rest, r) = parse_comps (k - 1) r in
        (({ c_name = nat_s name; c_tag = parse_tag tag; c_flag = f }, t) :: rest, r)
    | _ -> raise (Bad "comp")

let parse_module (toks : string list) : module0 =
  match toks with
  | tg :: n :: r ->
      let tagging = (match tg with "E" -> TgExplicit | "I" -> TgImplicit | "A" -> TgAutomatic | _ -> raise (Bad "tagging")) in
      let rec defs k r acc =
        if k = 0 then (if r = [] then List.rev acc else raise (Bad "trailing tokens"))
        else match r with
          | name :: tag :: r ->
              let (t, r) = parse_ty r in
              defs (k - 1) r ({ d_name = nat_s name; d_tag = parse_tag tag; d_ty = t } :: acc)
          | _ -> raise (Bad "def") in
      { m_tagging = tagging; m_defs = defs (int_of_string n) r [] }
  | _ -> raise (Bad "module")

let reason_s = function
  | RDupType -> "duptype" | RDupIdent -> "dupident" | REnumName -> "enumname" | REnumValue -> "enumvalue"
  | RUndefRef -> "undefref" | RImplicit -> "implicit" | RExtTag -> "exttag" | RTagClash -> "tagclash"

let clause_s = function
  | ClTags -> "tags" | ClIdent -> "ident" | ClEnumName -> "enumname" | ClEnumValue -> "enumvalue" | ClRef -> "ref"

let uniq_sorted l = List.sort_uniq compare l
let b01 b = if b then "1" else "0"

let dispatch cmd args =
  match cmd with
  | "c11" ->
      let m = parse_module args in
      let rs l = String.concat "," (uniq_sorted (List.map reason_s l)) in
      let model = (match check m with
        | Accept -> "ACCEPT" | Crashes -> "CRASH" | Reject l -> "REJECT:" ^ rs l) in
      let fix = (match fix_module m with
        | NCrash -> "CRASH" | NOk [] -> "OK" | NOk l -> rs l) in
      let spec = (match spec_bad m with
        | [] -> "OK" | l -> String.concat "," (uniq_sorted (List.map clause_s l))) in
      Some (Printf.sprintf "model=%s fix=%s spec=%s wf=%s tagref=%s choiceref=%s enummixed=%s cends=%s"
              model fix spec (b01 (tagging_wfb m)) (b01 (has_tagref m)) (b01 (has_choiceref m))
              (b01 (enum_mixed m)) (b01 (compile_ends m)))
  | _ -> None
