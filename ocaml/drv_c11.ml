(* drv_c11.ml — front end of the extracted C11 model/spec.
   Command:  c11 <module tokens>
   Module tokens (prefix form, produced by checks/c11.py):
     module := tagging(E|I|A) ndefs def*
     def    := name tag ty
     tag    := "-" | class(u|a|c|p) number mode(d|i|e)   e.g. c5i
     ty     := B | I | N | O | E n (name val|-)* | X n (name val|-)* n (name val|-)*
             | (S|T|C) n comp* x comp-list n comp* | Q ty | R name
               where x = "-" (no extension marker) or the number of additions;
               X = ENUMERATED { root, ..., additions }
     comp   := name tag flag(m|o|d) ty | K name          (K = COMPONENTS OF T<name>)
   The tokens are parsed into the surface syntax of Fix/ComponentsOf.v; the model
   is [xcheck] (= [check] after asn1c's expansion), the spec is evaluated on
   X.680's expansion.
   Result line:
     model=<ACCEPT|CRASH|OUTSIDE|REJECT:r1,r2..> fix=<OK|CRASH|NA|r1,..> spec=<OK|NA|c1,c2..> wf=<0|1>
     tagref= choiceref= enummixed= cends=   (as before, on the expanded module)
     cof=<none|ok|dangling|kind>  worst status of the COMPONENTS OF references (X.680 view)
     cofdup=<0|1>  asn1c's expansion differs from X.680's by the identifiers it does not compare
     cofext=<0|1>  ... by the extension markers/additions the clone drops in nested types
     enumneg=<0|1> an extensible enumeration in X.680's order that asn1c's order check refuses
     specc=<OK|NA|c1,..>  the spec's clauses evaluated on asn1c's expansion instead of X.680's (only used to
                   tell which recorded finding explains a deviation) *)
open Model
open Drvlib

exception Bad of string

let parse_tag (s : string) : mtag option =
  if s = "-" then None
  else begin
    let n = String.length s in
    let cls = match s.[0] with
      | 'u' -> CUniversal | 'a' -> CApplication | 'c' -> CContext | 'p' -> CPrivate
      | _ -> raise (Bad ("tag class " ^ s)) in
    let md = match s.[n - 1] with
      | 'd' -> MDefault | 'i' -> MImplicit | 'e' -> MExplicit | _ -> raise (Bad ("tag mode " ^ s)) in
    Some { tg_class = cls; tg_num = cz_of_string (String.sub s 1 (n - 2)); tg_mode = md }
  end

let nat_s s = nat_of_int (int_of_string s)

let rec parse_items k r acc =
  if k = 0 then (List.rev acc, r)
  else match r with
    | name :: v :: r' ->
        let v' = if v = "-" then None else Some (cz_of_string v) in
        parse_items (k - 1) r' ((nat_s name, v') :: acc)
    | _ -> raise (Bad "enum items")

let rec parse_ty (toks : string list) : xty * string list =
  match toks with
  | "B" :: r -> (XPrim PBool, r)
  | "I" :: r -> (XPrim PInteger, r)
  | "N" :: r -> (XPrim PNull, r)
  | "O" :: r -> (XPrim POctets, r)
  | "E" :: n :: r ->
      let (its, r') = parse_items (int_of_string n) r [] in
      (XEnum (its, None), r')
  | "X" :: n :: r ->
      let (its, r') = parse_items (int_of_string n) r [] in
      (match r' with
       | n2 :: r'' ->
           let (adds, r3) = parse_items (int_of_string n2) r'' [] in
           (XEnum (its, Some adds), r3)
       | _ -> raise (Bad "enum additions"))
  | ("S" | "T" | "C" as k) :: n :: r ->
      let kind = (match k with "S" -> KSeq | "T" -> KSet | _ -> KChoice) in
      let (r1, r) = parse_comps (int_of_string n) r in
      (match r with
       | x :: r ->
           let (ext, r) =
             if x = "-" then (None, r)
             else let (a, r) = parse_comps (int_of_string x) r in (Some a, r) in
           (match r with
            | n2 :: r ->
                let (r2, r) = parse_comps (int_of_string n2) r in
                (XCons (kind, r1, ext, r2), r)
            | _ -> raise (Bad "r2"))
       | _ -> raise (Bad "ext"))
  | "Q" :: r -> let (e, r') = parse_ty r in (XSeqOf e, r')
  | "R" :: name :: r -> (XRef (nat_s name), r)
  | t :: _ -> raise (Bad ("type " ^ t))
  | [] -> raise (Bad "eof")

and parse_comps (k : int) (toks : string list) : (cinfo option * xty) list * string list =
  if k = 0 then ([], toks)
  else match toks with
    | "K" :: name :: r ->
        let (rest, r) = parse_comps (k - 1) r in
        ((None, XRef (nat_s name)) :: rest, r)
    | name :: tag :: fl :: r ->
        let f = (match fl with "m" -> FMandatory | "o" -> FOptional | "d" -> FDefault | _ -> raise (Bad "flag")) in
        let (t, r) = parse_ty r in
        let (rest, r) = parse_comps (k - 1) r in
        ((Some { c_name = nat_s name; c_tag = parse_tag tag; c_flag = f }, t) :: rest, r)
    | _ -> raise (Bad "comp")

let parse_module (toks : string list) : xmodule =
  match toks with
  | tg :: n :: r ->
      let tagging = (match tg with "E" -> TgExplicit | "I" -> TgImplicit | "A" -> TgAutomatic | _ -> raise (Bad "tagging")) in
      let rec defs k r acc =
        if k = 0 then (if r = [] then List.rev acc else raise (Bad "trailing tokens"))
        else match r with
          | name :: tag :: r ->
              let (t, r) = parse_ty r in
              defs (k - 1) r ({ xd_name = nat_s name; xd_tag = parse_tag tag; xd_ty = t } :: acc)
          | _ -> raise (Bad "def") in
      { xm_tagging = tagging; xm_defs = defs (int_of_string n) r [] }
  | _ -> raise (Bad "module")

let reason_s = function
  | RDupType -> "duptype" | RDupIdent -> "dupident" | REnumName -> "enumname" | REnumValue -> "enumvalue"
  | RUndefRef -> "undefref" | RImplicit -> "implicit" | RExtTag -> "exttag" | RTagClash -> "tagclash"

let clause_s = function
  | ClTags -> "tags" | ClIdent -> "ident" | ClEnumName -> "enumname" | ClEnumValue -> "enumvalue" | ClRef -> "ref"

let uniq_sorted l = List.sort_uniq compare l
let b01 b = if b then "1" else "0"

let xreason_s = function
  | XCore r -> reason_s r
  | XEnumOrder -> "enumorder"

(* ---------------------------------------------------------------- c11tm: the tagging-mode model (Fix/TagMode.v)
   c11tm <default E|I|A> <ndefs> { name tag body } <nholders> { name kind nroot ncomps { ident tag body } }
     body := C | A | U<n> | R<name>      kind := S | T | C | Q | P  (Q, P: element of SEQUENCE OF / SET OF)
   Result: verdict=ACCEPT | REJECT:<T<n> | c<i>@T<h> | elem@T<h> | exttag@T<h>, sorted>
           defs=T<n>:<mode>:<tags>:<all tags>,...   sites=T<h>.<pos>:<mode>:<member tag>,...
     mode = i | e | - ; tags = c1.u2 | - ; member tag = <tag> | any | none; "X" = this use/definition is the error *)
let parse_body (s : string) : body =
  match s.[0] with
  | 'C' -> BChoice
  | 'A' -> BOpen
  | 'U' -> BOther (cz_of_string (String.sub s 1 (String.length s - 1)))
  | 'R' -> BRef (nat_s (String.sub s 1 (String.length s - 1)))
  | _ -> raise (Bad ("body " ^ s))

let cls_s = function CUniversal -> "u" | CApplication -> "a" | CContext -> "c" | CPrivate -> "p"
let etag_s (c, n) = cls_s c ^ string_of_cz n
let etags_s l = if l = [] then "-" else String.concat "." (List.map etag_s l)
let mode_s = function None -> "-" | Some MImplicit -> "i" | Some MExplicit -> "e" | Some MDefault -> "d"

let tm_parse (args : string list) : tmmod * (int * bool) list =
  match args with
  | tg :: n :: r ->
      let tagging = (match tg with "E" -> TgExplicit | "I" -> TgImplicit | "A" -> TgAutomatic | _ -> raise (Bad "tagging")) in
      let rec defs k r acc =
        if k = 0 then (List.rev acc, r)
        else match r with
          | name :: tag :: b :: r -> defs (k - 1) r ({ td_name = nat_s name; td_tag = parse_tag tag; td_body = parse_body b } :: acc)
          | _ -> raise (Bad "tm def") in
      let (ds, r) = defs (int_of_string n) r [] in
      let rec sites k r acc =
        if k = 0 then (List.rev acc, r)
        else match r with
          | id :: tag :: b :: r -> sites (k - 1) r ({ s_ident = nat_s id; s_tag = parse_tag tag; s_body = parse_body b } :: acc)
          | _ -> raise (Bad "tm site") in
      let rec holders k r acc kinds =
        if k = 0 then (if r = [] then (List.rev acc, List.rev kinds) else raise (Bad "tm trailing"))
        else match r with
          | name :: kind :: nroot :: nc :: r ->
              let (ss, r) = sites (int_of_string nc) r [] in
              let isof = (kind = "Q" || kind = "P") in
              let hk = if isof then HOf else HStruct (nat_s nroot) in
              holders (k - 1) r ({ h_name = nat_s name; h_kind = hk; h_sites = ss } :: acc) ((int_of_string name, isof) :: kinds)
          | _ -> raise (Bad "tm holder") in
      (match r with
       | nh :: r ->
           let (hs, kinds) = holders (int_of_string nh) r [] [] in
           ({ tmm_tagging = tagging; tmm_defs = ds; tmm_holders = hs }, kinds)
       | _ -> raise (Bad "tm holders"))
  | _ -> raise (Bad "tm module")

let tm_dispatch args =
  let (m, kinds) = tm_parse args in
  let err_s = function
    | EDef n -> Printf.sprintf "T%d" (int_of_nat n)
    | ESite (h, i) ->
        let hn = int_of_nat h in
        if (try List.assoc hn kinds with Not_found -> false) then Printf.sprintf "elem@T%d" hn
        else Printf.sprintf "c%d@T%d" (int_of_nat i) hn
    | EExtTag h -> Printf.sprintf "exttag@T%d" (int_of_nat h) in
  let errs = List.sort compare (List.map err_s (tm_errors m)) in
  let verdict = if errs = [] then "ACCEPT" else "REJECT:" ^ String.concat "," errs in
  let defs = List.map (fun d ->
      let (md, (e, a)) = def_report m d in
      Printf.sprintf "T%d:%s:%s:%s" (int_of_nat d.td_name) (mode_s md) (etags_s e) (etags_s a)) m.tmm_defs in
  let sites = List.concat (List.map (fun h ->
      List.mapi (fun pos r ->
          match r with
          | None -> Printf.sprintf "T%d.%d:X" (int_of_nat h.h_name) pos
          | Some (md, ot) ->
              Printf.sprintf "T%d.%d:%s:%s" (int_of_nat h.h_name) pos (mode_s md)
                (match ot with OTag t -> etag_s t | OAny -> "any" | ONone -> "none")) (holder_report m h)) m.tmm_holders) in
  let one = List.concat (List.map (fun h -> List.map (fun s ->
      if must_explicit_c m.tmm_defs (tm_fuel m.tmm_defs) s.s_body <> must_explicit_1hop m.tmm_defs (tm_fuel m.tmm_defs) s.s_body then 1 else 0) h.h_sites) m.tmm_holders) in
  Printf.sprintf "verdict=%s defs=%s sites=%s onehopdiff=%d" verdict
    (if defs = [] then "-" else String.concat "," defs) (if sites = [] then "-" else String.concat "," sites)
    (List.fold_left (+) 0 one)

let dispatch cmd args =
  match cmd with
  | "c11tm" -> Some (tm_dispatch args)
  | "c11" ->
      let xm = parse_module args in
      let rs l = String.concat "," (uniq_sorted (List.map reason_s l)) in
      let xrs l = String.concat "," (uniq_sorted (List.map xreason_s l)) in
      let model = (match xcheck xm with
        | XAccept -> "ACCEPT" | XCrashes -> "CRASH" | XOutside -> "OUTSIDE" | XReject l -> "REJECT:" ^ xrs l) in
      let mc = expand_c xm in
      let mx = expand_x680 xm in
      let fix = (match mc with
        | None -> "NA"
        | Some m -> (match fix_module m with
            | NCrash -> "CRASH"
            | NOk l -> (match pre_reasons xm, l with
                | [], [] -> "OK"
                | p, l -> xrs (p @ List.map (fun r -> XCore r) l)))) in
      let stats = cof_stats xm in
      let cof =
        if List.mem CofDangling stats then "dangling"
        else if List.mem CofKind stats then "kind"
        else if stats = [] then "none" else "ok" in
      let spec = (match mx with
        | None -> "NA"
        | Some m -> (match spec_bad m with
            | [] -> "OK" | l -> String.concat "," (uniq_sorted (List.map clause_s l)))) in
      let specc = (match mc with
        | None -> "NA"
        | Some m -> (match spec_bad m with
            | [] -> "OK" | l -> String.concat "," (uniq_sorted (List.map clause_s l)))) in
      let onx f = (match mx with None -> false | Some m -> f m) in
      let wf = onx tagging_wfb && xwf_written xm in
      let cends = (match mc with None -> false | Some m -> compile_ends m) in
      let cofdup = expand { p_rename = true; p_strip = false } xm <> mx in
      let cofext = expand { p_rename = false; p_strip = true } xm <> mx in
      Some (Printf.sprintf "model=%s fix=%s spec=%s wf=%s tagref=%s choiceref=%s enummixed=%s cends=%s cof=%s cofdup=%s cofext=%s enumneg=%s specc=%s"
              model fix spec (b01 wf) (b01 (onx has_tagref)) (b01 (onx has_choiceref))
              (b01 (onx enum_mixed)) (b01 cends) cof (b01 cofdup) (b01 cofext) (b01 (enum_ext_neg xm)) specc)
  | _ -> None
