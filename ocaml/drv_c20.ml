(* drv_c20.ml — unber -p / enber (C20).  The model works on line records; this
   front end renders them to the exact text `unber -p` writes (print_TL/print_V
   formats, 4-space indent, A="..." names of the universal tags) so that the
   check can compare the model's output with the binary's stdout byte for byte.
   Commands:
     unber <hex>   ->  <exit> <text with '\n' written as '|', or '-'>
     xxber <hex>   ->  OK <hex> | ERR:<kind> <hex written before the diagnostic>
     render_recs <records>  ->  text;   enber_recs <records>  ->  as xxber (enber on given line records)
     spec_ser <tree>, spec_nodes <tree>   (spec side, see below)
     c20_oid_arcs <6|13> <hex>  ->  number of arcs of the contents octets | fail   (plain mode's OID printer) *)
open Model
open Drvlib

let zs = string_of_cz

let utag_name = function
  | 1 -> "BOOLEAN" | 2 -> "INTEGER" | 3 -> "BIT STRING" | 4 -> "OCTET STRING" | 5 -> "NULL"
  | 6 -> "OBJECT IDENTIFIER" | 7 -> "ObjectDescriptor" | 8 -> "EXTERNAL" | 9 -> "REAL"
  | 10 -> "ENUMERATED" | 11 -> "EMBEDDED PDV" | 12 -> "UTF8String" | 13 -> "RELATIVE-OID"
  | 16 -> "SEQUENCE" | 17 -> "SET" | 18 -> "NumericString" | 19 -> "PrintableString"
  | 20 -> "TeletexString" | 21 -> "VideotexString" | 22 -> "IA5String" | 23 -> "UTCTime"
  | 24 -> "GeneralizedTime" | 25 -> "GraphicString" | 26 -> "VisibleString" | 27 -> "GeneralString"
  | 28 -> "UniversalString" | 29 -> "CHARACTER STRING" | 30 -> "BMPString" | _ -> ""

(* ber_tlv_tag_string *)
let tag_s (tag : z) : string =
  let t = zarith_of_cz tag in
  let cls = ZA.to_int (ZA.logand t (ZA.of_int 3)) and v = ZA.shift_right t 2 in
  let w = match cls with 0 -> "UNIVERSAL " | 1 -> "APPLICATION " | 2 -> "" | _ -> "PRIVATE " in
  Printf.sprintf "[%s%s]" w (ZA.to_string v)

let attr_a (tag : z) : string =
  let t = zarith_of_cz tag in
  if ZA.to_int (ZA.logand t (ZA.of_int 3)) <> 0 then ""
  else
    let v = ZA.shift_right t 2 in
    if ZA.geq v (ZA.of_int 32) || ZA.sign v < 0 then ""
    else match utag_name (ZA.to_int v) with "" -> "" | s -> Printf.sprintf " A=\"%s\"" s

let indent lv = String.make (4 * int_of_nat lv) ' '

let v_s vlen = if zs vlen = "-1" then "Indefinite" else zs vlen

let esc (bs : z list) : string =
  let b = Buffer.create (6 * List.length bs + 1) in
  List.iter (fun x -> Buffer.add_string b (Printf.sprintf "&#x%02x;" (int_of_cz x land 0xff))) bs;
  Buffer.contents b

let opening name lv off tag tl vlen =
  Printf.sprintf "%s<%s O=\"%s\" T=\"%s\" TL=\"%s\" V=\"%s\"%s" (indent lv) name (zs off) (tag_s tag) (zs tl) (v_s vlen) (attr_a tag)

let render = function
  | LOpen (lv, off, tag, tl, vlen) ->
      opening (if zs vlen = "-1" then "I" else "C") lv off tag tl vlen ^ ">\n"
  | LPrim (lv, off, tag, tl, vlen, body) ->
      opening "P" lv off tag tl vlen ^ ">" ^ esc body ^ "</P>\n"
  | LClose (lv, off, tag, esz) ->
      Printf.sprintf "%s</C O=\"%s\" T=\"%s\"%s L=\"%s\">\n" (indent lv) (zs off) (tag_s tag) (attr_a tag) (zs esz)
  | LCloseI (lv, off, esz) ->
      Printf.sprintf "%s</I O=\"%s\" T=\"[UNIVERSAL 0]\" TL=\"2\" L=\"%s\">\n" (indent lv) (zs off) (zs esz)
  | LTrunc (lv, constr, off, tag, tl, vlen, body) ->
      opening (if constr then (if zs vlen = "-1" then "I" else "C") else "P") lv off tag tl vlen
      ^ (match body with None -> "" | Some bs -> ">" ^ esc bs)

let diag_s = function
  | DTooLongLimit (a, b, c) -> Printf.sprintf "TOOLONG_LIMIT:%s:%s:%s" (zs a) (zs b) (zs c)
  | DTooLongBuf (a, c) -> Printf.sprintf "TOOLONG_BUF:%s:%s" (zs a) (zs c)
  | DEofTL o -> "EOF_TL:" ^ zs o
  | DTagErr o -> "TAGERR:" ^ zs o
  | DLenErr o -> "LENERR:" ^ zs o
  | DMismatch o -> "MISMATCH:" ^ zs o
  | DExceeds (a, b) -> Printf.sprintf "EXCEEDS:%s:%s" (zs a) (zs b)
  | DEofV -> "EOF_V"

let exit_s = function
  | XOk -> "OK" | XFail d -> "FAIL:" ^ diag_s d | XAbort -> "ABORT" | XOutOfFuel -> "FUEL"

let text_s ls =
  let t = String.concat "" (List.map render ls) in
  if t = "" then "-" else String.map (fun c -> if c = '\n' then '|' else c) t

let eerr_s = function
  | EInvalidTLV -> "INVALID_TLV" | EInvalidTag -> "INVALID_TAG"
  | ECannotEncodeTL -> "CANNOT_ENCODE_TL" | EValueLen -> "VALUE_LEN"

let enber_s (bs, r) =
  match r with
  | None -> "OK " ^ hex_of_bytes bs
  | Some e -> Printf.sprintf "ERR:%s %s" (eerr_s e) (hex_of_bytes bs)

(* spec side: a forest in prefix notation
     P <tag> <hexbody>  |  C <tag> <definite 0/1> <number of children> <children...> *)
let rec parse_tree = function
  | "P" :: tag :: body :: rest -> (Prim (cz_of_string tag, bytes_of_hex body), rest)
  | "C" :: tag :: d :: n :: rest ->
      let (ch, rest') = parse_n (int_of_string n) rest in
      (Cons (cz_of_string tag, d = "1", ch), rest')
  | _ -> failwith "tree syntax"
and parse_n n toks =
  if n = 0 then ([], toks)
  else let (t, r) = parse_tree toks in let (ts, r') = parse_n (n - 1) r in (t :: ts, r')

let rec parse_forest toks = match toks with [] -> [] | _ -> let (t, r) = parse_tree toks in t :: parse_forest r

(* line records on the command line, separated by "/":
     O lv off tag tl vlen | P lv off tag tl vlen hexbody | C lv off tag esz | I lv off esz *)
let rec split_recs acc cur = function
  | [] -> List.rev (if cur = [] then acc else List.rev cur :: acc)
  | "/" :: r -> split_recs (List.rev cur :: acc) [] r
  | t :: r -> split_recs acc (t :: cur) r

let rec_of = function
  | ["O"; lv; off; tag; tl; v] -> LOpen (nat_of_int (int_of_string lv), cz_of_string off, cz_of_string tag, cz_of_string tl, cz_of_string v)
  | ["P"; lv; off; tag; tl; v; b] -> LPrim (nat_of_int (int_of_string lv), cz_of_string off, cz_of_string tag, cz_of_string tl, cz_of_string v, bytes_of_hex b)
  | ["C"; lv; off; tag; esz] -> LClose (nat_of_int (int_of_string lv), cz_of_string off, cz_of_string tag, cz_of_string esz)
  | ["I"; lv; off; esz] -> LCloseI (nat_of_int (int_of_string lv), cz_of_string off, cz_of_string esz)
  | _ -> failwith "record syntax"

let recs toks = List.map rec_of (split_recs [] [] toks)

let node_s (((off, tag), hl), cl) = Printf.sprintf "%s:%s:%s:%s" (zs off) (zs tag) (zs hl) (zs cl)

let dispatch cmd args =
  match cmd, args with
  | "spec_ser", toks -> Some (hex_of_bytes (ser_forest (parse_forest toks)))
  | "spec_nodes", toks ->
      (match nodes_forest (parse_forest toks) Z0 with
       | [] -> Some "-"
       | ns -> Some (String.concat "," (List.map node_s ns)))
  | "render_recs", toks -> Some (text_s (recs toks))
  | "enber_recs", toks -> Some (enber_s (enber (recs toks)))
  | "unber", [h] -> let (ls, x) = unber (bytes_of_hex h) in Some (exit_s x ^ " " ^ text_s ls)
  | "xxber", [h] -> Some (enber_s (xxber (bytes_of_hex h)))
  | "c20_oid_arcs", [tag; h] ->
      (* number of arcs OBJECT_IDENTIFIER_get_arcs (tag 6) / RELATIVE_OID_get_arcs (tag 13) returns on the
         contents octets (Leaf/Oid.v), "fail" for -1: what print_V's arc buffer has to hold *)
      (match (if tag = "6" then get_arcs (bytes_of_hex h) else reloid_get_arcs (bytes_of_hex h)) with
       | OArcs l -> Some (string_of_int (List.length l))
       | _ -> Some "fail")
  | _ -> None
