(* drv_c15.ml — front end of coq/Rt/Depth.v (C15).
   A graph is given as  <edges> <guarded>  with edges "u-v,u-v,..." and node lists
   "a,b,c" ("-" = empty).  Commands:
     c15_cg  <nnodes> <edges> <guarded>             -> GUARDED <R> | UNGUARDED
         (all_cycles_guarded: every cycle passes a guarded node; R+1 = longest unguarded run)
     c15_cyc <edges> <guarded> <pre> <cyc>          -> CYCLE | NOCYCLE   (unguarded_cycle)
     c15_run <edges> <guarded> <frame> <max> <pre> <cyc> <k>
         the depth-indexed run on the call path pre ++ cyc^k with a uniform frame size
                                                    -> FIRED <depth> | COMPLETED <depth> | NOCHAIN
   coq/Rt/HeapBound.v (allocation-metered UPER string / list decoders):
     c15_str <P|U> <bits per unit> <bpc; 0 = BIT STRING> <lb>,<ub|->,<ext 0|1> <hex | @file>
     c15_lst <P|U> <bits per element> <bytes per element> <lb>,<ub|->,<ext> <hex | @file>
         P = PerFragment (the C), U = PreallocUb
         -> OK <units> <bits left> peak=<n> maxreq=<n> allocs=<n> [held=<n> cap=<n>]
          | NONE peak=<n> maxreq=<n> allocs=<n> [held=<n> cap=<n>]
   coq/Rt/HeapOer.v (allocation-metered OER decoder of nested SEQUENCE OF / SET OF):
     c15_oll <G|U|N> <type> <hex | @file>
         G = PerElement guard (the C), U = UpFront test, N = no guard
         type ::= L(<type>) | Z<bytes> (zero-width leaf, e.g. Z4 = NULL) | F<octets>.<bytes> (fixed-width leaf, F1.4 = BOOLEAN)
         -> <OK|MORE|FAIL|FUEL> <octets consumed> peak=<n> maxreq=<n> allocs=<n> *)
open Model
open Drvlib

let ints s = if s = "-" then [] else List.map int_of_string (String.split_on_char ',' s)
let nodes s = List.map nat_of_int (ints s)
let edges s =
  if s = "-" then []
  else List.map (fun e -> match String.split_on_char '-' e with
                          | [a; b] -> (nat_of_int (int_of_string a), nat_of_int (int_of_string b))
                          | _ -> failwith "edge") (String.split_on_char ',' s)
let graph e g = { cg_edges = edges e; cg_guarded = nodes g }

let bits_of_input (src : string) : bool list =
  let data =
    if String.length src > 0 && src.[0] = '@' then begin
      let ic = open_in_bin (String.sub src 1 (String.length src - 1)) in
      let n = in_channel_length ic in
      let b = really_input_string ic n in
      close_in ic; b
    end else if src = "-" then ""
    else String.init (String.length src / 2) (fun i -> Char.chr (int_of_string ("0x" ^ String.sub src (2 * i) 2))) in
  let acc = ref [] in
  for i = String.length data - 1 downto 0 do
    let c = Char.code data.[i] in
    for k = 0 to 7 do acc := ((c lsr k) land 1 = 1) :: !acc done
  done;
  !acc

let scon_of s =
  match String.split_on_char ',' s with
  | [lb; ub; ext] -> SCon (cz_of_string lb, (if ub = "-" then None else Some (cz_of_string ub)), ext = "1")
  | _ -> failwith "scon"

let bytes_of_input (src : string) =
  let data =
    if String.length src > 0 && src.[0] = '@' then begin
      let ic = open_in_bin (String.sub src 1 (String.length src - 1)) in
      let n = in_channel_length ic in
      let b = really_input_string ic n in
      close_in ic; b
    end else if src = "-" then ""
    else String.init (String.length src / 2) (fun i -> Char.chr (int_of_string ("0x" ^ String.sub src (2 * i) 2))) in
  let acc = ref [] in
  for i = String.length data - 1 downto 0 do acc := cz_of_string (string_of_int (Char.code data.[i])) :: !acc done;
  !acc

let rec lty_of (s : string) =
  let n = String.length s in
  if n >= 3 && s.[0] = 'L' && s.[1] = '(' && s.[n - 1] = ')' then LList (lty_of (String.sub s 2 (n - 3)))
  else if n >= 2 && s.[0] = 'Z' then LLeaf (nat_of_int 0, cz_of_string (String.sub s 1 (n - 1)))
  else if n >= 4 && s.[0] = 'F' then
    (match String.split_on_char '.' (String.sub s 1 (n - 1)) with
     | [w; e] -> LLeaf (nat_of_int (int_of_string w), cz_of_string e)
     | _ -> failwith "lty")
  else failwith "lty"

let gpol_of s = if s = "U" then UpFront else if s = "N" then NoGuard else PerElement

let pol_of s = if s = "U" then PreallocUb else PerFragment
let meter_s m = Printf.sprintf "peak=%s maxreq=%s allocs=%s" (string_of_cz m.m_peak) (string_of_cz m.m_maxreq) (string_of_cz m.m_allocs)
let res_s = function
  | Some (n, r) -> Printf.sprintf "OK %s %s" (string_of_cz n) (string_of_cz r)
  | None -> "NONE"

let dispatch cmd args =
  match cmd, args with
  | "c15_cg", [n; e; g] ->
      (match all_cycles_guarded (graph e g) (nat_of_int (int_of_string n)) with
       | Some r -> Some (Printf.sprintf "GUARDED %d" (int_of_nat r))
       | None -> Some "UNGUARDED")
  | "c15_cyc", [e; g; pre; cyc] ->
      Some (if unguarded_cycle (graph e g) (nodes pre) (nodes cyc) then "CYCLE" else "NOCYCLE")
  | "c15_run", [e; g; fr; mx; pre; cyc; k] ->
      let gr = graph e g in
      let path = nodes pre @ rep_cycle (nodes cyc) (nat_of_int (int_of_string k)) in
      if not (is_chain gr path) then Some "NOCHAIN"
      else
        let f = cz_of_string fr in
        (match run_path gr (fun _ -> f) (cz_of_string mx) Z0 O path with
         | GuardFired d -> Some (Printf.sprintf "FIRED %d" (int_of_nat d))
         | Completed d -> Some (Printf.sprintf "COMPLETED %d" (int_of_nat d)))
  | "c15_str", [pol; ub; bpc; sc; src] ->
      let (res, m) = c15_str (pol_of pol) (nat_of_int (int_of_string ub)) (cz_of_string bpc) (scon_of sc) (bits_of_input src) in
      Some (res_s res ^ " " ^ meter_s m)
  | "c15_lst", [pol; ub; esz; sc; src] ->
      let (res, (m, l)) = c15_lst (pol_of pol) (nat_of_int (int_of_string ub)) (cz_of_string esz) (scon_of sc) (bits_of_input src) in
      Some (Printf.sprintf "%s %s held=%s cap=%s" (res_s res) (meter_s m) (string_of_cz l.l_count) (string_of_cz l.l_cap))
  | "c15_oll", [g; t; src] ->
      let r = c15_oll (gpol_of g) (lty_of t) (bytes_of_input src) in
      let rc = match r.r_rc with ROk -> "OK" | RMore -> "MORE" | RFail -> "FAIL" | RFuel -> "FUEL" in
      Some (Printf.sprintf "%s %s %s" rc (string_of_cz r.r_used) (meter_s r.r_m))
  | _ -> None
