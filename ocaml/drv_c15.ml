(* drv_c15.ml — front end of coq/Rt/Depth.v (C15).
   A graph is given as  <edges> <guarded>  with edges "u-v,u-v,..." and node lists
   "a,b,c" ("-" = empty).  Commands:
     c15_cg  <nnodes> <edges> <guarded>             -> GUARDED <R> | UNGUARDED
         (all_cycles_guarded: every cycle passes a guarded node; R+1 = longest unguarded run)
     c15_cyc <edges> <guarded> <pre> <cyc>          -> CYCLE | NOCYCLE   (unguarded_cycle)
     c15_run <edges> <guarded> <frame> <max> <pre> <cyc> <k>
         the depth-indexed run on the call path pre ++ cyc^k with a uniform frame size
                                                    -> FIRED <depth> | COMPLETED <depth> | NOCHAIN *)
open Model
open Drvlib

let ints s = if s = "-" then [] else List.map int_of_string (String.split_on_char ',' s)
let nodes s = List.map nat_of_int (ints s)
let edges s =
  if s = "-" then []
  else List.map (fun e -> match String.split_on_char '-' e with
                          | [a; b] -> (nat_of_int (int_of_string a), nat_of_int (int_of_string b))
                          | _ -> failwith "edge") (String.split_on_char ',' s)
let graph e g = { cg_edges = edges e; cg_guarded = nodes g }

let dispatch cmd args =
  match cmd, args with
  | "c15_cg", [n; e; g] ->
      (match all_cycles_guarded (graph e g) (nat_of_int (int_of_string n)) with
       | Some r -> Some (Printf.sprintf "GUARDED %d" (int_of_nat r))
       | None -> Some "UNGUARDED")
  | "c15_cyc", [e; g; pre; cyc] ->
      Some (if unguarded_cycle (graph e g) (nodes pre) (nodes cyc) then "CYCLE" else "NOCYCLE")
  | "c15_run", [e; g; fr; mx; pre; cyc; k] ->
      let gr = graph e g in
      let path = nodes pre @ rep_cycle (nodes cyc) (nat_of_int (int_of_string k)) in
      if not (is_chain gr path) then Some "NOCHAIN"
      else
        let f = cz_of_string fr in
        (match run_path gr (fun _ -> f) (cz_of_string mx) Z0 O path with
         | GuardFired d -> Some (Printf.sprintf "FIRED %d" (int_of_nat d))
         | Completed d -> Some (Printf.sprintf "COMPLETED %d" (int_of_nat d)))
  | _ -> None
