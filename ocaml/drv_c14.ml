(* drv_c14.ml — C14 front end of the extracted ownership model (coq/Rt/Heap.v).
   Type and value syntax as in drv_rt.ml (the parser is repeated here because every area is
   extracted into its own OCaml module with its own copy of the types).
     c14own <oer 0|1> <ty> <val>      (oer=1: the structure the OER decoder leaves: SEQUENCE scratch kept)
        -> n=<blocks owned by the decoded structure> s=<struct blocks> b=<buffers> a=<arrays> x=<decoder scratch>
           fe=<FREEMEM events of ASN_STRUCT_FREE> free=<ledger after it: OK:<left> | VIOLATION>
           fr=<FREEMEM events of ASN_STRUCT_RESET> reset=<ledger after it> zero=<blocks owned by the reset structure>
           shape=<0|1> *)
open Model
open Drvlib

exception Parse of string

let parse_num s pos : z option * int =
  let n = String.length s in
  if pos < n && s.[pos] = '*' then (None, pos + 1)
  else begin
    let j = ref pos in
    if !j < n && s.[!j] = '-' then incr j;
    while !j < n && s.[!j] >= '0' && s.[!j] <= '9' do incr j done;
    if !j = pos then raise (Parse ("number expected at " ^ string_of_int pos));
    (Some (cz_of_string (String.sub s pos (!j - pos))), !j)
  end

let num_req s pos = match parse_num s pos with
  | (Some z, p) -> (z, p)
  | (None, _) -> raise (Parse "number required")

let expect s pos c =
  if pos < String.length s && s.[pos] = c then pos + 1
  else raise (Parse (Printf.sprintf "expected %c at %d" c pos))

let parse_con s pos =
  let pos = expect s pos '[' in
  let (lo, pos) = parse_num s pos in
  let pos = expect s pos ',' in
  let (hi, pos) = parse_num s pos in
  let pos = expect s pos ',' in
  let (e, pos) = num_req s pos in
  let pos = expect s pos ']' in
  (lo, hi, (e <> Z0), pos)

let rec parse_ty s pos : ty * int =
  if pos >= String.length s then raise (Parse "type expected");
  match s.[pos] with
  | 'b' -> let (tg, p) = num_req s (pos + 1) in (TBool tg, p)
  | 'n' -> let (tg, p) = num_req s (pos + 1) in (TNull tg, p)
  | 'i' -> let (tg, p) = num_req s (pos + 1) in
           let (lo, hi, e, p) = parse_con s p in (TInt (tg, ICon (lo, hi, e)), p)
  | 'o' -> let (tg, p) = num_req s (pos + 1) in
           let (lo, hi, e, p) = parse_con s p in
           (TOct (tg, SCon ((match lo with Some l -> l | None -> Z0), hi, e)), p)
  | 's' -> let (tg, p) = num_req s (pos + 1) in
           let (ms, p) = parse_tys s (expect s p '{') in (TSeq (tg, ms), p)
  | 'q' | 't' as k ->
           let (tg, p) = num_req s (pos + 1) in
           let (lo, hi, e, p) = parse_con s p in
           let (el, p) = parse_ty s p in
           let sc = SCon ((match lo with Some l -> l | None -> Z0), hi, e) in
           ((if k = 'q' then TSeqOf (tg, sc, el) else TSetOf (tg, sc, el)), p)
  | 'c' -> let (alts, p) = parse_tys s (expect s (pos + 1) '{') in (TChoice alts, p)
  | 'x' -> let (tg, p) = num_req s (pos + 1) in
           let (t, p) = parse_ty s p in (TTag (tg, t), p)
  | '?' -> let (t, p) = parse_ty s (pos + 1) in (TOpt t, p)
  | c -> raise (Parse (Printf.sprintf "bad type char %c at %d" c pos))
and parse_tys s pos : ty list * int =
  if pos < String.length s && s.[pos] = '}' then ([], pos + 1)
  else let (t, p) = parse_ty s pos in
       let (ts, p) = parse_tys s p in (t :: ts, p)

let rec parse_val s pos : val0 * int =
  if pos >= String.length s then raise (Parse "value expected");
  match s.[pos] with
  | 'T' -> (VBool true, pos + 1)
  | 'F' -> (VBool false, pos + 1)
  | 'N' -> (VNull, pos + 1)
  | 'I' -> let (z, p) = num_req s (pos + 1) in (VInt z, expect s p ';')
  | 'O' -> let j = String.index_from s pos ';' in
           (VOct (bytes_of_hex (let h = String.sub s (pos + 1) (j - pos - 1) in if h = "" then "-" else h)), j + 1)
  | 'S' -> let (vs, p) = parse_vals s (expect s (pos + 1) '{') in (VSeq vs, p)
  | 'L' -> let (vs, p) = parse_vals s (expect s (pos + 1) '{') in (VList vs, p)
  | 'C' -> let (i, p) = num_req s (pos + 1) in
           let (v, p) = parse_val s (expect s p ':') in (VChoice (nat_of_int (int_of_cz i), v), p)
  | '_' -> (VNone, pos + 1)
  | '!' -> let (v, p) = parse_val s (pos + 1) in (VSome v, p)
  | c -> raise (Parse (Printf.sprintf "bad value char %c at %d" c pos))
and parse_vals s pos =
  if pos < String.length s && s.[pos] = '}' then ([], pos + 1)
  else let (v, p) = parse_val s pos in
       let (vs, p) = parse_vals s p in (v :: vs, p)

let ty_of s = let (t, p) = parse_ty s 0 in
  if p <> String.length s then raise (Parse "trailing type text"); t
let val_of s = let (v, p) = parse_val s 0 in
  if p <> String.length s then raise (Parse "trailing value text"); v

let ledger_s = function
  | Some l -> "OK:" ^ string_of_int (List.length l)
  | None -> "VIOLATION"

let own o t v =
  let s = of_val o t v in
  let o = owned t true [] s in
  let fe = free_model t FreeEverything [] s in
  let fr = free_model t FreeUnderlyingAndReset [] s in
  let (l1, _) = apply_free t FreeEverything o s in
  let (l2, s2) = apply_free t FreeUnderlyingAndReset o s in
  let z = match s2 with Some s' -> List.length (owned t true [] s') | None -> -1 in
  Printf.sprintf "n=%d s=%d b=%d a=%d x=%d fe=%d free=%s fr=%d reset=%s zero=%d shape=%d"
    (List.length o) (int_of_nat (count_kind KStruct o)) (int_of_nat (count_kind KBuf o)) (int_of_nat (count_kind KArr o)) (int_of_nat (count_kind KScratch o))
    (List.length fe) (ledger_s l1) (List.length fr) (ledger_s l2) z (if shape t s then 1 else 0)

(* ---- round c14x: coq/Rt/HeapX.v ----
     c14layout <kind>            -> the model's table of the leaf structure, in the words of the C harness' `layout`
     c14leaf <kind> <hex>        -> the bytes ASN_STRUCT_RESET leaves (leaf_free k FreeUnderlyingAndReset), hex
     c14xfail <nroot> <j> <ty> <val>  -> n=<blocks owned by the structure SEQUENCE_decode_oer leaves after a failure inside
                                    the open type container of addition j> (fail_in_addition, OER decoder) *)
let kind_of = function
  | "bool" -> LBool | "null" -> LNull | "nint" -> LNInt | "nreal" -> LNReal | "nfloat" -> LNFloat
  | "prim" -> LPrim | "oct" -> LOct | "bits" -> LBits
  | k -> raise (Parse ("unknown leaf kind " ^ k))

let layout ks =
  let k = kind_of ks in
  let at f = match field_at k f with Some (o, l) -> Some (int_of_nat o, int_of_nat l) | None -> None in
  let b = Buffer.create 64 in
  Buffer.add_string b (Printf.sprintf "kind=%s sizeof=%d wiped=%d" ks (int_of_nat (sizeof k)) (int_of_nat (wiped k)));
  (match at FCtxPhaseStep with
   | Some (o, _) -> Buffer.add_string b (Printf.sprintf " ss=%d ctx=%d" (int_of_nat (wiped k)) o)
   | None -> ());
  (match at FBuf with Some (o, l) -> Buffer.add_string b (Printf.sprintf " buf=%d:%d" o l) | None -> ());
  (match at FSize with Some (o, l) -> Buffer.add_string b (Printf.sprintf " size=%d:%d" o l) | None -> ());
  (match at FBitsUnused with Some (o, l) -> Buffer.add_string b (Printf.sprintf " bits_unused=%d:%d" o l) | None -> ());
  (match at FCtxPtr, at FCtxPhaseStep with
   | Some (o, l), Some (c, _) -> Buffer.add_string b (Printf.sprintf " ctxptr=%d:%d ctxsize=%d" o l (int_of_nat (sizeof k) - c))
   | _ -> ());
  Buffer.contents b

let leaf ks hex =
  let (_, bs) = leaf_free (kind_of ks) FreeUnderlyingAndReset (bytes_of_hex hex) in
  hex_of_bytes bs

let xfail nroot j t v =
  let s = fail_in_addition true (nat_of_int nroot) (nat_of_int j) t v in
  Printf.sprintf "n=%d shape=%d" (List.length (owned t true [] s)) (if shape t s then 1 else 0)

(* ---- round c14w: coq/Rt/HeapW.v ----
     c14wlist <correct|shared> <k> <bomb|addfail|decfail|decfail0>
          -> live=<blocks live after k appended elements and that error exit> violation=<none|ledger> free=<ledger after the caller's ASN_STRUCT_FREE>
     c14wdyn <correct|nofree> <ok|fail> <chunk sizes ...>      (no REALLOC fails)
          -> result=<buffer|none> allocs=<allocations requested> bs=<size of the block returned> leak=<blocks live after the caller released the result>
             violation=<none|ledger> *)
let wlist v k x =
  let v = (match v with "correct" -> Correct | "shared" -> SharedExit | _ -> raise (Parse "variant")) in
  let x = (match x with "bomb" -> XBomb | "addfail" -> XAddFail | "decfail" -> XDecFail true | "decfail0" -> XDecFail false | _ -> raise (Parse "exit")) in
  let k = nat_of_int k in
  match list_run v k x with
  | None -> "live=- violation=ledger free=VIOLATION"
  | Some s -> Printf.sprintf "live=%d violation=none free=%s" (List.length s.live) (ledger_s (list_lifecycle v k x))

let wdyn v ok sizes =
  let v = (match v with "correct" -> DCorrect | "nofree" -> NoFree | _ -> raise (Parse "variant")) in
  let script = List.map (fun z -> (nat_of_int (int_of_string z), true)) sizes in
  match dyn_run v script (ok = "ok") with
  | None -> "result=- allocs=- bs=- leak=- violation=ledger"
  | Some (d, r) ->
    let leak = List.length d.dlive - (match r with Some _ -> 1 | None -> 0) in
    Printf.sprintf "result=%s allocs=%d bs=%d leak=%d violation=none" (match r with Some _ -> "buffer" | None -> "none")
      (int_of_nat d.nreq) (match r with Some _ -> int_of_nat d.allocated | None -> 0) leak

let dispatch cmd args =
  match cmd, args with
  | "c14wlist", [v; k; x] -> Some (wlist v (int_of_string k) x)
  | "c14wdyn", v :: ok :: sizes -> Some (wdyn v ok sizes)
  | "c14own", [o; t; v] -> Some (own (o = "1") (ty_of t) (val_of v))
  | "c14layout", [k] -> Some (layout k)
  | "c14leaf", [k; h] -> Some (leaf k h)
  | "c14xfail", [r; j; t; v] -> Some (xfail (int_of_string r) (int_of_string j) (ty_of t) (val_of v))
  | _ -> None
