(* drv_c13lay.ml — property C13, round 4: the encoders that WALK THE C STRUCTURE through the ATF_POINTER flags of
   the member tables (coq/Rt/Layout.v, coq/Rt/LayoutExt.v).  Types, values and extensible types in the syntax of
   drv_rt.ml / drv_ext.ml (the parser below is a copy: every area is linked against its own extracted Model_<area>).
     lay := I{lay*} | P{lay*}     one node per type: stored Inline / behind a Pointer in its parent, then the layouts
                                  of its members / alternatives / element (EXPLICIT tags and OPTIONAL are transparent);
                                  for an extensible type: root components then additions / extension alternatives
   commands (the structure is built for the layout by repr / ext_repr, then walked):
     lay_uper <std> <ty> <lay> <val> | lay_oer <ty> <lay> <val> | lay_der <ty> <lay> <val>      -> hex | NONE | NOREPR
     lay_xuper <std> <ety> <lay> <val> | lay_xoer <ety> <lay> <val> | lay_xder <ety> <lay> <val> -> hex | NONE | NOREPR
     lay_xuper_noderef <std> <ety> <lay> <val> | lay_xoer_noderef <ety> <lay> <val>
         the variant whose extension path takes the slot address for the member (seeded/C13-5)   -> hex | STUCK | NOREPR
   NOREPR: the layout cannot hold the value (an absent component needs a pointer slot). *)
open Model
open Drvlib

exception Parse of string

let parse_num s pos : z option * int =
  let n = String.length s in
  if pos < n && s.[pos] = '*' then (None, pos + 1)
  else begin
    let j = ref pos in
    if !j < n && s.[!j] = '-' then incr j;
    while !j < n && s.[!j] >= '0' && s.[!j] <= '9' do incr j done;
    if !j = pos then raise (Parse ("number expected at " ^ string_of_int pos));
    (Some (cz_of_string (String.sub s pos (!j - pos))), !j)
  end

let num_req s pos = match parse_num s pos with
  | (Some z, p) -> (z, p)
  | (None, _) -> raise (Parse "number required")

let expect s pos c =
  if pos < String.length s && s.[pos] = c then pos + 1
  else raise (Parse (Printf.sprintf "expected %c at %d" c pos))

let parse_con s pos =
  let pos = expect s pos '[' in
  let (lo, pos) = parse_num s pos in
  let pos = expect s pos ',' in
  let (hi, pos) = parse_num s pos in
  let pos = expect s pos ',' in
  let (e, pos) = num_req s pos in
  let pos = expect s pos ']' in
  (lo, hi, (e <> Z0), pos)

let rec parse_ty s pos : ty * int =
  if pos >= String.length s then raise (Parse "type expected");
  match s.[pos] with
  | 'b' -> let (tg, p) = num_req s (pos + 1) in (TBool tg, p)
  | 'n' -> let (tg, p) = num_req s (pos + 1) in (TNull tg, p)
  | 'i' -> let (tg, p) = num_req s (pos + 1) in
           let (lo, hi, e, p) = parse_con s p in (TInt (tg, ICon (lo, hi, e)), p)
  | 'o' -> let (tg, p) = num_req s (pos + 1) in
           let (lo, hi, e, p) = parse_con s p in
           (TOct (tg, SCon ((match lo with Some l -> l | None -> Z0), hi, e)), p)
  | 's' -> let (tg, p) = num_req s (pos + 1) in
           let (ms, p) = parse_tys s (expect s p '{') in (TSeq (tg, ms), p)
  | 'q' | 't' as k ->
           let (tg, p) = num_req s (pos + 1) in
           let (lo, hi, e, p) = parse_con s p in
           let (el, p) = parse_ty s p in
           let sc = SCon ((match lo with Some l -> l | None -> Z0), hi, e) in
           ((if k = 'q' then TSeqOf (tg, sc, el) else TSetOf (tg, sc, el)), p)
  | 'c' -> let (alts, p) = parse_tys s (expect s (pos + 1) '{') in (TChoice alts, p)
  | 'x' -> let (tg, p) = num_req s (pos + 1) in
           let (t, p) = parse_ty s p in (TTag (tg, t), p)
  | '?' -> let (t, p) = parse_ty s (pos + 1) in (TOpt t, p)
  | c -> raise (Parse (Printf.sprintf "bad type char %c at %d" c pos))
and parse_tys s pos : ty list * int =
  if pos < String.length s && s.[pos] = '}' then ([], pos + 1)
  else let (t, p) = parse_ty s pos in
       let (ts, p) = parse_tys s p in (t :: ts, p)

let rec parse_val s pos : val0 * int =
  if pos >= String.length s then raise (Parse "value expected");
  match s.[pos] with
  | 'T' -> (VBool true, pos + 1)
  | 'F' -> (VBool false, pos + 1)
  | 'N' -> (VNull, pos + 1)
  | 'I' -> let (z, p) = num_req s (pos + 1) in (VInt z, expect s p ';')
  | 'O' -> let j = String.index_from s pos ';' in
           (VOct (bytes_of_hex (let h = String.sub s (pos + 1) (j - pos - 1) in if h = "" then "-" else h)), j + 1)
  | 'S' -> let (vs, p) = parse_vals s (expect s (pos + 1) '{') in (VSeq vs, p)
  | 'L' -> let (vs, p) = parse_vals s (expect s (pos + 1) '{') in (VList vs, p)
  | 'C' -> let (i, p) = num_req s (pos + 1) in
           let (v, p) = parse_val s (expect s p ':') in (VChoice (nat_of_int (int_of_cz i), v), p)
  | '_' -> (VNone, pos + 1)
  | '!' -> let (v, p) = parse_val s (pos + 1) in (VSome v, p)
  | c -> raise (Parse (Printf.sprintf "bad value char %c at %d" c pos))
and parse_vals s pos =
  if pos < String.length s && s.[pos] = '}' then ([], pos + 1)
  else let (v, p) = parse_val s pos in
       let (vs, p) = parse_vals s p in (v :: vs, p)

let rec show_val (v : val0) : string =
  match v with
  | VBool true -> "T" | VBool false -> "F" | VNull -> "N"
  | VInt z -> "I" ^ string_of_cz z ^ ";"
  | VOct bs -> "O" ^ (if bs = [] then "" else hex_of_bytes bs) ^ ";"
  | VSeq vs -> "S{" ^ String.concat "" (List.map show_val vs) ^ "}"
  | VList vs -> "L{" ^ String.concat "" (List.map show_val vs) ^ "}"
  | VChoice (i, v) -> "C" ^ string_of_int (int_of_nat i) ^ ":" ^ show_val v
  | VNone -> "_"
  | VSome v -> "!" ^ show_val v

let ty_of s = let (t, p) = parse_ty s 0 in
  if p <> String.length s then raise (Parse "trailing type text"); t
let val_of s = let (v, p) = parse_val s 0 in
  if p <> String.length s then raise (Parse "trailing value text"); v


let parse_ety s : ety =
  if String.length s = 0 then raise (Parse "ety expected");
  match s.[0] with
  | 'E' -> let (tg, p) = num_req s 1 in
           let (root, p) = parse_tys s (expect s p '{') in
           let (adds, p) = parse_tys s (expect s p '{') in
           if p <> String.length s then raise (Parse "trailing ety text");
           ESeq (tg, root, adds)
  | 'H' -> let (root, p) = parse_tys s (expect s 1 '{') in
           let (exts, p) = parse_tys s (expect s p '{') in
           if p <> String.length s then raise (Parse "trailing ety text");
           EChoice (root, exts)
  | c -> raise (Parse (Printf.sprintf "bad ety char %c" c))

let rec split_at n l = if n = 0 then ([], l) else match l with [] -> ([], []) | x :: tl -> let (a, b) = split_at (n - 1) tl in (x :: a, b)

let eval_of (t : ety) (s : string) : eval =
  match t, val_of s with
  | ESeq (_, root, _), VSeq vs -> let (a, b) = split_at (List.length root) vs in EVSeq (a, b)
  | EChoice _, VChoice (i, v) -> EVAlt (i, v)
  | _ -> raise (Parse "value does not fit the extensible type")


let parse_lay (s : string) : lay =
  let n = String.length s in
  let rec one pos : lay * int =
    if pos >= n then raise (Parse "layout expected");
    let p = (match s.[pos] with 'P' -> true | 'I' -> false | c -> raise (Parse (Printf.sprintf "bad layout char %c" c))) in
    let pos = expect s (pos + 1) '{' in
    let (subs, pos) = many pos in
    (L (p, subs), pos)
  and many pos : lay list * int =
    if pos < n && s.[pos] = '}' then ([], pos + 1)
    else let (l, p) = one pos in let (ls, p) = many p in (l :: ls, p) in
  let (l, p) = one 0 in
  if p <> n then raise (Parse "trailing layout text");
  l

let hex_or none = function Some bs -> (if bs = [] then "-" else hex_of_bytes bs) | None -> none

let dispatch cmd args =
  match cmd, args with
  | "lay_uper", [std; t; l; v] ->
      let t = ty_of t and l = parse_lay l in
      Some (match repr t l (val_of v) with Some s -> hex_or "NONE" (uper_c_encode (std = "1") t l s) | None -> "NOREPR")
  | "lay_oer", [t; l; v] ->
      let t = ty_of t and l = parse_lay l in
      Some (match repr t l (val_of v) with Some s -> hex_or "NONE" (oer_c t l s) | None -> "NOREPR")
  | "lay_der", [t; l; v] ->
      let t = ty_of t and l = parse_lay l in
      Some (match repr t l (val_of v) with Some s -> hex_or "NONE" (der_c t l s) | None -> "NOREPR")
  | "lay_xuper", [std; t; l; v] ->
      let t = parse_ety t and l = parse_lay l in
      Some (match ext_repr t l (eval_of t v) with Some s -> hex_or "NONE" (ext_uper_c_encode fetch (std = "1") t l s) | None -> "NOREPR")
  | "lay_xoer", [t; l; v] ->
      let t = parse_ety t and l = parse_lay l in
      Some (match ext_repr t l (eval_of t v) with Some s -> hex_or "NONE" (ext_oer_gen fetch t l s) | None -> "NOREPR")
  | "lay_xder", [t; l; v] ->
      let t = parse_ety t and l = parse_lay l in
      Some (match ext_repr t l (eval_of t v) with Some s -> hex_or "NONE" (ext_der_c t l s) | None -> "NOREPR")
  | "lay_xuper_noderef", [std; t; l; v] ->
      let t = parse_ety t and l = parse_lay l in
      Some (match ext_repr t l (eval_of t v) with Some s -> hex_or "STUCK" (ext_uper_c_encode fetch_inline (std = "1") t l s) | None -> "NOREPR")
  | "lay_xoer_noderef", [t; l; v] ->
      let t = parse_ety t and l = parse_lay l in
      Some (match ext_repr t l (eval_of t v) with Some s -> hex_or "STUCK" (ext_oer_gen fetch_inline t l s) | None -> "NOREPR")
  | _ -> None
