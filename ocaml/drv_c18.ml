(* drv_c18.ml — C18: frames with open-type members governed by an object set.
   Types and values use the syntax of drv_rt.ml (parsers copied: every area has its
   own extracted types).  A frame is given by the tokens
     <mode> <idty> <tags> <ncols> <ngroups> ( <n> ( <idval> <ty>{ncols} ){n} ){ngroups}
   mode = spec (X.681: every object written is a row) | comp (the table asn1c emits, `long` cells)
        | wide (the table asn1c emits under -fwide-types: INTEGER_t cells, octets; the identifier member is
          an INTEGER_t and the selector compares octets).  A set the compiler refuses gives REFUSED.
   tags = comma-separated EXPLICIT tags of the open-type members, - = none.
   commands (p = presence index, 0 = no row):
     c18sel <frame> <idval>                  -> <p>
     c18der|c18uper <frame> <idval> (<p> <val>)*   -> hex | NONE
     c18dec <frame> <hex>                    -> OK <consumed> <idval> (<p> <val>)* | FAIL
     c18uperdec <frame> <hex>                -> same
     c18cells <frame>                        -> <cell> ... (identifier cells of the table, I<z>; or O<hex>;) | EMPTY
     c18selraw <frame> <hex>                 -> <p>   (wide: the selector on raw INTEGER_t contents octets)
   The table as a matrix over a class of any shape (Rt/OpenTypeMatrix.v).  A set is given by the tokens
     <ngroups> ( <nelems> <elem>{nelems} ){ngroups}
     elem = o:<settings>            an object: comma-separated <field index>=<setting>, in WITH SYNTAX order
                                     (setting = a value I<z>; / O<hex>; or T:<type name>); o:- sets nothing
          | r:<nw>:<nc> <obj>{nw} <obj>{nc}   a reference to another set: its objects as written, the table compiled for it
   commands:
     c18mx <native|wide> <nfields> <set>                 -> <rows> <cols> <cell>* | REFUSED   (emit_dense of compile_objs; cell = - when unset)
     c18msel <spec|native|wide> <nfields> <ic> <fc> <set> <idval>
                                                         -> 0 | <p>:<cell> | STUCK   (spec: select_written on spec_objs;
                                                            else select_flat on the emitted matrix)
     c18alts <fc> <set>                                  -> <type cell>* | EMPTY   (alternatives of the open type on column fc)
   The governing SEQUENCE of any shape (Rt/OpenTypeFrame.v) and the container of an open type (Rt/OpenTypeContainer.v):
     c18wres <reference as spelled, e.g. @ident or @.ident> <member name>*   -> <member index> | NONE   (resolve_ref)
     c18wsel <reference> <nmembers> ( <name> <column|-> <value|-> ){nmembers} <nrows> ( <v,v,...> ){nrows}
                                                         -> <p>   (select_named: presence index, 0 = no row)
     c18woer <ty> <hex: length determinant + container [+ rest]>          -> OK <consumed> <val> | FAIL   (oer_dec_open)
   The loop of uper_open_type_put with its decision after every fragment (Rt/OpenTypeFrag.v):
     c18vput <c|64k> <hex: the complete encoding of the row value>        -> hex of the open type (open_put_c | open_put_64k; whole octets) *)
open Model
open Drvlib

exception Parse of string
exception Refused

let parse_num s pos : z option * int =
  let n = String.length s in
  if pos < n && s.[pos] = '*' then (None, pos + 1)
  else begin
    let j = ref pos in
    if !j < n && s.[!j] = '-' then incr j;
    while !j < n && s.[!j] >= '0' && s.[!j] <= '9' do incr j done;
    if !j = pos then raise (Parse ("number expected at " ^ string_of_int pos));
    (Some (cz_of_string (String.sub s pos (!j - pos))), !j)
  end

let num_req s pos = match parse_num s pos with
  | (Some z, p) -> (z, p)
  | (None, _) -> raise (Parse "number required")

let expect s pos c =
  if pos < String.length s && s.[pos] = c then pos + 1
  else raise (Parse (Printf.sprintf "expected %c at %d" c pos))

let parse_con s pos =
  let pos = expect s pos '[' in
  let (lo, pos) = parse_num s pos in
  let pos = expect s pos ',' in
  let (hi, pos) = parse_num s pos in
  let pos = expect s pos ',' in
  let (e, pos) = num_req s pos in
  let pos = expect s pos ']' in
  (lo, hi, (e <> Z0), pos)

let rec parse_ty s pos : ty * int =
  if pos >= String.length s then raise (Parse "type expected");
  match s.[pos] with
  | 'b' -> let (tg, p) = num_req s (pos + 1) in (TBool tg, p)
  | 'n' -> let (tg, p) = num_req s (pos + 1) in (TNull tg, p)
  | 'i' -> let (tg, p) = num_req s (pos + 1) in
           let (lo, hi, e, p) = parse_con s p in (TInt (tg, ICon (lo, hi, e)), p)
  | 'o' -> let (tg, p) = num_req s (pos + 1) in
           let (lo, hi, e, p) = parse_con s p in
           (TOct (tg, SCon ((match lo with Some l -> l | None -> Z0), hi, e)), p)
  | 's' -> let (tg, p) = num_req s (pos + 1) in
           let (ms, p) = parse_tys s (expect s p '{') in (TSeq (tg, ms), p)
  | 'q' | 't' as k ->
           let (tg, p) = num_req s (pos + 1) in
           let (lo, hi, e, p) = parse_con s p in
           let (el, p) = parse_ty s p in
           let sc = SCon ((match lo with Some l -> l | None -> Z0), hi, e) in
           ((if k = 'q' then TSeqOf (tg, sc, el) else TSetOf (tg, sc, el)), p)
  | 'c' -> let (alts, p) = parse_tys s (expect s (pos + 1) '{') in (TChoice alts, p)
  | 'x' -> let (tg, p) = num_req s (pos + 1) in
           let (t, p) = parse_ty s p in (TTag (tg, t), p)
  | '?' -> let (t, p) = parse_ty s (pos + 1) in (TOpt t, p)
  | c -> raise (Parse (Printf.sprintf "bad type char %c at %d" c pos))
and parse_tys s pos : ty list * int =
  if pos < String.length s && s.[pos] = '}' then ([], pos + 1)
  else let (t, p) = parse_ty s pos in
       let (ts, p) = parse_tys s p in (t :: ts, p)

let rec parse_val s pos : val0 * int =
  if pos >= String.length s then raise (Parse "value expected");
  match s.[pos] with
  | 'T' -> (VBool true, pos + 1)
  | 'F' -> (VBool false, pos + 1)
  | 'N' -> (VNull, pos + 1)
  | 'I' -> let (z, p) = num_req s (pos + 1) in (VInt z, expect s p ';')
  | 'O' -> let j = String.index_from s pos ';' in
           (VOct (bytes_of_hex (let h = String.sub s (pos + 1) (j - pos - 1) in if h = "" then "-" else h)), j + 1)
  | 'S' -> let (vs, p) = parse_vals s (expect s (pos + 1) '{') in (VSeq vs, p)
  | 'L' -> let (vs, p) = parse_vals s (expect s (pos + 1) '{') in (VList vs, p)
  | 'C' -> let (i, p) = num_req s (pos + 1) in
           let (v, p) = parse_val s (expect s p ':') in (VChoice (nat_of_int (int_of_cz i), v), p)
  | '_' -> (VNone, pos + 1)
  | '!' -> let (v, p) = parse_val s (pos + 1) in (VSome v, p)
  | c -> raise (Parse (Printf.sprintf "bad value char %c at %d" c pos))
and parse_vals s pos =
  if pos < String.length s && s.[pos] = '}' then ([], pos + 1)
  else let (v, p) = parse_val s pos in
       let (vs, p) = parse_vals s p in (v :: vs, p)

let rec show_val (v : val0) : string =
  match v with
  | VBool true -> "T" | VBool false -> "F" | VNull -> "N"
  | VInt z -> "I" ^ string_of_cz z ^ ";"
  | VOct bs -> "O" ^ (if bs = [] then "" else hex_of_bytes bs) ^ ";"
  | VSeq vs -> "S{" ^ String.concat "" (List.map show_val vs) ^ "}"
  | VList vs -> "L{" ^ String.concat "" (List.map show_val vs) ^ "}"
  | VChoice (i, v) -> "C" ^ string_of_int (int_of_nat i) ^ ":" ^ show_val v
  | VNone -> "_"
  | VSome v -> "!" ^ show_val v

let ty_of s = let (t, p) = parse_ty s 0 in
  if p <> String.length s then raise (Parse "trailing type text"); t
let val_of s = let (v, p) = parse_val s 0 in
  if p <> String.length s then raise (Parse "trailing value text"); v


let hex_opt = function Some bs -> hex_of_bytes bs | None -> "NONE"

let rec take n l = if n = 0 then ([], l) else match l with
  | x :: r -> let (a, b) = take (n - 1) r in (x :: a, b)
  | [] -> raise (Parse "missing tokens")

let cur_rep = ref RNative

let parse_frame (toks : string list) : frame * string list =
  match toks with
  | mode :: idty :: tags :: ncols :: ngroups :: rest ->
      let ncols = int_of_string ncols and ngroups = int_of_string ngroups in
      let tags = List.map (fun s -> if s = "-" then None else Some (cz_of_string s))
                   (List.filter (fun s -> s <> "") (String.split_on_char ',' tags)) in
      let rest = ref rest in
      let groups = List.init ngroups (fun _ ->
        match !rest with
        | n :: r ->
            rest := r;
            List.init (int_of_string n) (fun _ ->
              let (ts, r) = take (1 + ncols) !rest in
              rest := r;
              (val_of (List.hd ts), List.map ty_of (List.tl ts)))
        | [] -> raise (Parse "missing group")) in
      let emitted rep = match emit_table rep groups with Some t -> t | None -> raise Refused in
      let (tbl, rep) =
        if mode = "spec" then (spec_table groups, RNative)
        else if mode = "comp" then
          (let t = emitted RNative in
           if t <> compile_table groups then raise (Parse "emit_table RNative <> compile_table");
           (t, RNative))
        else if mode = "wide" then (emitted RWide, RWide)
        else raise (Parse "mode") in
      cur_rep := rep;
      ({ f_idt = ty_of idty; f_opens = tags; f_tbl = tbl }, !rest)
  | _ -> raise (Parse "frame expected")

let rec parse_ovals = function
  | [] -> []
  | p :: v :: r -> (nat_of_int (int_of_string p - 1), val_of v) :: parse_ovals r
  | _ -> raise (Parse "open value expected")

let show_fval ((idv, ovs) : val0 * (nat * val0) list) =
  String.concat " " (show_val idv :: List.map (fun (p, v) -> string_of_int (int_of_nat p + 1) ^ " " ^ show_val v) ovs)

let dec_s = function
  | Some (fv, n) -> Printf.sprintf "OK %s %s" (string_of_cz n) (show_fval fv)
  | None -> "FAIL"

(* ---------------- the matrix over any class shape ---------------- *)

type mcell = Cv of val0 | Ct of string

let show_mcell = function Cv v -> show_val v | Ct n -> "T:" ^ n
let show_ocell = function Some c -> show_mcell c | None -> "-"

let parse_setting s : mcell =
  if String.length s > 2 && String.sub s 0 2 = "T:" then Ct (String.sub s 2 (String.length s - 2)) else Cv (val_of s)

let parse_obj (tok : string) : (nat * mcell) list =
  if String.length tok < 2 || String.sub tok 0 2 <> "o:" then raise (Parse ("object expected: " ^ tok));
  let body = String.sub tok 2 (String.length tok - 2) in
  if body = "-" then []
  else List.map (fun kv ->
         match String.index_opt kv '=' with
         | Some i -> (nat_of_int (int_of_string (String.sub kv 0 i)), parse_setting (String.sub kv (i + 1) (String.length kv - i - 1)))
         | None -> raise (Parse ("setting expected: " ^ kv)))
       (String.split_on_char ',' body)

let parse_eset (toks : string list) : (mcell elem) list list * string list =
  match toks with
  | ng :: rest ->
      let rest = ref rest in
      let next () = match !rest with t :: r -> rest := r; t | [] -> raise (Parse "missing set tokens") in
      let groups = List.init (int_of_string ng) (fun _ ->
        let n = int_of_string (next ()) in
        List.init n (fun _ ->
          let t = next () in
          if String.length t > 2 && String.sub t 0 2 = "r:" then begin
            match String.split_on_char ':' t with
            | [_; nw; nc] ->
                let w = List.init (int_of_string nw) (fun _ -> parse_obj (next ())) in
                let c = List.init (int_of_string nc) (fun _ -> parse_obj (next ())) in
                ERef (w, c)
            | _ -> raise (Parse ("reference expected: " ^ t))
          end else EObj (parse_obj t))) in
      (groups, !rest)
  | [] -> raise (Parse "set expected")

let rep_of = function "native" -> RNative | "wide" -> RWide | m -> raise (Parse ("representation: " ^ m))

(* value cells as the compiler emits them under a representation *)
let emit_mcell rep = function
  | Cv v -> (match emit_cell rep v with Some c -> Cv c | None -> raise Refused)
  | Ct n -> Ct n

let emit_objs rep objs = List.map (List.map (fun (k, c) -> (k, emit_mcell rep c))) objs

let show_sel = function
  | SelNone -> "0"
  | SelStuck -> "STUCK"
  | SelRow (r, tc) -> string_of_int (int_of_nat r + 1) ^ ":" ^ show_ocell tc

let name_of (s : string) : z list =
  List.init (String.length s) (fun i -> cz_of_string (string_of_int (Char.code s.[i])))

let rec dispatch cmd args =
  try dispatch0 cmd args with Refused -> Some "REFUSED"
and dispatch0 cmd args =
  match cmd with
  | "c18cells" ->
      let (f, _) = parse_frame args in
      Some (match f.f_tbl with [] -> "EMPTY" | t -> String.concat " " (List.map (fun (c, _) -> show_val c) t))
  | "c18selraw" ->
      let (f, rest) = parse_frame args in
      (match rest with
       | [h] -> Some (match select_octets f.f_tbl (bytes_of_hex h) with
                      | Some (i, _) -> string_of_int (int_of_nat i + 1)
                      | None -> "0")
       | _ -> Some "BADARG")
  | "c18sel" ->
      let (f, rest) = parse_frame args in
      (match rest with
       | [idv] -> Some (match select_rep !cur_rep f.f_tbl (val_of idv) with
                        | Some (i, _) -> string_of_int (int_of_nat i + 1)
                        | None -> "0")
       | _ -> Some "BADARG")
  | "c18der" | "c18uper" ->
      let (f, rest) = parse_frame args in
      (match rest with
       | idv :: ovs ->
           let fv = (val_of idv, parse_ovals ovs) in
           Some (hex_opt (if cmd = "c18der" then der_frame f fv else uper_frame f fv))
       | _ -> Some "BADARG")
  | "c18dec" ->
      let (f, rest) = parse_frame args in
      (match rest with
       | [h] -> Some (dec_s (ber_decode_frame_rep !cur_rep f (bytes_of_hex h)))
       | _ -> Some "BADARG")
  | "c18uperdec" ->
      let (f, rest) = parse_frame args in
      (match rest with
       | [h] -> Some (dec_s (uper_decode_frame_rep !cur_rep f (bytes_of_hex h)))
       | _ -> Some "BADARG")
  | "c18mx" ->
      (match args with
       | rep :: n :: rest ->
           let (s, _) = parse_eset rest in
           let e = emit_dense (nat_of_int (int_of_string n)) (emit_objs (rep_of rep) (compile_objs s)) in
           Some (String.concat " " (string_of_int (int_of_nat e.e_rows) :: string_of_int (int_of_nat e.e_cols) :: List.map show_ocell e.e_cells))
       | _ -> Some "BADARG")
  | "c18msel" ->
      (match args with
       | mode :: n :: ic :: fc :: rest ->
           let (s, rest) = parse_eset rest in
           let nn x = nat_of_int (int_of_string x) in
           (match rest with
            | [idv] ->
                let v = val_of idv in
                if mode = "spec" then
                  Some (show_sel (select_written (function Cv c -> id_eqb v c | Ct _ -> false) (nn ic) (nn fc) (spec_objs s) O))
                else begin
                  let rep = rep_of mode in
                  let e = emit_dense (nn n) (emit_objs rep (compile_objs s)) in
                  Some (show_sel (select_flat (function Cv c -> cell_eqb rep (key_of rep v) c | Ct _ -> false) e (nn ic) (nn fc)))
                end
            | _ -> Some "BADARG")
       | _ -> Some "BADARG")
  | "c18alts" ->
      (match args with
       | fc :: rest ->
           let (s, _) = parse_eset rest in
           (match alts (nat_of_int (int_of_string fc)) (compile_objs s) with
            | [] -> Some "EMPTY"
            | l -> Some (String.concat " " (List.map show_mcell l)))
       | _ -> Some "BADARG")
  | "c18wres" ->
      (match args with
       | r :: names -> Some (match resolve_ref (List.map name_of names) (name_of r) with
                             | Some i -> string_of_int (int_of_nat i)
                             | None -> "NONE")
       | _ -> Some "BADARG")
  | "c18wsel" ->
      (match args with
       | r :: nm :: rest ->
           let rest = ref rest in
           let next () = match !rest with t :: tl -> rest := tl; t | [] -> raise (Parse "missing tokens") in
           let ms = List.init (int_of_string nm) (fun _ ->
             let n = next () in let c = next () in let v = next () in
             { m_name = name_of n;
               m_col = (if c = "-" then None else Some (nat_of_int (int_of_string c)));
               m_val = (if v = "-" then None else Some (cz_of_string v)) }) in
           let nr = int_of_string (next ()) in
           let rows = List.init nr (fun _ -> List.map cz_of_string (String.split_on_char ',' (next ()))) in
           Some (match select_named ms rows (name_of r) with
                 | Some i -> string_of_int (int_of_nat i + 1)
                 | None -> "0")
       | _ -> Some "BADARG")
  | "c18vput" ->
      (match args with
       | [r; h] -> Some (hex_of_bytes (bits_to_bytes ((if r = "64k" then open_put_64k else open_put_c) (bytes_of_hex h))))
       | _ -> Some "BADARG")
  | "c18woer" ->
      (match args with
       | [t; h] -> Some (match oer_decode_open (ty_of t) (bytes_of_hex h) with
                         | Some (v, n) -> Printf.sprintf "OK %s %s" (string_of_cz n) (show_val v)
                         | None -> "FAIL")
       | _ -> Some "BADARG")
  | _ -> None
